"""MANIFEST texts of the `box` family."""
BOX_NOTE = ("Trusted: Lean kernel + axioms {propext, Classical.choice, Quot.sound}; the hand-written ownership machine of boxed.rs "
            "(Model/Box.lean: each function as its ManuallyDrop / ptr::read / drop_in_place step sequence) is tied to the code by the "
            "differential run (sampling); Rust's drop glue for slices/arrays (continues after a panicking element) and scope-end drops "
            "are modelled as primitive steps and validated by injected destructor panics; arena figures after calls into the arena are "
            "inputs (the arena family owns them); Box<[T]> -> Vec exists only as the unsafe raw-parts round trip and is exercised as such; "
            "64-bit only.")
CLAIMS = {
    "C17": dict(
        text="Theorems (Lean, all programs over a variable table, by induction over operation lists): the ownership invariant Own (owned, "
             "escaped via into_raw, leaked, dropped, moved-out are pairwise disjoint and duplicate-free, and together are exactly the values "
             "created) holds after every program; dropping a Box runs the destructor exactly once and leaves allocated_bytes / chunk count / "
             "bytes in use unchanged with no allocator event; dropping a boxed slice or array drops each element exactly once in order, also "
             "when the destructor of any element k panics; into_inner (one moved-out event, same value), into_raw, leak, from_raw, pin_in, "
             "Pin conversions and unsizing transfer the value with no destructor call; from_raw(into_raw(b)) = b; downcast returns Ok with "
             "the same value iff the type tag matches and otherwise Err with the same box, for every target; Box<[T;N]> <-> Box<[T]> <-> Vec "
             "(into_boxed_slice, From<Vec>, TryFrom with right and wrong length, from_iter_in) preserve the element sequence; only "
             "constructors (Bump::alloc) and dropping an arena Vec touch the arena; destructors run only in drop, values are read out only by "
             "into_inner. Correspondence: every generated program (sized, zero-sized, slices, arrays, str, dyn Any with matching and "
             "non-matching targets, boxed closures, Vec conversions, injected destructor panics) runs on bumpalo::boxed::Box, "
             "std::boxed::Box and the model; results, variable contents read through the real pointers, per-call drop sequences, "
             "moved-out values and arena accounting are compared after every call and at program end. Delegation clause: that Box "
             "compares / hashes / formats / iterates / polls / AsRef/Borrows as its pointee is definitional in the model; that the source "
             "has that form is regenerated on every run (tools/extract_box.py -> Gen/BoxImpls.lean: 39 methods of 17 trait impls, each "
             "classified as a literal forward to the pointee or not) and is the obligation delegating_impls_forward; the results "
             "themselves are compared with std on the sampled programs, plus Hasher/Iterator/Future probes.",
        note=BOX_NOTE,
        technique="proof (Lean 4) + differential correspondence with std::boxed::Box and the model"),
}
NOT_CLAIMED = {}
