#!/usr/bin/env python3
"""Function-body translator for the chunk-list walkers of `src/lib.rs` that the main translator treats as primitives:
`dealloc_chunk_list`, `Drop for Bump`, `Bump::allocated_bytes_including_metadata`.

A `NonNull<ChunkFooter>` that heads a *chain* (a list of chunks linked by `prev`, ending at the static empty chunk) is the list
of the real chunks of that chain, newest first (`Rs.chain_head E chain` is the footer it points at: the head, or the static
empty chunk for `[]`).  Rules:

  * `x.as_ref()` is `x`; `c.is_empty()` is the translated `ChunkFooter::is_empty` on the chain's head;
  * `c.prev.get()` is the tail of the chain; `c.data`, `c.layout` are fields of its head;
  * `dealloc(ptr, layout)` (the global allocator's) is the event `Ev.free ptr size align` (`Rs.global_dealloc`);
  * `while cond { … }` is a function recursive on fuel (the chain's length + 1: every iteration follows one `prev` link of a
    finite chain); running out of fuel is `bad`;
  * `self.current_chunk_footer.get()` is the arena's own chain `s.a.chunks`;
  * `it.count()` (std's `Iterator::count`) is: call the translated `next` until it yields `None`, counting (generated here as
    `chunk_raw_iter_count`, fuel as above); `mem::size_of::<ChunkFooter>()` is the regenerated `Gen.FOOTER_SIZE`;
  * `usize` `+`/`*` are checked (`bad` when they would wrap: these are sums of sizes of memory that exists).
"""
import os, sys
sys.path.insert(0, os.path.dirname(os.path.abspath(__file__)))
import rsparse
from rsparse import ParseError

FILE = "src/lib.rs"
CHAIN, NAT, BOOL, UNIT, LAYOUT, RAWITER = "chain", "nat", "bool", "unit", "layout", "rawiter"


class Untranslatable(Exception):
    pass


class T:
    def __init__(self, lean):
        self.lean = lean
        self.n = 0
        self.defs = []

    def fresh(self, b):
        self.n += 1
        return f"{b}_{self.n}"

    def bad(self, why):
        return f'(s, Outcome.bad "{self.lean}: {why}")'

    # pure expressions -> (term, type); calls that need the state go through X
    def X(self, e, env, k):
        """k(term, type)"""
        kind = e[0]
        if kind in ("paren", "unsafe"):
            return self.X(e[1], env, k)
        if kind == "block" and not e[1] and e[2] is not None:
            return self.X(e[2], env, k)
        if kind == "path" and len(e[1]) == 1 and e[1][0] in env:
            return k(*env[e[1][0]])
        if kind == "un" and e[1] == "!":
            return self.X(e[2], env, lambda t, ty: k(f"(!{t})", BOOL))
        if kind == "bin" and e[1] in ("+", "*"):
            def ka(a, ta):
                def kb(b, tb):
                    if ta != NAT or tb != NAT: raise Untranslatable("arithmetic on non-integers")
                    r = self.fresh("n")
                    return (f"(if {a} {e[1]} {b} < USIZE then\nlet {r} := {a} {e[1]} {b};\n{k(r, NAT)}\nelse {self.bad('arithmetic overflow')})")
                return self.X(e[3], env, kb)
            return self.X(e[2], env, ka)
        if kind == "field":
            if e[1] == ("path", ["self"]) and e[2] == "current_chunk_footer":
                return k("s.a.chunks", ("cell", CHAIN))

            def kf(t, ty):
                if ty != CHAIN: raise Untranslatable(f"field .{e[2]} of {ty}")
                if e[2] == "prev": return k(f"{t}.tail", ("cell", CHAIN))
                if e[2] == "data": return k(f"(Rs.chain_head E {t}).data", NAT)
                if e[2] == "layout": return k(f"(Rs.Layout.mk (Rs.chain_head E {t}).size (Rs.chain_head E {t}).align)", LAYOUT)
                raise Untranslatable(f"field .{e[2]}")
            return self.X(e[1], env, kf)
        if kind == "mcall":
            name, args = e[2], e[3]
            if e[1] == ("path", ["self"]) and not args:
                if name == "iter_allocated_chunks_raw":
                    r = self.fresh("it")
                    return f"(bindO (s, Gen.Fn.iter_allocated_chunks_raw E M s) fun s {r} =>\n{k(r, RAWITER)})"
                if name == "allocated_bytes":
                    r = self.fresh("ab")
                    return f"(bindO (s, Gen.Fn.allocated_bytes E M s) fun s {r} =>\n{k(r, NAT)})"
                raise Untranslatable(f"self.{name}()")

            def kr(t, ty):
                if name == "as_ref" and not args and ty == CHAIN: return k(t, CHAIN)
                if name == "as_ptr" and not args and ty == NAT: return k(t, NAT)
                if name == "get" and not args and isinstance(ty, tuple) and ty[0] == "cell": return k(t, ty[1])
                if name == "is_empty" and not args and ty == CHAIN:
                    r = self.fresh("r")
                    return f"(bindO (s, Gen.Fn.is_empty E M (Rs.chain_head E {t}) s) fun s {r} =>\n{k(r, BOOL)})"
                if name == "count" and not args and ty == RAWITER:
                    r = self.fresh("cnt")
                    self.need_count = True
                    return f"(bindO (s, Gen.Fn.chunk_raw_iter_count E M s (s.a.chunks.length + 1) {t} 0) fun s {r} =>\n{k(r, NAT)})"
                raise Untranslatable(f"method .{name} on {ty}")
            return self.X(e[1], env, kr)
        if kind == "call" and e[1][0] == "path":
            segs, args = e[1][1], e[2]
            if segs == ["mem", "size_of<ChunkFooter>"] and not args:
                return k("Gen.FOOTER_SIZE", NAT)
            if segs == ["dealloc"] and len(args) == 2:
                return self.X(args[0], env, lambda p, tp: self.X(args[1], env, lambda l, tl:
                              f"(bindO (Rs.global_dealloc {p} {l} s) fun s _ =>\n{k('()', UNIT)})"))
            if segs == ["dealloc_chunk_list"] and len(args) == 1:
                return self.X(args[0], env, lambda c, tc: f"(bindO (Gen.Fn.dealloc_chunk_list E M {c} s) fun s _ =>\n{k('()', UNIT)})")
            raise Untranslatable(f"call of {'::'.join(segs)}")
        raise Untranslatable(f"expression form {kind}")

    def B(self, blk, env, k):
        """block: k(term, type, env)"""
        if blk[0] == "unsafe": return self.B(blk[1], env, k)
        _, stmts, tail = blk

        def go(i, env_):
            if i == len(stmts):
                if tail is None: return k("()", UNIT, env_)
                if tail[0] in ("while",): return self.WHILE(tail, env_, lambda e2: k("()", UNIT, e2))
                if tail[0] in ("unsafe", "block") and (tail[0] == "unsafe" or tail[1]): return self.B(tail, env_, k)
                return self.X(tail, env_, lambda t, ty: k(t, ty, env_))
            st = stmts[i]
            if st[0] == "let" and st[1][0] == "pid":
                def kl(t, ty):
                    ln = self.fresh(st[1][1]); e2 = dict(env_); e2[st[1][1]] = (ln, ty)
                    return f"let {ln} := {t};\n{go(i + 1, e2)}"
                return self.X(st[2], env_, kl)
            if st[0] == "assign" and st[1] == "=" and st[2][0] == "path" and st[2][1][0] in env_:
                name = st[2][1][0]

                def ka(t, ty):
                    ln = self.fresh(name); e2 = dict(env_); e2[name] = (ln, ty)
                    return f"let {ln} := {t};\n{go(i + 1, e2)}"
                return self.X(st[3], env_, ka)
            if st[0] == "expr" and st[1][0] == "while":
                return self.WHILE(st[1], env_, lambda e2: go(i + 1, e2))
            if st[0] == "expr":
                return self.X(st[1], env_, lambda t, ty: go(i + 1, env_))
            raise Untranslatable(f"statement {st[0]}")
        return go(0, env)

    def WHILE(self, e, env, k):
        _, cond, body = e
        muts = [n for n in env if env[n][1] == CHAIN]       # the loop's state: the chain cursor(s)
        if len(muts) != 1: raise Untranslatable("loop state")
        m = muts[0]
        name = f"{self.lean}.loop"
        fuel1 = self.fresh("fuel")
        cur = self.fresh(m)
        envl = dict(env); envl[m] = (cur, CHAIN)
        again = lambda t, ty, e2: f"(Gen.Fn.{name} E M {fuel1} {e2[m][0]} s)"
        inner = self.X(cond, envl, lambda tc, tyc: f"(if {tc} then\n{self.B(body, envl, again)}\nelse\n{k(envl)})")
        self.defs.append(f"def {name} (E M : Nat) : Nat → List Chunk → St → St × Outcome Unit\n"
                         f"  | 0, _, s => {self.bad('loop fuel exhausted')}\n  | {fuel1} + 1, {cur}, s =>\n" + indent(inner, 2) + "\n")
        return f"(Gen.Fn.{name} E M ({env[m][0]}.length + 1) {env[m][0]} s)"


COUNT_DEF = """/-- `Iterator::count` over `ChunkRawIter` (std: call `next` until `None`, counting) -/
def chunk_raw_iter_count (E M : Nat) (s : St) : Nat → Chunk → Nat → Outcome Nat
  | 0, _, _ => Outcome.bad "count: loop fuel exhausted"
  | fuel + 1, pos, n =>
    Rs.bindP (Gen.Fn.chunk_raw_iter_next E M pos s) fun r =>
      match r.1 with
      | none => Outcome.ok n
      | some _ => chunk_raw_iter_count E M s fuel r.2 (n + 1)
"""


def indent(text, base=1):
    out, depth = [], 0
    for line in text.split("\n"):
        line = line.strip()
        if not line: continue
        lead = 0
        for c in line:
            if c == ")": lead += 1
            else: break
        out.append("  " * (base + max(depth - lead, 0)) + line)
        depth += line.count("(") - line.count(")")
    return "\n".join(out)


HEADER = """import BumpVerif.Model.Rs
import BumpVerif.Gen.FnFooter
import BumpVerif.Gen.FnBytes
import BumpVerif.Gen.FnIter
/-! GENERATED by tools/rs2lean_chunks.py from /repo/src/lib.rs — do not edit.
The chunk-list walkers: `dealloc_chunk_list`, `Drop for Bump`, `allocated_bytes_including_metadata`. -/
set_option linter.unusedVariables false
namespace Gen.Fn
open Bump

"""

FUNCS = [
    ("dealloc_chunk_list", None, "dealloc_chunk_list", [("footer", CHAIN)], UNIT),
    ("drop", "Drop for Bump<MIN_ALIGN>", "bump_drop", [], UNIT),
    ("allocated_bytes_including_metadata", None, "allocated_bytes_including_metadata", [], NAT),
]


def translate_all(repo):
    report, out = {}, []
    src = rsparse.strip_comments(open(os.path.join(repo, FILE)).read())
    for name, anchor, lean, params, ret in FUNCS:
        try:
            sig, body = rsparse.find_fn(src, name, 0, anchor)
            t = T(lean)
            t.need_count = False
            env = {n: (n, ty) for n, ty in params}
            text = t.B(body, env, lambda v, ty, e2: f"(s, Outcome.ok {v})")
            ps = " ".join(f"({n} : List Chunk)" for n, ty in params)
            pre = (COUNT_DEF + "\n") if t.need_count else ""
            out.append(pre + "\n".join(t.defs) + f"/-- `fn {name}`{' (' + anchor + ')' if anchor else ''} -/\n"
                       f"def {lean} (E M : Nat) {ps} (s : St) : St × Outcome {'Unit' if ret == UNIT else 'Nat'} :=\n" + indent(text) + "\n")
            report[lean] = "ok"
        except (ParseError, Untranslatable, KeyError, IndexError, TypeError) as ex:
            out.append(f"/- `{name}` ({lean}) could not be translated: {type(ex).__name__}: {ex} -/\n")
            report[lean] = f"untranslatable: {type(ex).__name__}: {ex}"
    return HEADER + "\n".join(out) + "\nend Gen.Fn\n", report


def run(repo, out_dir, write_if_changed):
    text, report = translate_all(repo)
    changed = write_if_changed(os.path.join(out_dir, "FnChunks.lean"), text)
    return {"fn_bodies_chunks": report, "fn_chunks_changed": changed}


if __name__ == "__main__":
    text, report = translate_all(os.environ.get("BV_REPO", "/repo"))
    print(text)
    for k, v in report.items():
        print(f"-- {k}: {v}")
