"""Per-property configuration of ./check for the `box` family (bumpalo::boxed::Box)."""

BOX_TRUSTED = [
    "Rust's drop glue for [T] / [T; N] (destructors front to back; after one unwinds the remaining elements are still dropped) and the "
    "scope-end Drop of a by-value argument are modelled as primitive steps (dropGlue, Frame.scopeEnd); an injected destructor panic at every "
    "position checks them on the real code",
    "ManuallyDrop::new / mem::forget (disarm the handle), ptr::read (bitwise copy out), Pin::new_unchecked, raw-pointer casts are modelled "
    "from their documented contracts",
    "arena figures after a call into the arena (allocated_bytes, chunk count, bytes in use, allocator events) are inputs from the trace: "
    "how much Bump::alloc hands out belongs to the arena family; this model only says that no other Box operation changes them",
    "comparison / hash / format / iterate / poll / AsRef / Borrow delegation is definitional in the model; its assurance is the "
    "side-by-side run against std::boxed::Box (sampled, not proved)",
]

_OPS_ALL = ["new", "pin", "new_arr", "from_iter", "vec", "new_any", "new_fn", "new_str", "default_slice", "default_str", "drop", "into_inner",
            "into_raw", "from_raw", "leak", "to_any", "downcast", "into_pin", "unpin", "arr_to_slice", "slice_to_arr", "into_boxed_slice",
            "from_vec", "slice_to_vec", "vec_push", "read", "views", "write", "call", "cmp", "fmt", "hash", "ptrfmt", "iter_probe",
            "poll_probe", "hasher_probe"]
_FIELDS = ["res", "owned", "drops", "moved", "ab", "chunks", "used", "evt"]

SPECS = {
    "C17": dict(
        family="box", lean_module="BumpVerif.Props.C17", level="proof",
        fields=_FIELDS, nontrivial_ops=[o for o in _OPS_ALL if o not in ("read", "new_str", "default_str")],
        thorough_scale=60, timeout=600, trusted_extra=BOX_TRUSTED,
        partial=["delegation clause (compare/hash/format/iterate/poll as the pointee): proved for the regenerated table of method bodies (each is literally a forward, as classified by the translator tools/extract_box.py, which is trusted); the pointee results themselves are sampled against std::boxed::Box"],
        explanation="Theorems about the Lean ownership machine of boxed.rs (Own invariant over all programs, exactly-one drop, transfers "
                    "without drop, downcast by tag, order-preserving conversions, arena untouched) + differential run: every generated "
                    "program on bumpalo::boxed::Box, std::boxed::Box and the model; drop ledgers with unique ids, arena accounting and "
                    "allocator events around every operation.",
    ),
    # Box part of C15 (dropped exactly once, only by the owner; into_raw / leak / into_inner never double-drop).
    # Stand-alone entry the lead can compose with the vec family's C15.
    "C15B": dict(
        family="box", lean_module="BumpVerif.Props.C17", level="proof", oracle_select="ledger",
        fields=["res", "owned", "drops", "moved"],
        ops=["drop", "into_inner", "into_raw", "from_raw", "leak", "to_any", "downcast", "into_pin", "unpin", "arr_to_slice", "slice_to_arr",
             "into_boxed_slice", "from_vec", "slice_to_vec", "end", "driver"],
        nontrivial_ops=["drop", "into_inner", "into_raw", "from_raw", "leak", "into_boxed_slice", "from_vec", "slice_to_vec", "arr_to_slice", "slice_to_arr"],
        box_jobs=[("general", 800, 40), ("convert", 800, 40), ("zst", 400, 40), ("any", 200, 40)],
        thorough_scale=60, timeout=600, trusted_extra=BOX_TRUSTED,
        explanation="Box part of C15: theorems never_dropped_twice, five_classes, box_drop, transfers_run_no_destructor, "
                    "escaped_and_leaked_not_dropped of Props/C17.lean; drop ledger of the real crate compared with std's and the model's "
                    "after every call and at the end of the program.",
    ),
    # Box part of C16 (a panicking destructor inside Box drop / boxed slice drop / boxed array drop / Vec drop: no double drop)
    "C16B": dict(
        family="box", lean_module="BumpVerif.Props.C17", level="proof", oracle_select="ledger-panic",
        fields=["res", "owned", "drops", "moved"], ops=["drop", "end", "driver"],
        nontrivial_ops=["drop"],
        box_jobs=[("panics", 2000, 40)],
        thorough_scale=60, timeout=600, trusted_extra=BOX_TRUSTED,
        explanation="Box part of C16: theorem slice_drop_with_panicking_destructor (every panic position) + injected destructor panics at "
                    "every element index of boxed slices / arrays / Vecs / boxes on the real crate, ledger checked after catch_unwind "
                    "and again at the end of the program.",
    ),
}
SPECS["C15b"] = SPECS["C15B"]
SPECS["C16b"] = SPECS["C16B"]
