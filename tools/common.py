"""Shared machinery of ./check: Lean obligations, verdict, evidence, known findings."""
import os, re, sys, json, time, subprocess, fcntl, hashlib, glob

ROOT = os.path.dirname(os.path.dirname(os.path.abspath(__file__)))
LEAN = os.path.join(ROOT, "lean")
HARNESS = os.path.join(ROOT, "harness")
REPO = os.environ.get("BV_REPO", "/repo")
ALLOWED_AXIOMS = {"propext", "Classical.choice", "Quot.sound"}
FORBIDDEN = re.compile(r"\bsorry\b|\badmit\b|^\s*axiom\s|native_decide|bv_decide|implemented_by|\bunsafe\s|maxHeartbeats\s+0")

TRUSTED_BASE = [
    "Lean 4.33 kernel; axioms limited to propext, Classical.choice, Quot.sound (audited with #print axioms on every run)",
    "hand-written Lean model of src/lib.rs (and of the collections for C13-C17); tied to the code by the in-process differential correspondence run, which samples",
    "tools/extract.py: regex-level reader of constants / struct layout / repr attributes / signatures in /repo/src",
    "rustc code generation and layout (size_of, Layout::new, Result<T,E> layout are observed and passed to the model)",
    "core::ptr::{copy,copy_nonoverlapping,write,read}, Layout::array, the global allocator contract (mallocOK) are modelled, not verified",
    "64-bit target only",
]


def load_spec(prop):
    import specs
    return specs.SPECS.get(prop)


class Ctx:
    def __init__(self, prop, tier, seed, spec):
        self.prop, self.tier, self.seed, self.spec = prop, tier, seed, spec
        self.workdir = os.path.join(ROOT, "work", prop)
        self.replaydir = os.path.join(ROOT, "replays")
        os.makedirs(self.workdir, exist_ok=True)
        os.makedirs(self.replaydir, exist_ok=True)
        self.t0 = time.time()

    def log(self, msg):
        print(f"[{self.prop} {time.time() - self.t0:6.1f}s] {msg}", file=sys.stderr)
        sys.stderr.flush()


class Lock:
    def __init__(self, name):
        self.path = os.path.join(ROOT, "work", f".{name}.lock")
        os.makedirs(os.path.dirname(self.path), exist_ok=True)

    def __enter__(self):
        self.f = open(self.path, "w")
        fcntl.flock(self.f, fcntl.LOCK_EX)

    def __exit__(self, *a):
        fcntl.flock(self.f, fcntl.LOCK_UN)
        self.f.close()


def sh(cmd, cwd=None, timeout=3600, env=None, stdin=None):
    e = dict(os.environ)
    e.update({"CARGO_NET_OFFLINE": "true"})
    if env:
        e.update(env)
    p = subprocess.run(cmd, cwd=cwd, shell=isinstance(cmd, str), stdout=subprocess.PIPE, stderr=subprocess.STDOUT,
                       timeout=timeout, env=e, stdin=stdin)
    return p.returncode, p.stdout.decode("utf-8", "replace")


# --------------------------------------------------------------------------------------
# Lean side
# --------------------------------------------------------------------------------------

def strip_lean_comments(src):
    src = re.sub(r"/-.*?-/", "", src, flags=re.S)
    return "\n".join(l.split("--")[0] for l in src.split("\n"))


def import_closure(mod):
    """files of this project that `mod` transitively imports (incl. itself)"""
    seen, todo = [], [mod]
    while todo:
        m = todo.pop()
        path = os.path.join(LEAN, m.replace(".", "/") + ".lean")
        if path in seen or not os.path.exists(path):
            continue
        seen.append(path)
        for imp in re.findall(r"^import\s+(\S+)", open(path).read(), flags=re.M):
            if imp.startswith("BumpVerif") or imp.startswith("Driver"):
                todo.append(imp)
    return seen


def forbidden_scan(mod=None, extra=()):
    """scan the import closure of the property's theorem module (and the drivers it uses)"""
    hits = []
    files = []
    for m in [mod] + list(extra):
        if m:
            files += import_closure(m)
    for path in sorted(set(files)):
        src = strip_lean_comments(open(path).read())
        for i, line in enumerate(src.split("\n"), 1):
            if FORBIDDEN.search(line):
                hits.append(f"{os.path.relpath(path, ROOT)}:{i}: {line.strip()[:80]}")
    return hits


def lean_obligations(ctx):
    """Regenerate Gen/*.lean, build the property's theorem module, audit axioms.
    Returns dict(obligations=[names], discharged=[names], broken=[{name, why}], ...)"""
    out = {"obligations": [], "discharged": [], "broken": [], "checker_cmd": "", "axioms": {}, "extract": None}
    mods = ctx.spec.get("lean_modules") or ([ctx.spec.get("lean_module")] if ctx.spec.get("lean_module") else [])
    mod = mods[0] if mods else None
    with Lock("lean"):
        rc, txt = sh([sys.executable, os.path.join(ROOT, "tools", "extract.py")])
        try:
            out["extract"] = json.loads(txt.strip().split("\n")[-1])
        except Exception:
            out["extract"] = {"ok": False, "error": txt[-400:]}
        if not out["extract"].get("ok"):
            out["broken"].append({"name": "extract", "why": "translator could not read /repo/src: " + str(out["extract"].get("error"))})
        if mod is None:
            return out
        cmd = "lake build " + " ".join(mods)
        out["checker_cmd"] = f"cd lean && python3 ../tools/extract.py && {cmd} && " + " && ".join(f"lake env lean {m.replace('.', '/')}.lean" for m in mods) + "  # + axiom audit, forbidden-token scan"
        t = time.time()
        rc, txt = sh(cmd, cwd=LEAN, timeout=3000)
        ctx.log(f"lake build {mod}: rc={rc} in {time.time() - t:.1f}s")
        build_ok = rc == 0
        if not build_ok:
            errs = re.findall(r"error: ([^\n]*\.lean:\d+:\d+): ([^\n]*)", txt)
            names = set()
            for loc, msg in errs[:20]:
                names.add(theorem_at(loc))
            if not names:
                names.add("lake-build")
            for n in sorted(names):
                out["broken"].append({"name": n, "why": "does not check: " + "; ".join(f"{l}: {m}" for l, m in errs[:3])})
            out["build_log_tail"] = txt[-1500:]
        # list of obligations = theorems audited in the property file(s)
        wanted_all = []
        for m_ in mods:
            path = os.path.join(LEAN, m_.replace(".", "/") + ".lean")
            src = open(path).read() if os.path.exists(path) else ""
            wanted = re.findall(r"^#print axioms\s+(\S+)", src, flags=re.M)
            wanted_all += wanted
            if build_ok:
                rc, txt = sh(f"lake env lean {m_.replace('.', '/')}.lean", cwd=LEAN, timeout=3000)
                if rc != 0:
                    out["broken"].append({"name": m_, "why": "re-elaboration failed: " + txt[-300:]})
                for m in re.finditer(r"'([^']+)' depends on axioms: \[([^\]]*)\]", txt):
                    out["axioms"][m.group(1)] = [a.strip() for a in m.group(2).replace("\n", " ").split(",") if a.strip()]
                for m in re.finditer(r"'([^']+)' does not depend on any axioms", txt):
                    out["axioms"][m.group(1)] = []
                for name in wanted:
                    full = [k for k in out["axioms"] if k == name or k.endswith("." + name)]
                    if not full:
                        out["broken"].append({"name": name, "why": "no #print axioms output"})
                        continue
                    bad = [a for a in out["axioms"][full[0]] if a not in ALLOWED_AXIOMS]
                    if bad:
                        out["broken"].append({"name": name, "why": f"depends on disallowed axioms {bad}"})
                    else:
                        out["discharged"].append(name)
        out["obligations"] = wanted_all
        hits = forbidden_scan(None, list(mods) + ctx.spec.get("drivers", ["Driver.Main"]))
        if hits:
            out["broken"].append({"name": "forbidden-token-scan", "why": "; ".join(hits[:5])})
        if ctx.tier == "thorough" and build_ok:
            rc, txt = sh("lake env leanchecker " + " ".join(mods), cwd=LEAN, timeout=3000)
            out["leanchecker_rc"] = rc
            if rc != 0:
                out["broken"].append({"name": "leanchecker", "why": txt[-300:]})
    return out


GEN_MODULES = ["Arith", "Details", "Bytes", "Limit", "Footer", "Fast", "Realloc", "Reset", "NewChunk", "Slow", "Iter", "RawVec", "Rewind", "Ctor", "Vec", "VecDrain", "VecIntoIter", "VecFilter", "VecCopy", "Glue", "Box", "Lossy", "Str", "Chunks", "Typed", "Splice", "Slices", "SpliceDrop", "StrFwd", "FwdVec", "FwdStr", "FwdCore"]


def gen_diff(ctx):
    """Model-level witness search (lean/Driver/GenDiff.lean): the translated bodies (regenerated from the current source)
    against the hand model on boundary arguments and small arena states.  Returns the GENDIFF lines (possibly none)."""
    with Lock("lean"):
        rc, txt = sh("lake build " + " ".join("BumpVerif.Gen.Fn" + g for g in GEN_MODULES), cwd=LEAN, timeout=1200)
        if rc != 0:
            return ["# GenDiff not run: a generated file does not compile: " + " ".join(re.findall(r"error: ([^\n]*)", txt)[:2])]
        rc, txt = sh("lake env lean --run Driver/GenDiff.lean", cwd=LEAN, timeout=900)
    lines = [l for l in txt.split("\n") if l.startswith("GENDIFF")]
    return lines or ["# GenDiff produced no output: " + txt[-200:]]


def theorem_at(loc):
    """name of the declaration enclosing file:line:col"""
    try:
        path, line, _ = loc.rsplit(":", 2)
        if not os.path.isabs(path):
            path = os.path.join(LEAN, path)
        lines = open(path).read().split("\n")
        for i in range(int(line) - 1, -1, -1):
            m = re.match(r"\s*(?:private\s+|protected\s+)?(?:theorem|lemma|def|example|instance|abbrev)\s+(\S+)", lines[i])
            if m:
                return f"{os.path.basename(path)}:{m.group(1)}"
        return f"{os.path.basename(path)}:{line}"
    except Exception:
        return loc


# --------------------------------------------------------------------------------------
# harness build
# --------------------------------------------------------------------------------------

def harness_dir(name="harness"):
    """the harness crate to build: the committed one (path dep on /repo), or — when BV_REPO points at a
    scratch worktree — a shadow copy whose path dependency is rewritten to it (used only for testing
    the machinery against modified trees without touching /repo)"""
    src = os.path.join(ROOT, name)
    if REPO == "/repo":
        return src
    tag = hashlib.md5(REPO.encode()).hexdigest()[:8]
    dst = os.path.join(ROOT, "work", f"shadow_{name}_{tag}")
    os.makedirs(dst, exist_ok=True)
    subprocess.run(["rsync", "-a", "--delete", "--exclude", "target", src + "/", dst + "/"], check=True)
    ct = open(os.path.join(dst, "Cargo.toml")).read().replace('path = "/repo"', f'path = "{REPO}"')
    open(os.path.join(dst, "Cargo.toml"), "w").write(ct)
    return dst


def build_harness(ctx, release=False):
    global HARNESS
    HARNESS = harness_dir()
    with Lock("cargo"):
        t = time.time()
        cmd = "cargo build --offline" + (" --release" if release else "")
        rc, txt = sh(cmd, cwd=HARNESS, timeout=3000)
        ctx.log(f"{cmd}: rc={rc} in {time.time() - t:.1f}s")
        if rc != 0:
            return None, txt[-2000:]
    return os.path.join(HARNESS, "target", "release" if release else "debug", "bvh"), ""


def build_driver(ctx):
    with Lock("lean"):
        rc, txt = sh("lake build bvdrv", cwd=LEAN, timeout=3000)
        if rc != 0:
            return None, txt[-1500:]
    return os.path.join(LEAN, ".lake", "build", "bin", "bvdrv"), ""


# --------------------------------------------------------------------------------------
# known findings
# --------------------------------------------------------------------------------------

def known_findings():
    p = os.path.join(ROOT, "known_findings.json")
    if not os.path.exists(p):
        return []
    return json.load(open(p)).get("findings", [])


def match_known(prop, fail):
    """fail: dict(prop, name, detail). Returns the matching *open* finding or None."""
    for f in known_findings():
        if f.get("status") != "known" or f.get("property") != prop:
            continue
        if f.get("oracle") == fail.get("name") and re.search(f.get("fingerprint", ""), fail.get("detail", "")):
            return f
    return None


# --------------------------------------------------------------------------------------
# verdict + evidence
# --------------------------------------------------------------------------------------

def verdict(ctx, proof, run, fam):
    lines, violations = [], 0
    mine = [f for f in run.get("oracle_fails", []) if f["prop"] == ctx.prop]
    known_hit, fresh = {}, []
    for f in mine:
        k = match_known(ctx.prop, f)
        if k:
            known_hit.setdefault(k["id"], (k, f))
        else:
            fresh.append(f)
    for kid, (k, f) in known_hit.items():
        lines.append(f"KNOWN-FINDING: property={ctx.prop} {k['id']} {k['what']}")
    stamp = time.strftime("%Y%m%d-%H%M%S")
    broken = proof["broken"]
    diffs = run.get("diffs", [])
    infra = run.get("infra_error")
    if fresh:
        # a real input on the real code
        f = fresh[0]
        path = os.path.join(ctx.replaydir, f"{ctx.prop}-{stamp}-{f['name']}.replay")
        text = fam.make_replay(ctx, f, run)
        open(path, "w").write(text)
        lines.append(f"VIOLATION property={ctx.prop} replay={path}")
        violations = 1
    elif broken or diffs or infra:
        # proof obligation or correspondence broken: search harder for a failing input
        found = None
        if not infra:
            ctx.log("obligation/correspondence broken: widening the search for a failing input")
            found = fam.search(ctx, run, proof)
        # a translated function body no longer equals the model: look for a concrete argument / state on which they differ
        gd = []
        if any("GenFn" in (b["name"] + b["why"]) or b["name"].startswith("gen_") for b in broken):
            ctx.log("an equivalence theorem (generated body = model) is broken: model-level witness search (GenDiff)")
            try:
                gd = gen_diff(ctx)
            except Exception as e:
                gd = [f"# GenDiff failed: {e}"]
        if found:
            path = os.path.join(ctx.replaydir, f"{ctx.prop}-{stamp}-{found['name']}.replay")
            text = fam.make_replay(ctx, found, found.get("run", run))
            if gd:
                text += "".join(f"# model-level witness: {l[:1500]}\n" for l in gd)
            open(path, "w").write(text)
            lines.append(f"VIOLATION property={ctx.prop} replay={path}")
        else:
            path = os.path.join(ctx.replaydir, f"{ctx.prop}-{stamp}-unproved.replay")
            with open(path, "w") as fh:
                fh.write(f"# property {ctx.prop}: no longer shown to hold; no failing input found by the search\n")
                for b in broken:
                    fh.write(f"# broken obligation: {b['name']}: {b['why']}\n")
                for l in gd:
                    fh.write(f"# model-level witness (source as translated vs hand model): {l[:1500]}\n")
                for d in diffs[:20]:
                    fh.write(f"# correspondence: {d['text']}\n")
                if infra:
                    fh.write(f"# infrastructure: {infra}\n")
                if diffs:
                    fh.write(fam.diff_context(ctx, diffs[0], run))
            lines.append(f"VIOLATION property={ctx.prop} replay={path} no-failing-input-found")
        violations = 1
    return {"lines": lines, "violations": violations, "known": sorted(known_hit), "fresh": fresh[:5],
            "broken": broken, "diffs": [d["text"] for d in diffs[:10]]}


def write_evidence(ctx, proof, run, verdict, wall):
    n_obl = len(proof["obligations"]) + len(ctx.spec.get("extra_obligations", []))
    ev = {
        "property_id": ctx.prop,
        "tier": ctx.tier,
        "seed": ctx.seed,
        "level": ctx.spec.get("level", "proof"),
        "coverage": {
            "obligations": max(n_obl, 1),
            "discharged": len(proof["discharged"]) if proof["obligations"] else 0,
            "obligation_names": proof["obligations"],
            "broken_obligations": proof["broken"],
            "axioms": proof["axioms"],
            "checker_cmd": proof["checker_cmd"] or "n/a",
            "trusted_base": TRUSTED_BASE + ctx.spec.get("trusted_extra", []),
            "generated_constants": (proof.get("extract") or {}).get("consts"),
            "evaluations": run.get("evaluations", 0),
            "distinct_nontrivial": run.get("distinct_nontrivial", 0),
            "rule": run.get("rule", ""),
            "samples": run.get("samples", [])[:5],
            "traces_validated_against_impl": run.get("traces", 0),
            "disagreements_checked": len(run.get("diffs", [])),
            "op_result_histogram": run.get("histogram", {}),
            "oracle_failures_this_property": len([f for f in run.get("oracle_fails", []) if f["prop"] == ctx.prop]),
            "oracle_failures_other_properties": sorted({f["prop"] for f in run.get("oracle_fails", []) if f["prop"] != ctx.prop}),
            "known_findings_matched": verdict["known"],
            "explanation": ctx.spec.get("explanation", ""),
            "partial": ctx.spec.get("partial", []),
        },
        "assumptions": ctx.spec.get("assumptions", []) + ["see coverage.trusted_base"],
        "wall_s": round(wall, 2),
        "violations": verdict["violations"],
    }
    ev["coverage"].update(run.get("extra", {}))
    # runs against a scratch worktree (BV_REPO) are tests of the machinery, not evidence
    evdir = os.path.join(ROOT, "evidence") if REPO == "/repo" else os.path.join(ROOT, "work", "evidence_scratch")
    os.makedirs(evdir, exist_ok=True)
    with open(os.path.join(evdir, f"{ctx.prop}.json"), "w") as f:
        json.dump(ev, f, indent=1)
