#!/bin/bash
# runs every seeded mutation against its own property's check (and a few neighbours); appends to seeded/RESULTS.txt
cd "$(dirname "$0")/.."
out=seeded/RESULTS.txt
echo "# $(date) HEAD=$(git -C /repo rev-parse --short HEAD) verif=$(git rev-parse --short HEAD)" >> $out
for d in seeded/*/; do
  s=$(basename $d)
  [ -f $d/patch.diff ] || continue
  case "$s" in revert-*) continue;; esac
  prop=${s%%-*}
  [ -n "$ONLY" ] && [[ "$s" != $ONLY* ]] && continue
  [ -n "$SUFFIX" ] && [[ "$s" != *$SUFFIX ]] && continue
  grep -q "\"$prop\"" MANIFEST.json || { echo "$s: property $prop not claimed yet" >> $out; continue; }
  res=$(tools/seedtest.sh $d/patch.diff $prop 2>&1 | tr '\n' ' ')
  echo "$s -> $res" >> $out
done
echo "# done $(date)" >> $out
