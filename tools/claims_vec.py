"""MANIFEST texts of the Vec family (Vec parts of C13, C15, C16)."""
NOTE = ("Trusted: Lean kernel + axioms {propext, Classical.choice, Quot.sound}; the hand-written slot-machine model of "
        "src/collections/{vec,raw_vec}.rs is tied to the code by the in-process differential run (sampling; every Vec method of the "
        "property's list, all index/range forms incl. out-of-range and ..=usize::MAX, sized / zero-sized / Copy elements, several vectors + "
        "raw blocks + a String + a Box in one arena, dev profile and in thorough also release); core::ptr::{read,write,copy,"
        "copy_nonoverlapping}, slice drop glue order, Rust's unwinding order and the arena's realloc (keeps the first min(old,new) slots) "
        "are modelled, not verified; callbacks are modelled as pure answers (they do not mutate the element they are shown); the buffer "
        "address is not part of this model (arena model); std::vec::Vec run side by side is the reference for 'what std does'.")
CLAIMS = {
    "C13": dict(
        text="Vec part. Theorems (Lean, for all vectors/arguments, sized and zero-sized elements): push, pop, insert, remove, swap_remove, "
             "truncate, clear, append, split_off, drain (every range form; the accepted ranges are the same with and without overflow "
             "checks), retain, drain_filter (also when dropped early), into_iter (front and back) on the slot machine refine the List "
             "specification (contents, returned values, panic iff index/range out of bounds or the growth is refused), keep len <= cap; "
             "reserve(n)/try_reserve(n) give cap >= len + n, growth is max(2*cap, len+n). Second group of theorems: splice on every path "
             "(vector = xs[..st] ++ items[..j] ++ xs[en..], tail always moved back, drained elements returned/dropped, items not inserted "
             "dropped; j = all and the call returns when nothing panics and the arena serves the growth; any size_hint), extend / "
             "from_iter_in / collect_in, extend_from_slice, clone (clones carry the values, in order), resize (both branches), "
             "extend_from_slice_copy, extend_from_slices_copy, io::Write (= extend_from_slice_copy), dedup / dedup_by / dedup_by_key for a "
             "comparison that is a function of the two elements (result = first element of every run), shrink_to_fit (contents kept, "
             "cap = len), into_boxed_slice, vec! (both forms). Limits: 'returns' is proved under a sufficient condition on the arena "
             "(GrowOK), not the exact one; dedup* with index-dependent/panicking comparisons and truncate with panicking destructors "
             "have no contents theorem (C15/C16 only); Splice::next_back is not modelled; io::Write is compared with std only, not "
             "replayed by the model driver. Correspondence: results, len, capacity, contents (ids and values) "
             "of every call agree between crate and model; oracle: values, contents, len, panic/no-panic agree with std::vec::Vec run "
             "side by side; cap >= len, cap >= len + reserved; neighbours (other vectors, raw canary blocks, a String, a Box in the same "
             "arena) are re-verified after every call.",
        note=NOTE),
    "C15": dict(
        text="Vec part. Theorems (Lean): the ownership invariant Own (ids owned by the vector, dropped, moved out and held elsewhere are a "
             "permutation of the ids ever created, which are pairwise distinct) is preserved with no leak by push, pop, insert, remove, "
             "swap_remove, truncate/clear, append, split_off, drain and into_iter (partially consumed from both ends; leaks only when "
             "forgotten), retain, drain_filter, dedup(_by/_by_key), extend; dropping the vector drops exactly the owned ids; "
             "into_bump_slice emits no drop; hence exactly-once at the end; also splice (every path: rejected range, any iterator and "
             "size_hint, partially consumed, refused growth, iterator/destructor panics), into_boxed_slice with the drop of the box, "
             "vec! (both forms, refused pushes and panicking Clone included) "
             "(resize, extend_from_slice, clone, from_iter_in: see C16). Not modelled: Splice::next_back. Correspondence: the "
             "sequence of destructor calls and of values handed to the caller of every call agrees between crate and model; oracle: "
             "per-id drop ledger (no double drop, nothing dropped or moved is reachable, nothing lost on non-panicking calls, everything "
             "dropped exactly once after the containers and the arena are dropped, the arena's drop runs no destructor).",
        note=NOTE),
    "C16": dict(
        text="Vec part. Theorems (Lean, for every callback answer function and every panic index): Own (leaks allowed only for a "
             "forgotten iterator or an unwinding Drain/IntoIter destructor) is preserved along the unwinding paths of drain_filter "
             "(predicate panicking in a caller's next() or in the destructor, or a yielded element's destructor panicking - the F5 "
             "scenario, fixed in /repo), retain, dedup_by(_key), truncate/clear/drop and into_iter/drain dropped with panicking "
             "destructors, resize/extend_from_slice/clone with a panicking Clone, extend/from_iter_in with a panicking iterator, and by "
             "dropping the vector afterwards; splice with an iterator panicking at any next() call (in the first fill, after move_tail, while "
             "the remainder is collected) and/or a panicking destructor of a drained element: Own preserved with no leak, and the "
             "vector is xs[..st] ++ items[..j] ++ xs[en..] for the j items written before the panic; vec![elem; n] with a panicking "
             "Clone. One panic per call (a second one while unwinding aborts). Correspondence + oracle: the harness enumerates the panic index of predicate / key / "
             "Clone / Drop / iterator callbacks under catch_unwind (one panic per call) and checks the drop ledger and reachability after "
             "the unwinding and again after dropping the containers (F5 was reproduced this way on the pinned tree before its fix).",
        note=NOTE),
}
