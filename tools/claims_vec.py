"""MANIFEST texts of the Vec family (Vec parts of C13, C15, C16)."""
NOTE = ("Trusted: Lean kernel + axioms {propext, Classical.choice, Quot.sound}; the hand-written slot-machine model of "
        "src/collections/{vec,raw_vec}.rs is tied to the code by the in-process differential run (sampling; every Vec method of the "
        "property's list, all index/range forms incl. out-of-range and ..=usize::MAX, sized / zero-sized / Copy elements, several vectors + "
        "raw blocks + a String + a Box in one arena, dev profile and in thorough also release); core::ptr::{read,write,copy,"
        "copy_nonoverlapping}, slice drop glue order, Rust's unwinding order and the arena's realloc (keeps the first min(old,new) slots) "
        "are modelled, not verified; callbacks are modelled as pure answers (they do not mutate the element they are shown); the buffer "
        "address is not part of this model (arena model); std::vec::Vec run side by side is the reference for 'what std does'.")
CLAIMS = {
    "C13": dict(
        text="Vec part. Theorems (Lean, for all vectors/arguments): each listed Vec method on the slot machine refines the List "
             "specification (contents, returned value, panic iff the spec's precondition fails), keeps len <= cap, reserve(n) gives "
             "cap >= len + n, RawVec growth is max(2*cap, required). Range bounds: C13_drain_partial under overflow checks or end != "
             "usize::MAX, C13_drain_counterexample (F7) otherwise. Correspondence: results, len, capacity, contents (ids and values) "
             "of every call agree between crate and model; oracle: values, contents, len, panic/no-panic agree with std::vec::Vec run "
             "side by side; cap >= len, cap >= len + reserved; neighbours (other vectors, raw canary blocks, a String, a Box in the same "
             "arena) are re-verified after every call.",
        note=NOTE),
    "C15": dict(
        text="Vec part. Theorems (Lean): the ownership invariant Own (ids owned by the vector, dropped, moved out and leaked are a "
             "permutation of the ids ever inserted, which are pairwise distinct) is preserved by the listed methods with no leak on "
             "non-panicking calls; dropping the vector drops exactly the owned ids; into_bump_slice emits no drop. Correspondence: the "
             "sequence of destructor calls and of values handed to the caller of every call agrees between crate and model; oracle: "
             "per-id drop ledger (no double drop, nothing dropped or moved is reachable, nothing lost on non-panicking calls, everything "
             "dropped exactly once after the containers and the arena are dropped, the arena's drop runs no destructor).",
        note=NOTE),
    "C16": dict(
        text="Vec part. Theorems (Lean, for every callback answer function and panic index): Own (with leaks allowed) is preserved "
             "along the unwinding path of the listed callback-taking methods (*_partial); the full statement is false for DrainFilter: "
             "C16_drain_filter_counterexample (F5). Correspondence + oracle: the harness enumerates the panic index of predicate / key / "
             "Clone / Drop / iterator callbacks under catch_unwind (one panic per call) and checks the drop ledger and reachability after "
             "the unwinding and again after dropping the containers; F5 is reproduced on the real crate and reported as a known finding.",
        note=NOTE),
}
