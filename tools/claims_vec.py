"""MANIFEST texts of the Vec family (Vec parts of C13, C15, C16)."""
NOTE = ("Trusted: Lean kernel + axioms {propext, Classical.choice, Quot.sound}; the hand-written slot-machine model of "
        "src/collections/{vec,raw_vec}.rs is tied to the code by the in-process differential run (sampling; every Vec method of the "
        "property's list, all index/range forms incl. out-of-range and ..=usize::MAX, sized / zero-sized / Copy elements, several vectors + "
        "raw blocks + a String + a Box in one arena, dev profile and in thorough also release); core::ptr::{read,write,copy,"
        "copy_nonoverlapping}, slice drop glue order, Rust's unwinding order and the arena's realloc (keeps the first min(old,new) slots) "
        "are modelled, not verified; callbacks are modelled as pure answers (they do not mutate the element they are shown); the buffer "
        "address is not part of this model (arena model); std::vec::Vec run side by side is the reference for 'what std does'.")
CLAIMS = {
    "C13": dict(
        text="Vec part. Theorems (Lean, for all vectors/arguments, sized and zero-sized elements): push, pop, insert, remove, swap_remove, "
             "truncate, clear, append, split_off, drain (every range form; the accepted ranges are the same with and without overflow "
             "checks), retain, drain_filter (also when dropped early), into_iter (front and back) on the slot machine refine the List "
             "specification (contents, returned values, panic iff index/range out of bounds or the growth is refused), keep len <= cap; "
             "reserve(n)/try_reserve(n) give cap >= len + n, growth is max(2*cap, len+n). Not proved, only compared: resize, extend*, "
             "splice, dedup*, shrink_to_fit, clone, into_boxed_slice, from_iter_in/collect_in, vec!, io::Write. Correspondence: results, len, capacity, contents (ids and values) "
             "of every call agree between crate and model; oracle: values, contents, len, panic/no-panic agree with std::vec::Vec run "
             "side by side; cap >= len, cap >= len + reserved; neighbours (other vectors, raw canary blocks, a String, a Box in the same "
             "arena) are re-verified after every call.",
        note=NOTE),
    "C15": dict(
        text="Vec part. Theorems (Lean): the ownership invariant Own (ids owned by the vector, dropped, moved out and held elsewhere are a "
             "permutation of the ids ever created, which are pairwise distinct) is preserved with no leak by push, pop, insert, remove, "
             "swap_remove, truncate/clear, append, split_off, drain and into_iter (partially consumed from both ends; leaks only when "
             "forgotten), retain, drain_filter, dedup(_by/_by_key), extend; dropping the vector drops exactly the owned ids; "
             "into_bump_slice emits no drop; hence exactly-once at the end. Not proved, only compared: splice, into_boxed_slice, vec! "
             "(resize, extend_from_slice, clone, from_iter_in: see C16). Correspondence: the "
             "sequence of destructor calls and of values handed to the caller of every call agrees between crate and model; oracle: "
             "per-id drop ledger (no double drop, nothing dropped or moved is reachable, nothing lost on non-panicking calls, everything "
             "dropped exactly once after the containers and the arena are dropped, the arena's drop runs no destructor).",
        note=NOTE),
    "C16": dict(
        text="Vec part. Theorems (Lean, for every callback answer function and every panic index): Own (leaks allowed only for a "
             "forgotten iterator or an unwinding Drain/IntoIter destructor) is preserved along the unwinding paths of drain_filter "
             "(predicate panicking in a caller's next() or in the destructor, or a yielded element's destructor panicking - the F5 "
             "scenario, fixed in /repo), retain, dedup_by(_key), truncate/clear/drop and into_iter/drain dropped with panicking "
             "destructors, resize/extend_from_slice/clone with a panicking Clone, extend/from_iter_in with a panicking iterator, and by "
             "dropping the vector afterwards. Not proved, only exercised: splice with a panicking iterator, vec!. Correspondence + oracle: the harness enumerates the panic index of predicate / key / "
             "Clone / Drop / iterator callbacks under catch_unwind (one panic per call) and checks the drop ledger and reachability after "
             "the unwinding and again after dropping the containers (F5 was reproduced this way on the pinned tree before its fix).",
        note=NOTE),
}
