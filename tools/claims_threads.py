from claims import BASE_NOTE, CORR
CLAIMS = {
    "C20": dict(
        text="Theorems: for every interleaving of two arenas' histories each arena's final state, results, placement, accounting, live "
             "blocks and allocator traffic equal those of running its own history alone (given its own allocator answers); the per-arena "
             "invariants (C01) hold inside any interleaving; the one shared object, the static empty chunk, never changes value (a store "
             "of a chunk-less arena's finger always stores the static's own address); no operation writes to it at all: every finger store goes through ChunkFooter::set_ptr whose guard "
             "is re-read from the source on every run (F8, a data race on that static, was fixed in /repo; the unguarded counterexample is "
             "kept as a theorem). Correspondence: pairs of arenas interleaved on one thread and one arena per thread on 6 concurrent threads, each "
             "arena's trace replayed on its own model instance, all oracles on. The data-race clause is partial: Miri runs of "
             "harness_miri (plain and zst modes: both must be race-free) are support, not proof.",
        note=BASE_NOTE + " Thread schedules are sampled (OS scheduler, Miri seeds); the Rust memory model is not modelled in Lean.",
        technique="Lean 4 theorems (interleaving commutation, static value invariant) + differential correspondence per arena + Miri for the race clause"),
}
NOT_CLAIMED = {}
