#!/usr/bin/env python3
"""Function-body translator for `Utf8LossyChunksIter::next` (src/collections/str/lossy.rs): Rust -> Lean, pure functions on
byte lists (`Str.Bytes = List UInt8`).

Before parsing, the function's text is macro-expanded the way rustc would: the local `macro_rules! error { () => {{ … }}; }`
is removed and every `error!()` becomes its body.  The helper functions nested in the body (`unsafe_get`, `safe_get`) are
translated on their own; `utf8_char_width` is `Str.utf8CharWidth` (the GENERATED table `Gen.UTF8_CHAR_WIDTH`).

Rules: `usize` = `Nat` (the unchecked `i += 1` cannot wrap: `i` never exceeds the slice length by more than 3), `u8` = `UInt8`;
`xs[a..b]` = `(xs.drop a).take (b - a)`, `xs[a..]` = `xs.drop a` (that the bounds are in range is not checked here);
`*xs.get_unchecked(i)` = `xs.getD i 0`; mutable locals are rebinding; the `while` loop is a function recursive on fuel
(`none` = out of fuel) with what follows the loop in its exit branch, so `return` inside the loop is just a result;
`match` on integers / pairs with literal and range patterns becomes an `if`-chain in arm order.
Result of `next`: `some (some ⟨valid, broken, rest⟩)` with `rest` the new `self.source`, `some none` = `None`.
"""
import os, re, sys
sys.path.insert(0, os.path.dirname(os.path.abspath(__file__)))
import rsparse
from rsparse import ParseError

FILE = "src/collections/str/lossy.rs"


class Untranslatable(Exception):
    pass


def expand_macros(text):
    """textual expansion of the parameterless local macro `error!`"""
    m = re.search(r"macro_rules!\s*error\s*\{\s*\(\s*\)\s*=>\s*\{\{", text)
    if not m:
        return text
    # find the matching `}}` of the body, then the `;` and the closing `}` of the definition
    i, d = m.end(), 2
    while d > 0:
        if text[i] == "{": d += 1
        elif text[i] == "}": d -= 1
        i += 1
    body = text[m.end():i - 2]
    j = i
    while text[j] in " \t\r\n;":
        j += 1
    if text[j] != "}":
        raise Untranslatable("shape of the macro definition")
    text = text[:m.start()] + text[j + 1:]
    return re.sub(r"\berror!\s*\(\s*\)", "{ " + body + " }", text)


class T:
    def __init__(self):
        self.n = 0

    def fresh(self, base):
        self.n += 1
        return f"{base}_{self.n}"

    # ---- expressions: (lean term) ----
    def X(self, e, env):
        k = e[0]
        if k == "int": return str(e[1])
        if k in ("paren", "ref", "deref", "unsafe_"): return self.X(e[1], env)
        if k == "unsafe": return self.X(e[1], env)
        if k == "block" and not e[1] and e[2] is not None: return self.X(e[2], env)
        if k == "cast": return self.X(e[1], env)
        if k == "path":
            if len(e[1]) == 1 and e[1][0] in env: return env[e[1][0]]
            if e[1] == ["TAG_CONT_U8"] and "TAG_CONT_U8" in env: return env["TAG_CONT_U8"]
            raise Untranslatable(f"path {e[1]}")
        if k == "field" and e[1] == ("path", ["self"]) and e[2] == "source":
            return env["self.source"]
        if k == "bin":
            a, b = self.X(e[2], env), self.X(e[3], env)
            op = {"<": "<", ">": ">", "<=": "≤", ">=": "≥", "==": "==", "!=": "!=", "&": "&&&", "+": "+", "-": "-"}.get(e[1])
            if op is None: raise Untranslatable(f"operator {e[1]}")
            if e[1] in ("<", ">", "<=", ">="): return f"(decide ({a} {op} {b}))"
            return f"({a} {op} {b})"
        if k == "mcall":
            r = self.X(e[1], env)
            if e[2] == "len" and not e[3]: return f"{r}.length"
            if e[2] == "is_empty" and not e[3]: return f"{r}.isEmpty"
            if e[2] == "get_unchecked" and len(e[3]) == 1: return f"({r}.getD {self.X(e[3][0], env)} 0)"
            raise Untranslatable(f"method .{e[2]}")
        if k == "index":
            base, ix = self.X(e[1], env), e[2]
            if ix[0] == "range":
                lo = self.X(ix[1], env)
                if ix[2] is None: return f"({base}.drop {lo})"
                return f"(({base}.drop {lo}).take ({self.X(ix[2], env)} - {lo}))"
            raise Untranslatable("indexing a single byte")
        if k == "array" and not e[1]:
            return "([] : Str.Bytes)"
        if k == "call" and e[1][0] == "path":
            segs, args = e[1][1], [self.X(a, env) for a in e[2]]
            if segs == ["unsafe_get"]: return f"(Gen.Fn.lossy_unsafe_get {' '.join(args)})"
            if segs == ["safe_get"]: return f"(Gen.Fn.lossy_safe_get {' '.join(args)})"
            if segs[-1] == "utf8_char_width": return f"(Str.utf8CharWidth {args[0]})"
            if segs[-1] == "from_utf8_unchecked": return args[0]
            raise Untranslatable(f"call of {'::'.join(segs)}")
        if k == "struct" and e[1][-1] == "Utf8LossyChunk":
            d = {f: self.X(v, env) for f, v in e[2]}
            if set(d) != {"valid", "broken"}: raise Untranslatable("chunk literal")
            return f"({d['valid']}, {d['broken']})"
        raise Untranslatable(f"expression form {k}")

    def P(self, pat, scrut):
        """pattern against a scrutinee term -> Bool term"""
        k = pat[0]
        if k == "pwild": return "true"
        if k == "plit": return f"({scrut} == {pat[1]})"
        if k == "prange": return f"(decide ({pat[1]} ≤ {scrut}) && decide ({scrut} ≤ {pat[2]}))"
        raise Untranslatable(f"pattern {pat}")

    # ---- statements in continuation style: kend(env) is what follows the block ----
    def S(self, stmts, tail, env, kend, loop=None):
        def go(i, env_):
            if i == len(stmts):
                if tail is not None:
                    return self.C(tail, env_, kend, loop, is_tail=True)
                return kend(env_)
            st = stmts[i]
            if st[0] == "let" and st[1][0] == "pid" and st[2] is not None and st[1][1].isupper():
                e2 = dict(env_); e2[st[1][1]] = f"({self.X(st[2], env_)} : UInt8)"      # a `const`: inlined
                return go(i + 1, e2)
            if st[0] == "let" and st[1][0] == "pid" and st[2] is not None:
                ln = self.fresh(st[1][1])
                e2 = dict(env_); e2[st[1][1]] = ln
                return f"let {ln} := {self.X(st[2], env_)};\n{go(i + 1, e2)}"
            if st[0] == "assign":
                op, lhs, rhs = st[1], st[2], st[3]
                val = self.X(rhs if op == "=" else ("bin", op[:-1], lhs, rhs), env_)
                if lhs[0] == "path" and len(lhs[1]) == 1 and lhs[1][0] in env_:
                    name = lhs[1][0]
                elif lhs == ("field", ("path", ["self"]), "source"):
                    name = "self.source"
                else:
                    raise Untranslatable(f"assignment to {lhs}")
                ln = self.fresh(name.replace("self.", "self_"))
                e2 = dict(env_); e2[name] = ln
                return f"let {ln} := {val};\n{go(i + 1, e2)}"
            if st[0] == "expr":
                return self.C(st[1], env_, lambda e2: go(i + 1, e2), loop)
            raise Untranslatable(f"statement {st[0]}")
        return go(0, env)

    def C(self, e, env, k, loop, is_tail=False):
        """control: an expression in statement (or tail) position; k(env) continues"""
        kind = e[0]
        if kind in ("unsafe",):
            return self.C(e[1], env, k, loop, is_tail)
        if kind == "block":
            return self.S(e[1], e[2], env, k, loop)
        if kind == "tuple" and not e[1]:
            return k(env)
        if kind == "return":
            return self.RET(e[1], env)
        if kind == "if":
            _, c, then, els = e
            a = self.C(then, env, k, loop)
            b = self.C(els, env, k, loop) if els is not None else k(env)
            return f"(if {self.X(c, env)} then\n{a}\nelse\n{b})"
        if kind == "match":
            _, scrut, arms = e
            if scrut[0] == "tuple":
                sc = [self.X(x, env) for x in scrut[1]]
                names = [self.fresh("m") for _ in sc]
                pre = "".join(f"let {n} := {t};\n" for n, t in zip(names, sc))
            else:
                names = [self.fresh("m")]
                pre = f"let {names[0]} := {self.X(scrut, env)};\n"
            out = None
            for pat, guard, body in reversed(arms):
                if guard is not None: raise Untranslatable("match guard")
                if pat[0] == "ptuple":
                    if len(pat[1]) != len(names): raise Untranslatable("tuple pattern arity")
                    cond = " && ".join(self.P(q, n) for q, n in zip(pat[1], names))
                else:
                    cond = self.P(pat, names[0])
                bt = self.C(body, env, k, loop)
                out = bt if out is None and cond.replace("true", "").replace("&", "").strip() == "" else (
                    f"(if ({cond}) then\n{bt}\nelse\n{out if out is not None else 'none'})")
            return pre + out
        if kind == "while":
            _, cond, body = e
            if loop is not None: raise Untranslatable("nested loop")
            muts = ["i"]
            fuel, fuel1 = self.fresh("fuel"), self.fresh("fuel")
            envl = dict(env); iv = self.fresh("i"); envl["i"] = iv
            name = "lossy_next.loop"
            again = lambda e2: f"(Gen.Fn.{name} {env['self.source']} {fuel1} {e2['i']})"
            inner = f"(if {self.X(cond, envl)} then\n{self.C(body, envl, again, loop=name)}\nelse\n{k(envl)})"
            self.loop_def = (f"def {name} ({env['self.source']} : Str.Bytes) : Nat → Nat → Option (Option Str.Chunk)\n"
                             f"  | 0, _ => none\n  | {fuel1} + 1, {iv} =>\n" + indent(inner, 2) + "\n")
            return f"(Gen.Fn.{name} {env['self.source']} ({env['self.source']}.length + 1) {env['i']})"
        if is_tail:
            return self.RET(e, env, implicit=True)
        raise Untranslatable(f"statement expression {kind}")

    def RET(self, e, env, implicit=False):
        if e is None: raise Untranslatable("bare return")
        if e == ("path", ["None"]):
            return "some none"
        if e[0] == "call" and e[1] == ("path", ["Some"]) and len(e[2]) == 1:
            r = self.X(e[2][0], env)
            return f"some (some ⟨{r}.1, {r}.2, {env['self.source']}⟩)"
        raise Untranslatable("returned value")


def indent(text, base=1):
    out, depth = [], 0
    for line in text.split("\n"):
        line = line.strip()
        if not line: continue
        lead = 0
        for c in line:
            if c == ")": lead += 1
            else: break
        out.append("  " * (base + max(depth - lead, 0)) + line)
        depth += line.count("(") - line.count(")")
    return "\n".join(out)


HEADER = """import BumpVerif.Model.Lossy
/-! GENERATED by tools/rs2lean_lossy.py from /repo/src/collections/str/lossy.rs — do not edit.
`Utf8LossyChunksIter::next` and its nested helpers, translated statement by statement (the local macro `error!` expanded). -/
set_option linter.unusedVariables false
namespace Gen.Fn
open Bump

"""


def translate_all(repo):
    report, out = {}, []
    try:
        raw = rsparse.strip_comments(open(os.path.join(repo, FILE)).read())
        src = expand_macros(raw)
        t = T()
        # nested helpers
        sig, body = rsparse.find_fn(src, "unsafe_get", 0, None)
        env = {n: n for n, _ in sig["params"]}
        out.append(f"/-- `fn unsafe_get` (nested in `next`) -/\ndef lossy_unsafe_get (xs : Str.Bytes) (i : Nat) : UInt8 :=\n  {t.X(body, env)}\n")
        sig, body = rsparse.find_fn(src, "safe_get", 0, None)
        if body[0] != "block" or body[1] or body[2] is None or body[2][0] != "if":
            raise Untranslatable("shape of safe_get")
        _, c, then, els = body[2]
        out.append(f"/-- `fn safe_get` (nested in `next`) -/\ndef lossy_safe_get (xs : Str.Bytes) (i : Nat) : UInt8 :=\n"
                   f"  if {t.X(c, env)} then {t.X(then, env)} else {t.X(els, env)}\n")
        sig, body = rsparse.find_fn(src, "next", 0, "Iterator for Utf8LossyChunksIter")
        t.loop_def = None
        env = {"self.source": "source"}
        text = t.S(body[1], body[2], env, lambda e2: "some none")
        if t.loop_def is None:
            raise Untranslatable("no loop found")
        out.append(t.loop_def)
        out.append(f"/-- `fn next` -/\ndef lossy_next (source : Str.Bytes) : Option (Option Str.Chunk) :=\n" + indent(text) + "\n")
        report["lossy_next"] = "ok"
    except (ParseError, Untranslatable, KeyError, IndexError, TypeError) as ex:
        out = [f"/- `Utf8LossyChunksIter::next` could not be translated: {type(ex).__name__}: {ex} -/\n"]
        report["lossy_next"] = f"untranslatable: {type(ex).__name__}: {ex}"
    return HEADER + "\n".join(out) + "\nend Gen.Fn\n", report


def run(repo, out_dir, write_if_changed):
    text, report = translate_all(repo)
    changed = write_if_changed(os.path.join(out_dir, "FnLossy.lean"), text)
    return {"fn_bodies_lossy": report, "fn_lossy_changed": changed}


if __name__ == "__main__":
    text, report = translate_all(os.environ.get("BV_REPO", "/repo"))
    print(text)
    print("--", report)
