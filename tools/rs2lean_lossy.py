#!/usr/bin/env python3
"""Function-body translator for `Utf8LossyChunksIter::next` (src/collections/str/lossy.rs): Rust -> Lean, pure functions on
byte lists (`Str.Bytes = List UInt8`).

Before parsing, the function's text is macro-expanded the way rustc would: the local `macro_rules! error { () => {{ … }}; }`
is removed and every `error!()` becomes its body.  The helper functions nested in the body (`unsafe_get`, `safe_get`) are
translated on their own; `utf8_char_width` is `Str.utf8CharWidth` (the GENERATED table `Gen.UTF8_CHAR_WIDTH`).

Rules: `usize` = `Nat` (the unchecked `i += 1` cannot wrap: `i` never exceeds the slice length by more than 3), `u8` = `UInt8`;
`xs[a..b]` = `(xs.drop a).take (b - a)`, `xs[a..]` = `xs.drop a` (that the bounds are in range is not checked here);
`*xs.get_unchecked(i)` = `xs.getD i 0`; mutable locals are rebinding; the `while` loop is a function recursive on fuel
(`none` = out of fuel) with what follows the loop in its exit branch, so `return` inside the loop is just a result;
`match` on integers / pairs with literal and range patterns becomes an `if`-chain in arm order.
Result of `next`: `some (some ⟨valid, broken, rest⟩)` with `rest` the new `self.source`, `some none` = `None`.
"""
import os, re, sys
sys.path.insert(0, os.path.dirname(os.path.abspath(__file__)))
import rsparse
from rsparse import ParseError

FILE = "src/collections/str/lossy.rs"


class Untranslatable(Exception):
    pass


def expand_macros(text):
    """textual expansion of the parameterless local macro `error!`"""
    m = re.search(r"macro_rules!\s*error\s*\{\s*\(\s*\)\s*=>\s*\{\{", text)
    if not m:
        return text
    # find the matching `}}` of the body, then the `;` and the closing `}` of the definition
    i, d = m.end(), 2
    while d > 0:
        if text[i] == "{": d += 1
        elif text[i] == "}": d -= 1
        i += 1
    body = text[m.end():i - 2]
    j = i
    while text[j] in " \t\r\n;":
        j += 1
    if text[j] != "}":
        raise Untranslatable("shape of the macro definition")
    text = text[:m.start()] + text[j + 1:]
    return re.sub(r"\berror!\s*\(\s*\)", "{ " + body + " }", text)


class T:
    def __init__(self):
        self.n = 0

    def fresh(self, base):
        self.n += 1
        return f"{base}_{self.n}"

    # ---- expressions: (lean term) ----
    def X(self, e, env):
        k = e[0]
        if k == "int": return str(e[1])
        if k in ("paren", "ref", "deref", "unsafe_"): return self.X(e[1], env)
        if k == "unsafe": return self.X(e[1], env)
        if k == "block" and not e[1] and e[2] is not None: return self.X(e[2], env)
        if k == "cast": return self.X(e[1], env)
        if k == "path":
            if len(e[1]) == 1 and e[1][0] in env: return env[e[1][0]]
            if e[1] == ["TAG_CONT_U8"] and "TAG_CONT_U8" in env: return env["TAG_CONT_U8"]
            raise Untranslatable(f"path {e[1]}")
        if k == "field" and e[1] == ("path", ["self"]) and e[2] == "source":
            return env["self.source"]
        if k == "bin":
            a, b = self.X(e[2], env), self.X(e[3], env)
            op = {"<": "<", ">": ">", "<=": "≤", ">=": "≥", "==": "==", "!=": "!=", "&": "&&&", "+": "+", "-": "-"}.get(e[1])
            if op is None: raise Untranslatable(f"operator {e[1]}")
            if e[1] in ("<", ">", "<=", ">="): return f"(decide ({a} {op} {b}))"
            return f"({a} {op} {b})"
        if k == "mcall":
            r = self.X(e[1], env)
            if e[2] == "len" and not e[3]: return f"{r}.length"
            if e[2] == "is_empty" and not e[3]: return f"{r}.isEmpty"
            if e[2] == "get_unchecked" and len(e[3]) == 1: return f"({r}.getD {self.X(e[3][0], env)} 0)"
            raise Untranslatable(f"method .{e[2]}")
        if k == "index":
            base, ix = self.X(e[1], env), e[2]
            if ix[0] == "range":
                lo = self.X(ix[1], env)
                if ix[2] is None: return f"({base}.drop {lo})"
                return f"(({base}.drop {lo}).take ({self.X(ix[2], env)} - {lo}))"
            raise Untranslatable("indexing a single byte")
        if k == "array" and not e[1]:
            return "([] : Str.Bytes)"
        if k == "call" and e[1][0] == "path":
            segs, args = e[1][1], [self.X(a, env) for a in e[2]]
            if segs == ["unsafe_get"]: return f"(Gen.Fn.lossy_unsafe_get {' '.join(args)})"
            if segs == ["safe_get"]: return f"(Gen.Fn.lossy_safe_get {' '.join(args)})"
            if segs[-1] == "utf8_char_width": return f"(Str.utf8CharWidth {args[0]})"
            if segs[-1] == "from_utf8_unchecked": return args[0]
            raise Untranslatable(f"call of {'::'.join(segs)}")
        if k == "struct" and e[1][-1] == "Utf8LossyChunk":
            d = {f: self.X(v, env) for f, v in e[2]}
            if set(d) != {"valid", "broken"}: raise Untranslatable("chunk literal")
            return f"({d['valid']}, {d['broken']})"
        raise Untranslatable(f"expression form {k}")

    def P(self, pat, scrut):
        """pattern against a scrutinee term -> Bool term"""
        k = pat[0]
        if k == "pwild": return "true"
        if k == "plit": return f"({scrut} == {pat[1]})"
        if k == "prange": return f"(decide ({pat[1]} ≤ {scrut}) && decide ({scrut} ≤ {pat[2]}))"
        raise Untranslatable(f"pattern {pat}")

    # ---- statements in continuation style: kend(env) is what follows the block ----
    def S(self, stmts, tail, env, kend, loop=None):
        def go(i, env_):
            if i == len(stmts):
                if tail is not None:
                    return self.C(tail, env_, kend, loop, is_tail=True)
                return kend(env_)
            st = stmts[i]
            if st[0] == "let" and st[1][0] == "pid" and st[2] is not None and st[1][1].isupper():
                e2 = dict(env_); e2[st[1][1]] = f"({self.X(st[2], env_)} : UInt8)"      # a `const`: inlined
                return go(i + 1, e2)
            if st[0] == "let" and st[1][0] == "pid" and st[2] is not None:
                ln = self.fresh(st[1][1])
                e2 = dict(env_); e2[st[1][1]] = ln
                return f"let {ln} := {self.X(st[2], env_)};\n{go(i + 1, e2)}"
            if st[0] == "assign":
                op, lhs, rhs = st[1], st[2], st[3]
                val = self.X(rhs if op == "=" else ("bin", op[:-1], lhs, rhs), env_)
                if lhs[0] == "path" and len(lhs[1]) == 1 and lhs[1][0] in env_:
                    name = lhs[1][0]
                elif lhs == ("field", ("path", ["self"]), "source"):
                    name = "self.source"
                else:
                    raise Untranslatable(f"assignment to {lhs}")
                ln = self.fresh(name.replace("self.", "self_"))
                e2 = dict(env_); e2[name] = ln
                return f"let {ln} := {val};\n{go(i + 1, e2)}"
            if st[0] == "expr":
                return self.C(st[1], env_, lambda e2: go(i + 1, e2), loop)
            raise Untranslatable(f"statement {st[0]}")
        return go(0, env)

    def C(self, e, env, k, loop, is_tail=False):
        """control: an expression in statement (or tail) position; k(env) continues"""
        kind = e[0]
        if kind in ("unsafe",):
            return self.C(e[1], env, k, loop, is_tail)
        if kind == "block":
            return self.S(e[1], e[2], env, k, loop)
        if kind == "tuple" and not e[1]:
            return k(env)
        if kind == "return":
            return self.RET(e[1], env)
        if kind == "if":
            _, c, then, els = e
            a = self.C(then, env, k, loop)
            b = self.C(els, env, k, loop) if els is not None else k(env)
            return f"(if {self.X(c, env)} then\n{a}\nelse\n{b})"
        if kind == "match":
            _, scrut, arms = e
            if scrut[0] == "tuple":
                sc = [self.X(x, env) for x in scrut[1]]
                names = [self.fresh("m") for _ in sc]
                pre = "".join(f"let {n} := {t};\n" for n, t in zip(names, sc))
            else:
                names = [self.fresh("m")]
                pre = f"let {names[0]} := {self.X(scrut, env)};\n"
            out = None
            for pat, guard, body in reversed(arms):
                if guard is not None: raise Untranslatable("match guard")
                if pat[0] == "ptuple":
                    if len(pat[1]) != len(names): raise Untranslatable("tuple pattern arity")
                    cond = " && ".join(self.P(q, n) for q, n in zip(pat[1], names))
                else:
                    cond = self.P(pat, names[0])
                bt = self.C(body, env, k, loop)
                out = bt if out is None and cond.replace("true", "").replace("&", "").strip() == "" else (
                    f"(if ({cond}) then\n{bt}\nelse\n{out if out is not None else 'none'})")
            return pre + out
        if kind == "while":
            _, cond, body = e
            if loop is not None: raise Untranslatable("nested loop")
            muts = ["i"]
            fuel, fuel1 = self.fresh("fuel"), self.fresh("fuel")
            envl = dict(env); iv = self.fresh("i"); envl["i"] = iv
            name = "lossy_next.loop"
            again = lambda e2: f"(Gen.Fn.{name} {env['self.source']} {fuel1} {e2['i']})"
            inner = f"(if {self.X(cond, envl)} then\n{self.C(body, envl, again, loop=name)}\nelse\n{k(envl)})"
            self.loop_def = (f"def {name} ({env['self.source']} : Str.Bytes) : Nat → Nat → Option (Option Str.Chunk)\n"
                             f"  | 0, _ => none\n  | {fuel1} + 1, {iv} =>\n" + indent(inner, 2) + "\n")
            return f"(Gen.Fn.{name} {env['self.source']} ({env['self.source']}.length + 1) {env['i']})"
        if is_tail:
            return self.RET(e, env, implicit=True)
        raise Untranslatable(f"statement expression {kind}")

    def RET(self, e, env, implicit=False):
        if e is None: raise Untranslatable("bare return")
        if e == ("path", ["None"]):
            return "some none"
        if e[0] == "call" and e[1] == ("path", ["Some"]) and len(e[2]) == 1:
            r = self.X(e[2][0], env)
            return f"some (some ⟨{r}.1, {r}.2, {env['self.source']}⟩)"
        raise Untranslatable("returned value")


class L:
    """`String::from_utf8_lossy_in` (src/collections/string.rs), statement by statement, result `Outcome Str.Bytes` (the bytes of
    the returned string).  The chunk iterator is its remaining source (`iter.next()` is the translated `Gen.Fn.lossy_next`, a
    `none` from it — out of fuel — is `bad`); `for chunk in iter` is a function recursive on fuel (source length + 1: every chunk
    consumes at least one byte); `res.push_str(x)` is the *specification* of `push_str` (`Str.pushStr`, to which the translated
    `push_str` is proved equal in Props/GenFnStr.lean); `Vec::from_iter_in(x.iter().cloned(), bump)` is `x`, `String::with_capacity_in`
    / `from_str_in("")` are the empty string; `debug_assert!` panics when `dbg`; `const NAME: &str = "…"` is inlined as its UTF-8 bytes."""

    def __init__(self):
        self.n = 0
        self.defs = []

    def fresh(self, base):
        self.n += 1
        return f"{base}_{self.n}"

    @staticmethod
    def lit(text):
        # Rust string literal body -> UTF-8 bytes
        out = re.sub(r"\\u\{([0-9a-fA-F]+)\}", lambda m: chr(int(m.group(1), 16)), text)
        if "\\" in out: raise Untranslatable("escape in string literal")
        bs = out.encode("utf-8")
        return "([" + ", ".join(f"0x{b:02X}" for b in bs) + "] : Str.Bytes)"

    def V(self, e, env):
        """pure value expression -> (term, type)"""
        k = e[0]
        if k in ("paren", "ref"): return self.V(e[1], env)
        if k == "str": return (self.lit(e[1]), "bytes")
        if k == "path" and len(e[1]) == 1 and e[1][0] in env: return env[e[1][0]]
        if k == "tuple": 
            vs = [self.V(x, env) for x in e[1]]
            return ("(" + ", ".join(t for t, _ in vs) + ")", ("tuple", [ty for _, ty in vs]))
        if k == "un" and e[1] == "!":
            return (f"(!{self.V(e[2], env)[0]})", "bool")
        if k == "bin" and e[1] == "==":
            return (f"({self.V(e[2], env)[0]} == {self.V(e[3], env)[0]})", "bool")
        if k == "mcall":
            if e[2] == "chunks" and e[1][0] == "call" and e[1][1] == ("path", ["lossy", "Utf8Lossy", "from_bytes"]):
                t, ty = self.V(e[1][2][0], env)
                return (t, ("iter", t))
            r, ty = self.V(e[1], env)
            if e[2] == "len" and ty == "bytes": return (f"{r}.length", "nat")
            if e[2] == "is_empty" and ty == "bytes": return (f"{r}.isEmpty", "bool")
            if e[2] == "cloned" and ty == "bytesiter": return (r, "bytesiter")
            if e[2] == "iter" and ty == "bytes": return (r, "bytesiter")
            raise Untranslatable(f"method .{e[2]} on {ty}")
        if k == "call" and e[1][0] == "path":
            segs = e[1][1]
            if segs == ["String", "from_utf8_unchecked"]: return self.V(e[2][0], env)
            if segs == ["Vec", "from_iter_in"]:
                t, ty = self.V(e[2][0], env)
                if ty != "bytesiter": raise Untranslatable("from_iter_in of this iterator")
                return (t, "bytes")
            if segs == ["String", "from_str_in"]: return self.V(e[2][0], env)
            if segs == ["String", "with_capacity_in"]: return ("([] : Str.Bytes)", "bytes")
            raise Untranslatable(f"call of {'::'.join(segs)}")
        raise Untranslatable(f"value form {k}")

    def bind_pat(self, pat, term, ty, env):
        e2 = dict(env)
        if pat[0] == "pid":
            e2[pat[1]] = (term, ty); return e2, ""
        if pat[0] == "ptuple" and isinstance(ty, tuple) and ty[0] == "tuple":
            pre = ""
            for i, (q, qt) in enumerate(zip(pat[1], ty[1])):
                ln = self.fresh(q[1]); pre += f"let {ln} := {term}.{i + 1};\n"; e2[q[1]] = (ln, qt)
            return e2, pre
        if pat[0] == "pstruct" and pat[1][-1] == "Utf8LossyChunk" and ty == "chunk":
            for f, q in pat[2]:
                if f not in ("valid", "broken") or q[0] != "pid": raise Untranslatable("chunk pattern")
                e2[q[1]] = (f"{term}.{f}", "bytes")
            return e2, ""
        raise Untranslatable(f"pattern {pat[0]} against {ty}")

    def next_chunk(self, it_name, env, k_some, k_none):
        """`iter.next()`: advance the iterator local"""
        it, ity = env[it_name]
        ch = self.fresh("chunk")
        e2 = dict(env); e2[it_name] = (f"{ch}.rest", ity)
        return (f"(match Gen.Fn.lossy_next {it} with\n| none => Outcome.bad \"lossy: out of fuel\"\n| some none =>\n{k_none(env)}\n"
                f"| some (some {ch}) =>\n{k_some(ch, e2)})")

    # expression in value position that may return / branch: k(term, type, env)
    def E(self, e, env, k):
        if e[0] == "iflet" and e[1][0] == "pts" and e[1][1] == ["Some"] and e[2][0] == "mcall" and e[2][2] == "next" and e[2][1][0] == "path":
            it = e[2][1][1][0]
            pv = e[1][2][0]

            def ks(ch, e2):
                e3, pre = self.bind_pat(pv, ch, "chunk", e2)
                return pre + self.BLK(e[3], e3, k)
            return self.next_chunk(it, env, ks, lambda e2: self.BLK(e[4], e2, k))
        t, ty = self.V(e, env)
        return k(t, ty, env)

    def BLK(self, blk, env, k):
        """block whose value goes to k(term, type, env); `return` inside ends the function"""
        if blk[0] == "unsafe": return self.BLK(blk[1], env, k)
        _, stmts, tail = blk

        def go(i, env_):
            if i == len(stmts):
                if tail is None: return k("()", "unit", env_)
                if tail[0] in ("if", "unsafe", "block"):
                    return self.ST(tail, env_, lambda e2: k("()", "unit", e2))
                return self.E(tail, env_, k)
            return self.ST(stmts[i][1] if stmts[i][0] == "expr" else stmts[i], env_, lambda e2: go(i + 1, e2))
        return go(0, env)

    def ST(self, st, env, k):
        """statement; k(env) continues"""
        kind = st[0]
        if kind == "let":
            def kl(t, ty, e2):
                if st[1][0] == "pid" and isinstance(ty, str) and ty in ("bytes",) and not st[1][1].isupper() and not t.startswith("("):
                    e3 = dict(e2); e3[st[1][1]] = (t, ty); return k(e3)
                if st[1][0] == "pid" and (st[1][1].isupper() or isinstance(ty, tuple) and ty[0] == "iter"):
                    e3 = dict(e2); e3[st[1][1]] = (t, ty); return k(e3)
                if st[1][0] == "pid":
                    ln = self.fresh(st[1][1]); e3 = dict(e2); e3[st[1][1]] = (ln, ty)
                    return f"let {ln} := {t};\n{k(e3)}"
                e3, pre = self.bind_pat(st[1], t, ty, e2)
                return pre + k(e3)
            return self.E(st[2], env, kl)
        if kind in ("unsafe",): return self.ST(st[1], env, k)
        if kind == "block": return self.BLK(st, env, lambda t, ty, e2: k(e2))
        if kind == "return":
            t, ty = self.V(st[1], env)
            if ty != "bytes": raise Untranslatable("returned value")
            return f"Outcome.ok {t}"
        if kind == "macro" and st[1] == "debug_assert":
            c, _ = self.V(st[2][0], env)
            return f"(if dbg && !{c} then Outcome.panic else\n{k(env)})"
        if kind == "if":
            _, c, then, els = st
            ct, _ = self.V(c, env)
            mutated = sorted(self.assigned(then) | (self.assigned(els) if els is not None else set()))
            # the branches rebind `res`; the continuation is duplicated into both (it is short: the function is straight-line)
            a = self.BLK(then, env, lambda t, ty, e2: k(e2))
            b = self.BLK(els, env, lambda t, ty, e2: k(e2)) if els is not None else k(env)
            return f"(if {ct} then\n{a}\nelse\n{b})"
        if kind == "mcall" and st[2] == "push_str" and st[1][0] == "path" and st[1][1][0] in env:
            name = st[1][1][0]
            r, rty = env[name]
            a, aty = self.V(st[3][0], env)
            if rty != "bytes" or aty != "bytes": raise Untranslatable("push_str operands")
            ln = self.fresh(name); e2 = dict(env); e2[name] = (ln, "bytes")
            return f"let {ln} := Str.pushStr {r} {a};\n{k(e2)}"
        if kind == "foriter" and st[2][0] == "path" and st[2][1][0] in env:
            it_name = st[2][1][0]
            it, ity = env[it_name]
            if not (isinstance(ity, tuple) and ity[0] == "iter"): raise Untranslatable("for over this value")
            muts = sorted(self.assigned(st[3]) & set(env))
            name = "from_utf8_lossy_in.loop"
            fuel, fuel1 = self.fresh("fuel"), self.fresh("fuel")
            envl = dict(env)
            itl = self.fresh(it_name); envl[it_name] = (itl, ity)
            params = []
            for m in muts:
                ln = self.fresh(m); envl[m] = (ln, env[m][1]); params.append(ln)
            again = lambda e2: f"(Gen.Fn.{name} dbg v {fuel1} {e2[it_name][0]} {' '.join(e2[m][0] for m in muts)})"

            def ks(ch, e2):
                e3, pre = self.bind_pat(st[1], ch, "chunk", e2)
                return pre + self.BLK(st[3], e3, lambda t, ty, e4: again(e4))
            inner = self.next_chunk(it_name, envl, ks, k)
            if not any(d.startswith(f"def {name} ") for d in self.defs):
              self.defs.append(f"def {name} (dbg : Bool) (v : Str.Bytes) : Nat → Str.Bytes → {' → '.join('Str.Bytes' for _ in muts)} → Outcome Str.Bytes\n"
                             f"  | 0, _, {', '.join('_' for _ in muts)} => Outcome.bad \"lossy: out of fuel\"\n"
                             f"  | {fuel1} + 1, {itl}, {', '.join(params)} =>\n" + indent(inner, 2) + "\n")
            return f"(Gen.Fn.{name} dbg v ({ity[1]}.length + 1) {it} {' '.join(env[m][0] for m in muts)})"
        raise Untranslatable(f"statement {kind}")

    def assigned(self, e):
        """names of locals mutated through `.push_str` inside e"""
        out = set()
        if isinstance(e, tuple):
            if e and e[0] == "mcall" and e[2] == "push_str" and e[1][0] == "path":
                out.add(e[1][1][0])
            for x in e: out |= self.assigned(x)
        elif isinstance(e, list):
            for x in e: out |= self.assigned(x)
        return out

    def function(self, body):
        env = {"v": ("v", "bytes"), "bump": ("()", "unit")}

        def kret(t, ty, e2):
            if ty != "bytes": raise Untranslatable("result")
            return f"Outcome.ok {t}"
        text = self.BLK(body, env, kret)
        return "\n".join(self.defs) + "/-- `fn from_utf8_lossy_in` (src/collections/string.rs) -/\ndef from_utf8_lossy_in (dbg : Bool) (v : Str.Bytes) : Outcome Str.Bytes :=\n" + indent(text) + "\n"


def indent(text, base=1):
    out, depth = [], 0
    for line in text.split("\n"):
        line = line.strip()
        if not line: continue
        lead = 0
        for c in line:
            if c == ")": lead += 1
            else: break
        out.append("  " * (base + max(depth - lead, 0)) + line)
        depth += line.count("(") - line.count(")")
    return "\n".join(out)


HEADER = """import BumpVerif.Model.Lossy
/-! GENERATED by tools/rs2lean_lossy.py from /repo/src/collections/str/lossy.rs — do not edit.
`Utf8LossyChunksIter::next` and its nested helpers, translated statement by statement (the local macro `error!` expanded). -/
set_option linter.unusedVariables false
namespace Gen.Fn
open Bump

"""


def translate_all(repo):
    report, out = {}, []
    try:
        raw = rsparse.strip_comments(open(os.path.join(repo, FILE)).read())
        src = expand_macros(raw)
        t = T()
        # nested helpers
        sig, body = rsparse.find_fn(src, "unsafe_get", 0, None)
        env = {n: n for n, _ in sig["params"]}
        out.append(f"/-- `fn unsafe_get` (nested in `next`) -/\ndef lossy_unsafe_get (xs : Str.Bytes) (i : Nat) : UInt8 :=\n  {t.X(body, env)}\n")
        sig, body = rsparse.find_fn(src, "safe_get", 0, None)
        if body[0] != "block" or body[1] or body[2] is None or body[2][0] != "if":
            raise Untranslatable("shape of safe_get")
        _, c, then, els = body[2]
        out.append(f"/-- `fn safe_get` (nested in `next`) -/\ndef lossy_safe_get (xs : Str.Bytes) (i : Nat) : UInt8 :=\n"
                   f"  if {t.X(c, env)} then {t.X(then, env)} else {t.X(els, env)}\n")
        sig, body = rsparse.find_fn(src, "next", 0, "Iterator for Utf8LossyChunksIter")
        t.loop_def = None
        env = {"self.source": "source"}
        text = t.S(body[1], body[2], env, lambda e2: "some none")
        if t.loop_def is None:
            raise Untranslatable("no loop found")
        out.append(t.loop_def)
        out.append(f"/-- `fn next` -/\ndef lossy_next (source : Str.Bytes) : Option (Option Str.Chunk) :=\n" + indent(text) + "\n")
        report["lossy_next"] = "ok"
    except (ParseError, Untranslatable, KeyError, IndexError, TypeError) as ex:
        out = [f"/- `Utf8LossyChunksIter::next` could not be translated: {type(ex).__name__}: {ex} -/\n"]
        report["lossy_next"] = f"untranslatable: {type(ex).__name__}: {ex}"
    try:
        ssrc = rsparse.strip_comments(open(os.path.join(repo, "src/collections/string.rs")).read())
        sig, body = rsparse.find_fn(ssrc, "from_utf8_lossy_in", 0, "impl<'bump> String<'bump> {")
        out.append(L().function(body))
        report["from_utf8_lossy_in"] = "ok"
    except (ParseError, Untranslatable, KeyError, IndexError, TypeError) as ex:
        out.append(f"/- `String::from_utf8_lossy_in` could not be translated: {type(ex).__name__}: {ex} -/\n")
        report["from_utf8_lossy_in"] = f"untranslatable: {type(ex).__name__}: {ex}"
    return HEADER + "\n".join(out) + "\nend Gen.Fn\n", report


def run(repo, out_dir, write_if_changed):
    text, report = translate_all(repo)
    changed = write_if_changed(os.path.join(out_dir, "FnLossy.lean"), text)
    return {"fn_bodies_lossy": report, "fn_lossy_changed": changed}


if __name__ == "__main__":
    text, report = translate_all(os.environ.get("BV_REPO", "/repo"))
    print(text)
    print("--", report)
