#!/usr/bin/env python3
"""Function-body translator for `impl Drop for Splice` (src/collections/vec.rs): everything after its first statement.

The first statement, `self.drain.by_ref().for_each(drop)`, is the boundary of the translated region (it must be there, literally;
the model performs it in `spliceOp`, outside `spliceBody`).  The rest is translated over

    state   s : RsM.VW                     the drained vector and the effects
    fields  tail_start, tail_len : Nat     of `self.drain` (`move_tail` replaces `tail_start`)
    field   replace_with : V.It            the caller's iterator, threaded in and out (the `Splice` still owns it afterwards)

into `Gen.Fn.splice_drop_body … : RsM.VW × Nat × V.It × Outcome Unit` (state, final `tail_start`, iterator, outcome).  Rules:

  * `self.drain.fill(&mut it)` / `self.drain.move_tail(n)` are the *translated* `Gen.Fn.drain_fill` / `Gen.Fn.drain_move_tail`;
    a panic inside unwinds this function: locals it owns (the `collected` iterator) are dropped first;
  * `if c { …; return; }` leaves with `ok ()`; an `if` without `else` continues on both paths (the continuation is duplicated);
  * `<vec>.extend(self.replace_with.by_ref())` is `RsM.extend_by_ref` (the model's `extendRef`: `Extend` without the final drop of
    the iterator, tied to the translated `Vec::extend` by `gen_vec_extend_raw`); `it.size_hint()`'s lower bound is `it.hintLo`;
  * `Vec::new_in(..)` is an empty second vector, `collected.extend(self.replace_with.by_ref())` is `RsM.collect_by_ref` (what the
    iterator still yields, in order; when it panics the partly filled vector is dropped by the unwinding), `into_iter()` makes it an
    owning iterator the frame owns; `collected.len()` is what it has left;
  * `debug_assert!(c)` / `debug_assert_eq!(a, b)`: under debug assertions a failure is a panic (locals dropped), otherwise nothing;
  * the end of the function drops the locals it still owns.
"""
import os, sys
sys.path.insert(0, os.path.dirname(os.path.abspath(__file__)))
import rsparse
from rsparse import ParseError

FILE = "src/collections/vec.rs"
ANCHOR = "Drop for Splice<'a, 'bump, I>"
FIRST = ("expr", ("mcall", ("mcall", ("field", ("path", ["self"]), "drain"), "by_ref", []), "for_each", [("path", ["drop"])]))
DRAIN = ("field", ("path", ["self"]), "drain")
RW = ("field", ("path", ["self"]), "replace_with")
RW_BYREF = ("mcall", RW, "by_ref", [])


class Untranslatable(Exception):
    pass


class Env:
    def __init__(self, ts, it, locs=None, owned=None):
        self.ts, self.it, self.locs, self.owned = ts, it, dict(locs or {}), list(owned or [])

    def copy(self, **kw):
        e = Env(self.ts, self.it, self.locs, self.owned)
        for k, v in kw.items():
            setattr(e, k, v)
        return e


class T:
    def __init__(self):
        self.n = 0

    def fresh(self, b):
        self.n += 1
        return f"{b}_{self.n}"

    def out(self, env, outcome):
        return f"(s, {env.ts}, {env.it}, {outcome})"

    def unwind(self, env, outcome="Outcome.panic"):
        """leave abnormally: owned locals are dropped (newest first), then the outcome"""
        text = self.out(env, outcome)
        for name in env.owned:
            text = f"(match RsM.drop_it c {env.locs[name][0]} s with\n| (s, _) =>\n{text})"
        return text

    def finish(self, env):
        return self.unwind(env, "Outcome.ok ()")

    def other_outcomes(self, env, itname=None):
        it = f", {itname}" if itname else ""
        return "".join(f"| (s{it}, {pat}) => {self.unwind(env, out)}\n" for pat, out in
                       (("Outcome.err", "Outcome.err"), ("Outcome.bad m", "Outcome.bad m"), ("Outcome.envBad", "Outcome.envBad")))

    # pure values -> (term, type)
    def V(self, e, env):
        k = e[0]
        if k == "paren": return self.V(e[1], env)
        if k == "int": return str(e[1]), "nat"
        if k == "path" and len(e[1]) == 1 and e[1][0] in env.locs: return env.locs[e[1][0]]
        if k == "field" and e[1] == DRAIN and e[2] == "tail_len": return "tail_len", "nat"
        if k == "mcall" and e[2] == "len" and not e[3]:
            t, ty = self.V(e[1], env)
            if ty == "cit": return f"{t}.remaining", "nat"
        if k == "bin" and e[1] in ("==", ">"):
            (a, ta), (b, tb) = self.V(e[2], env), self.V(e[3], env)
            if ta == "nat" and tb == "nat":
                return (f"({a} == {b})" if e[1] == "==" else f"(decide ({a} > {b}))"), "bool"
        if k == "un" and e[1] == "!":
            t, ty = self.V(e[2], env)
            if ty == "bool": return f"(!{t})", "bool"
        raise Untranslatable(f"value {k} {e[2] if k in ('mcall', 'field') else ''}")

    def fill(self, target, env, k):
        """`self.drain.fill(&mut <target>)`; k(term of the bool, env)"""
        if target == ("ref", RW):
            it2, b = self.fresh("it"), self.fresh("filled")
            e2 = env.copy(it=it2)
            return (f"(match Gen.Fn.drain_fill c {env.ts} tail_len {env.it} s with\n| (s, {it2}, Outcome.ok {b}) =>\n{k(b, e2)}\n"
                    f"| (s, {it2}, Outcome.panic) => {self.unwind(e2)}\n"
                    + self.other_outcomes(e2, it2) + ")")
        if target[0] == "ref" and target[1][0] == "path" and env.locs.get(target[1][1][0], (None, None))[1] == "cit":
            name = target[1][1][0]
            c2, b = self.fresh(name), self.fresh("filled")
            e2 = env.copy()
            e2.locs[name] = (c2, "cit")
            return (f"(match Gen.Fn.drain_fill c {env.ts} tail_len {env.locs[name][0]} s with\n| (s, {c2}, Outcome.ok {b}) =>\n{k(b, e2)}\n"
                    f"| (s, {c2}, Outcome.panic) => {self.unwind(e2)}\n" + self.other_outcomes(e2, c2) + ")")
        raise Untranslatable("fill target")

    def cond(self, e, env, k):
        """conditions that may call `fill`: k(bool term, env)"""
        if e[0] == "un" and e[1] == "!" and e[2][0] == "mcall" and e[2][1] == DRAIN and e[2][2] == "fill" and len(e[2][3]) == 1:
            return self.fill(e[2][3][0], env, lambda b, e2: k(f"(!{b})", e2))
        t, ty = self.V(e, env)
        if ty != "bool": raise Untranslatable("condition")
        return k(t, env)

    def X(self, e, env, k):
        """expression statement; k(env) continues, `return` does not"""
        kind = e[0]
        if kind == "unsafe": return self.X(e[1], env, k)
        if kind == "block": return self.B(e, env, k)
        if kind == "return" and e[1] is None: return self.finish(env)
        if kind == "if" and e[3] is None:
            then_returns = e[2][0] == "block" and e[2][2] is None and e[2][1] and e[2][1][-1] == ("expr", ("return", None))

            def kc(ct, e2):
                if then_returns:
                    return f"(if {ct} then\n{self.B(e[2], e2.copy(), k)}\nelse\n{k(e2.copy())})"
                # both paths continue: the continuation becomes a lambda-lifted join point
                lty = {"nat": "Nat", "bool": "Bool", "cit": "V.It", "cvec": "(List V.Elem)"}
                names = [n for n in e2.locs]
                ej = Env("tail_start", "replace_with", {n: (self.fresh(n), e2.locs[n][1]) for n in names}, e2.owned)
                body = k(ej.copy())
                if len(body) < 400:
                    return f"(if {ct} then\n{self.B(e[2], e2.copy(), k)}\nelse\n{k(e2.copy())})"
                self.nj = getattr(self, "nj", 0) + 1
                jn = f"splice_drop_body.after_{self.nj}"
                params = " ".join(f"({ej.locs[n][0]} : {lty[ej.locs[n][1]]})" for n in names)
                self.defs = getattr(self, "defs", [])
                self.defs.append(f"/-- what follows an `if` both of whose paths continue -/\ndef {jn} (c : V.Cfg) (tail_len : Nat) {params} "
                                 f"(tail_start : Nat) (replace_with : V.It) (s : RsM.VW) : RsM.VW × Nat × V.It × Outcome Unit :=\n" + indent(body) + "\n")

                def kj(e3):
                    return f"({jn} c tail_len {' '.join(e3.locs[n][0] for n in names)} {e3.ts} {e3.it} s)"
                return f"(if {ct} then\n{self.B(e[2], e2.copy(), kj)}\nelse\n{kj(e2.copy())})"
            return self.cond(e[1], env, kc)
        if kind == "mcall" and e[1] == DRAIN and e[2] == "move_tail" and len(e[3]) == 1:
            n, tn = self.V(e[3][0], env)
            if tn != "nat": raise Untranslatable("move_tail argument")
            ts2 = self.fresh("tail_start")
            return (f"(match Gen.Fn.drain_move_tail c {env.ts} tail_len {n} s with\n| (s, Outcome.ok {ts2}) =>\n{k(env.copy(ts=ts2))}\n"
                    f"| (s, Outcome.panic) => {self.unwind(env)}\n" + self.other_outcomes(env) + ")")
        if kind == "mcall" and e[2] == "extend" and e[3] == [RW_BYREF]:
            recv = e[1]
            if recv == ("mcall", ("field", DRAIN, "vec"), "as_mut", []):
                it2 = self.fresh("it")
                e2 = env.copy(it=it2)
                return (f"(match RsM.extend_by_ref c {env.it} s with\n| (s, {it2}, Outcome.ok _) =>\n{k(e2)}\n"
                        f"| (s, {it2}, Outcome.panic) => {self.unwind(e2)}\n" + self.other_outcomes(e2, it2) + ")")
            if recv[0] == "path" and env.locs.get(recv[1][0], (None, None))[1] == "cvec":
                name = recv[1][0]
                it2, acc = self.fresh("it"), self.fresh(name)
                e2 = env.copy(it=it2)
                e2.locs[name] = (acc, "cvec")
                # when the iterator panics the primitive has already dropped the partly filled vector
                e_p = env.copy(it=it2)
                e_p.owned = [x for x in e_p.owned if x != name]
                return (f"(match RsM.collect_by_ref c {env.locs[name][0]} {env.it} s with\n| (s, {it2}, Outcome.ok {acc}) =>\n{k(e2)}\n"
                        f"| (s, {it2}, Outcome.panic) => {self.unwind(e_p)}\n" + self.other_outcomes(e_p, it2) + ")")
        if kind == "macro" and e[1] == "debug_assert" and len(e[2]) == 1:
            t, ty = self.V(e[2][0], env)
            if ty != "bool": raise Untranslatable("debug_assert")
            return f"(if c.dbg && !{t} then {self.unwind(env)} else\n{k(env)})"
        if kind == "macro" and e[1] == "debug_assert_eq" and len(e[2]) == 2:
            (a, ta), (b, tb) = self.V(e[2][0], env), self.V(e[2][1], env)
            if ta != "nat" or tb != "nat": raise Untranslatable("debug_assert_eq")
            return f"(if c.dbg && !({a} == {b}) then {self.unwind(env)} else\n{k(env)})"
        raise Untranslatable(f"statement expression {kind} {e[2] if kind == 'mcall' else ''}")

    def B(self, blk, env, k):
        _, stmts, tail = blk
        items = list(stmts) + ([("expr", tail)] if tail is not None else [])
        outer_owned = list(env.owned)

        def go(i, env_):
            if i == len(items):
                # locals declared in this block and still owned are dropped at its end
                mine = [x for x in env_.owned if x not in outer_owned]
                text_env = env_.copy(owned=[x for x in env_.owned if x in outer_owned])
                text = k(text_env)
                for name in mine:
                    text = f"(match RsM.drop_it c {env_.locs[name][0]} s with\n| (s, _) =>\n{text})"
                return text
            st = items[i]
            if st[0] == "expr":
                return self.X(st[1], env_, lambda e2: go(i + 1, e2))
            if st[0] == "let" and st[1][0] == "ptuple" and st[2] == ("mcall", RW, "size_hint", []) and len(st[1][1]) == 2 \
                    and st[1][1][0][0] == "pid":
                ln = self.fresh(st[1][1][0][1])
                e2 = env_.copy()
                e2.locs[st[1][1][0][1]] = (ln, "nat")
                return f"let {ln} := {env_.it}.hintLo;\n{go(i + 1, e2)}"
            if st[0] == "let" and st[1][0] == "pid":
                name, init = st[1][1], st[2]
                if init[0] == "call" and init[1] == ("path", ["Vec", "new_in"]) and len(init[2]) == 1:
                    e2 = env_.copy()
                    e2.locs[name] = ("[]", "cvec")
                    e2.owned = [name] + [x for x in e2.owned if x != name]
                    return go(i + 1, e2)
                if init[0] == "mcall" and init[2] == "into_iter" and not init[3] and init[1][0] == "path" \
                        and env_.locs.get(init[1][1][0], (None, None))[1] == "cvec":
                    srcname = init[1][1][0]
                    ln = self.fresh(name)
                    e2 = env_.copy()
                    e2.owned = [x for x in e2.owned if x != srcname]
                    e2.locs[name] = (ln, "cit")
                    e2.owned = [name] + e2.owned
                    return f"let {ln} := V.It.owned {env_.locs[srcname][0]};\n{go(i + 1, e2)}"
                if init[0] == "mcall" and init[1] == DRAIN and init[2] == "fill" and len(init[3]) == 1:
                    def kf(b, e2):
                        e3 = e2.copy()
                        e3.locs[name] = (b, "bool")
                        return go(i + 1, e3)
                    return self.fill(init[3][0], env_, kf)
            raise Untranslatable(f"statement {st[0]}")
        return go(0, env)


def indent(text, base=1):
    out, depth = [], 0
    for line in text.split("\n"):
        line = line.strip()
        if not line: continue
        lead = 0
        for ch in line:
            if ch == ")": lead += 1
            else: break
        out.append("  " * (base + max(depth - lead, 0)) + line)
        depth += line.count("(") - line.count(")")
    return "\n".join(out)


HEADER = """import BumpVerif.Model.RsVecM
import BumpVerif.Gen.FnSplice
/-! GENERATED by tools/rs2lean_splicedrop.py from /repo/src/collections/vec.rs — do not edit.
`impl Drop for Splice`: what follows `self.drain.by_ref().for_each(drop)`. -/
set_option linter.unusedVariables false
namespace Gen.Fn
open Bump

"""


def translate_all(repo):
    report, lean = {}, "splice_drop_body"
    try:
        src = rsparse.strip_comments(open(os.path.join(repo, FILE)).read())
        sig, body = rsparse.find_fn(src, "drop", 0, ANCHOR)
        if body[0] != "block" or not body[1] or body[1][0] != FIRST:
            raise Untranslatable("the first statement is not `self.drain.by_ref().for_each(drop)`")
        t = T()
        rest = ("block", body[1][1:], body[2])
        text = t.B(rest, Env("tail_start", "replace_with"), lambda env: t.finish(env))
        out = ("\n".join(getattr(t, "defs", [])) + f"\n/-- `Drop for Splice`, after the drained range has been exhausted -/\ndef {lean} (c : V.Cfg) (tail_start tail_len : Nat) "
               f"(replace_with : V.It) (s : RsM.VW) : RsM.VW × Nat × V.It × Outcome Unit :=\n" + indent(text) + "\n")
        report[lean] = "ok"
    except (ParseError, Untranslatable, KeyError, IndexError, TypeError) as ex:
        out = f"/- `Splice::drop` could not be translated: {type(ex).__name__}: {ex} -/\n"
        report[lean] = f"untranslatable: {type(ex).__name__}: {ex}"
    return HEADER + out + "\nend Gen.Fn\n", report


def run(repo, out_dir, write_if_changed):
    text, report = translate_all(repo)
    changed = write_if_changed(os.path.join(out_dir, "FnSpliceDrop.lean"), text)
    return {"fn_bodies_splicedrop": report, "fn_splicedrop_changed": changed}


if __name__ == "__main__":
    text, report = translate_all(os.environ.get("BV_REPO", "/repo"))
    print(text)
    for k, v in report.items():
        print(f"-- {k}: {v}")
