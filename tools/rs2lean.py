#!/usr/bin/env python3
"""Function-body translator: Rust (the subset of tools/rsparse.py) -> Lean 4 definitions.

Regenerates `lean/BumpVerif/Gen/Fn*.lean` from /repo/src on every run.  Each listed source function becomes
one Lean definition with the same control structure, written in continuation-passing style so that early
`return`, `?`, `debug_assert!` and unchecked arithmetic keep their meaning:

  * `usize` and raw pointers are naturals; `a + b`, `a - b`, `a * b`, `p.add(n)` are *unchecked* in the source,
    so the translation yields `Outcome.bad` when they would wrap (exactly as the hand-written model does);
  * `debug_assert!(c)` yields `Outcome.bad` when `c` is false; `assert!` / diverging helpers yield `.panic`;
  * `e?` returns `none` / `.err` of the enclosing function; `return e` returns;
  * a function that returns `Option<T>` yields `Outcome (Option T)`, one that returns `Result<T, AllocErr>` yields
    `Outcome T` with `.err`; methods that touch the arena thread the model's state `s : St`;
  * mutable locals are rebinding; branches that assign them pass the new values to a local join function.

What the translator trusts is only the table of *primitives* (PRIMS / idioms below: what `checked_add`,
`wrapping_sub`, `x & !(d-1)`, `footer.ptr.get()`, `ptr::copy_nonoverlapping` ... mean), which live in
`Model/Rs.lean` as ordinary definitions.  The theorems `Props/GenFns*.lean` then prove each generated function
equal to the hand-written model function the property theorems are about; a change to the Rust source changes
the generated definition and the equality is re-checked.
"""
import os, sys, re, json
sys.path.insert(0, os.path.dirname(os.path.abspath(__file__)))
import rsparse
from rsparse import ParseError


class Untranslatable(Exception):
    pass


RESERVED = {"end", "at", "from", "fun", "open", "by", "do", "then", "else", "if", "match", "with", "let", "in", "have", "show",
            "theorem", "def", "namespace", "section", "instance", "structure", "where", "variable", "import", "Type", "Prop",
            "Sort", "s", "v", "c", "E", "M", "and", "or", "not", "max", "min", "some", "none", "default"}

CONSTS = {"CHUNK_ALIGN", "FOOTER_SIZE", "OVERHEAD", "TYPICAL_PAGE_SIZE", "DEFAULT_CHUNK_SIZE_WITHOUT_FOOTER",
          "FIRST_ALLOCATION_GOAL", "MALLOC_OVERHEAD", "SUPPORTED_ITER_ALIGNMENT"}

# ---- types -------------------------------------------------------------------------------------------------
NAT, BOOL, UNIT, LAYOUT, DETAILS, CHUNK, ORD, BUMP = "nat", "bool", "unit", "layout", "details", "chunk", "ordering", "bump"
RAWVEC, RERR, STRATEGY, FALLIB = "rawvec", "rerr", "strategy", "fallibility"
CHUNKLIST, CELLPREV = "chunklist", "cellprev"
ELEM, SLOT, VECSELF, GUARD = "elem", "slot", "vecself", "guard"
VECK = ("vec", "drain", "intoiter", "dfilter")
ITERK = ("drain", "intoiter", "dfilter")
KEEPK = ("dfilter",)    # `&mut self` methods whose receiver fields must survive a panic (the caller's unwinding reads them): the
                        # function returns `Except Unit value × fields`, `.error ()` = it unwound
CB1, DFSTRUCT, BACKSHIFT = "cb1", "dfstruct", "backshiftguard"
BUF, VSVAL = "buffer", "vsval"     # a freshly obtained buffer (its slots); a `RawVec` / `Vec` value under construction     # kinds whose threaded state is the vector model: `Vec` methods, and methods of its iterator structs
BD, DRAIN, ITER2 = "bound", "drainstruct", "sliceiter"
SLICE, CB2 = "slice", "cb2"   # a sub-slice of the vector's buffer (first slot, length); a two-argument predicate (call log as data)
VECSNAP = "vecsnap"       # the receiver of a `&self` method that builds a new vector: a snapshot of the source vector (`V.VS`)
ESLICE = "elemslice"       # `&[T]` outside the buffer whose elements are read (cloned), not copied bitwise: the list of its elements
OVECREF = "ovecref"       # `other: &mut Self`: a second vector, threaded as a value (in/out)
VIT = "vit"               # an iterator handed to the vector by value (the model's `V.It`): owned by the local that holds it
XSLICE = "xslice"         # a slice outside the vector's buffer (`&[T]`, `*const [T]`): its slots
XPTR = "xptr"             # pointer to the first element of such a slice
EXTW = "extendwith"      # `impl ExtendWith<T>`: the one implementor, `ExtendElement(value)`, is the value it clones


def res2(t): return ("res2", t)


def ftype(ft):
    """type of a receiver field given in a function table: Rust text, or ("ty", T) for a translator type"""
    return ft[1] if isinstance(ft, tuple) and ft[0] == "ty" else rust_ty(ft)


def opt(t): return ("opt", t)
def res(t): return ("res", t)


def lean_ty(t):
    if t == ("gen",): raise Untranslatable("a generator is not a value")
    if t == NAT: return "Nat"
    if t == BOOL: return "Bool"
    if t == UNIT: return "Unit"
    if t == LAYOUT: return "Rs.Layout"
    if t == DETAILS: return "Details"
    if t == CHUNK: return "Chunk"
    if t == BUMP: return "Arena"
    if t == ORD: return "Ordering"
    if isinstance(t, tuple) and t[0] in ("opt", "res"): return f"(Option {lean_ty(t[1])})"
    if isinstance(t, tuple) and t[0] == "res2": return f"(Except V.RErr {lean_ty(t[1])})"
    if t == RERR: return "V.RErr"
    if t == CHUNKLIST: return "(List Chunk)"
    if t == STRATEGY: return "Rs.Strategy"
    if t == ELEM: return "V.Elem"
    if t == SLOT: return "Nat"
    if t == GUARD: return "Nat"
    if t == EXTW: return "V.Elem"
    if t == SLICE: return "(Nat × Nat)"
    if t == XSLICE: return "(List (Option V.Elem))"
    if t == VIT: return "V.It"
    if t == "keyfn": return "(V.Elem → Nat)"
    if t == OVECREF: return "V.VS"
    if t == ESLICE: return "(List V.Elem)"
    if t == ("esliceiter",): return "(List V.Elem)"
    if t == VECSNAP: return "V.VS"
    if t == CB2: return "(Nat → V.Elem → V.Elem → Option Bool)"
    if t == BUF: return "(List (Option V.Elem))"
    if t == VSVAL: return "V.VS"
    if t == CB1: return "(Nat → V.Elem → Option Bool)"
    if t == DFSTRUCT: return "V.DF"
    if t == BD: return "V.Bd"
    if t == DRAIN: return "V.Drain"
    if t == ITER2: return "(Nat × Nat)"
    if t == FALLIB: return "Rs.Fallibility"
    if isinstance(t, tuple) and t[0] == "tuple": return "(" + " × ".join(lean_ty(x) for x in t[1]) + ")"
    if t == "selfstruct": raise Untranslatable("the receiver struct is not a value")
    raise Untranslatable(f"no Lean type for {t}")


def rust_ty(text):
    t = text.replace(" ", "")
    t = re.sub(r"^&('\w+)?(mut)?", "", t)
    if t in ("usize", "*mutu8", "*constu8", "NonNull<u8>", "*mutT", "*constT", "NonNull<T>"): return NAT
    if t == "bool": return BOOL
    if t == "T": return ELEM
    if t == "E": return EXTW
    if t == "[T]": return SLICE
    if t == "NonNull<[u8]>": return ("tuple", [NAT, NAT])
    if t in ("Drain<T>", "Drain<'a,'bump,T>"): return DRAIN
    if t == "IntoIter<'bump,T>": return ("tuple", [SLOT, SLOT])
    if t in ("Self", "Vec<'bump,T>") : return VSVAL if t != "Self" else BUMP
    if t in ("&'aBump", "&'bumpBump", "Bump"): return UNIT
    if t == "DrainFilter<'a,'bump,T,F>": return DFSTRUCT
    if t in ("slice::Iter<'a,T>", "slice::Iter<T>"): return ITER2
    if t in ("()", ""): return UNIT
    if t == "Layout": return LAYOUT
    if t == "NewChunkMemoryDetails": return DETAILS
    if t in ("NonNull<ChunkFooter>", "ChunkFooter", "*mutChunkFooter", "*constChunkFooter"): return CHUNK
    if t == "Self": return BUMP
    m = re.fullmatch(r"Option<(.*)>", t)
    if m: return opt(rust_ty(m.group(1)))
    m = re.fullmatch(r"\((.+),(.+)\)", t)
    if m and t.count(",") == 1: return ("tuple", [rust_ty(m.group(1)), rust_ty(m.group(2))])
    m = re.fullmatch(r"Result<(.*),(AllocErr|AllocError)>", t)
    if m: return res(rust_ty(m.group(1)))
    m = re.fullmatch(r"Result<(.*),CollectionAllocErr>", t)
    if m: return res2(rust_ty(m.group(1)))
    if t == "ReserveStrategy": return STRATEGY
    if t == "Fallibility": return FALLIB
    raise Untranslatable(f"type {text!r} is outside the translated subset")


# ---- function table: what to translate and how each function is seen by the others ---------------------------
# kind: 'free' (no self), 'assoc' (Self::f, takes M), 'bump' (&self on Bump: takes E M, threads s when st), 'chunk' (&self on ChunkFooter)
# mode: 'pure' (no arena state) | 'read' (reads s, returns Outcome) | 'st' (threads s)
class Fn:
    def __init__(self, name, kind, mode, file="src/lib.rs", anchor=None, nth=0, group="Arith", lean=None, self_ty=None,
                 region=None, free=None, self_fields=None, ptypes=None, ret=None):
        self.name, self.kind, self.mode, self.file, self.anchor, self.nth, self.group = name, kind, mode, file, anchor, nth, group
        self.lean = lean or name
        self.self_ty = self_ty
        self.sig = None
        # region: translate only a part of the body ("err_arm": the statements of the `Err(e) => { … }` arm of the function's
        # `match`, without its final expression); `free` declares the locals of the enclosing function the region reads
        self.region, self.free = region, free or []
        # `&mut self` methods of small state structs (an iterator's position): the listed fields are in/out parameters
        # of the translated function, which returns (value, final field values)
        self.self_fields = self_fields or []
        # parameter types the signature leaves generic (closures)
        self.ptypes = ptypes or {}
        self.ret = ret      # return type the signature spells through an associated type
        # a value of the element type returned by this function goes to the caller of the crate (event `moveOut`); internal
        # helpers (an iterator's `next` called by its own destructor) do not emit it
        self.moves_out = True
        # `self.<prefix>.field` is the receiver's own field (a guard struct that only wraps `&mut` the iterator)
        self.self_prefix = None

    def param_ty(self, name, text):
        return self.ptypes[name] if name in self.ptypes else rust_ty(text)


FUNCS = [
    Fn("round_up_to", "free", "pure", group="Arith"),
    Fn("round_up_to_unchecked", "free", "pure", group="Arith"),
    Fn("round_down_to", "free", "pure", group="Arith"),
    Fn("round_mut_ptr_down_to", "free", "pure", group="Arith"),
    Fn("round_mut_ptr_up_to_unchecked", "free", "pure", group="Arith"),
    Fn("is_pointer_aligned_to", "free", "pure", group="Arith"),
    Fn("layout_from_size_align", "free", "pure", group="Arith"),
    Fn("new_chunk_memory_details", "assoc", "pure", group="Details"),
    Fn("chunk_fits_under_limit", "assoc", "pure", group="Details"),
    Fn("allocated_bytes", "bump", "read", group="Bytes"),
    Fn("allocation_limit", "bump", "read", group="Limit"),
    Fn("allocation_limit_remaining", "bump", "read", group="Limit"),
    Fn("chunk_capacity", "bump", "read", group="Bytes"),
    Fn("is_empty", "chunk", "read", group="Footer", anchor="impl ChunkFooter"),
    Fn("set_ptr", "chunk", "st", group="Footer", anchor="impl ChunkFooter"),
    Fn("try_alloc_layout_fast", "bump", "st", group="Fast"),
    Fn("reset", "bump", "st", group="Reset"),
    Fn("new_chunk", "assocst", "st", group="NewChunk"),
    Fn("as_raw_parts", "chunk", "read", group="Iter", anchor="impl ChunkFooter"),
    Fn("next", "iter", "read", group="Iter", anchor="for ChunkRawIter", lean="chunk_raw_iter_next",
       self_fields=[("footer", "NonNull<ChunkFooter>")]),
    Fn("next", "iter", "read", group="Iter", anchor="Iterator for ChunkIter<'a, MIN_ALIGN>", lean="chunk_iter_next",
       self_fields=[("raw", "NonNull<ChunkFooter>")], ret=opt(("tuple", [NAT, NAT]))),
    Fn("iter_allocated_chunks_raw", "bump", "read", group="Iter", ret=CHUNK),
    Fn("iter_allocated_chunks", "bump", "read", group="Iter", ret=CHUNK),
    Fn("is_last_allocation", "bump", "read", group="Realloc"),
    Fn("try_alloc_layout", "bump", "st", group="Realloc"),
    Fn("dealloc", "bump", "st", group="Realloc", anchor="unsafe fn is_last_allocation"),
    Fn("shrink", "bump", "st", group="Realloc", anchor="unsafe fn is_last_allocation"),
    Fn("grow", "bump", "st", group="Realloc", anchor="unsafe fn is_last_allocation"),
    Fn("alloc_layout_slow", "bump", "st", group="Slow"),
    Fn("try_with_min_align_and_capacity", "assocst", "st", group="Ctor"),
    Fn("with_min_align_and_capacity", "assocst", "st", group="Ctor"),
    Fn("with_min_align", "assocst", "st", group="Ctor"),
    Fn("default", "assocst", "st", group="Ctor", anchor="Default for Bump", lean="default_"),
    Fn("try_with_capacity", "assocst", "st", group="Ctor"),
    Fn("with_capacity", "assocst", "st", group="Ctor"),
    Fn("try_new", "assocst", "st", group="Ctor"),
    Fn("new", "assocst", "st", group="Ctor", anchor="impl Bump<1>"),
    Fn("alloc_try_with", "bump", "st", group="Rewind", lean="alloc_try_with_rewind", region="err_arm",
       free=[("rewind_footer", "NonNull<ChunkFooter>"), ("rewind_ptr", "NonNull<u8>"), ("inner_result_ptr", "NonNull<u8>")]),
    Fn("try_alloc_try_with", "bump", "st", group="Rewind", lean="try_alloc_try_with_rewind", region="err_arm",
       free=[("rewind_footer", "NonNull<ChunkFooter>"), ("rewind_ptr", "NonNull<u8>"), ("inner_result_ptr", "NonNull<u8>")]),
]
FUNCS += [
    Fn("cap", "rawvec", "read", file="src/collections/raw_vec.rs", group="RawVec", lean="rv_cap"),
    Fn("alloc_guard", "free", "pure", file="src/collections/raw_vec.rs", group="RawVec"),
    Fn("amortized_new_size", "rawvec", "read", file="src/collections/raw_vec.rs", group="RawVec"),
    Fn("new_in", "rvctor", "pure", file="src/collections/raw_vec.rs", group="RawVec", lean="rv_new_in", ret=VSVAL),
    Fn("allocate_in", "rvctor", "pure", file="src/collections/raw_vec.rs", group="RawVec", lean="rv_allocate_in", ret=VSVAL),
    Fn("with_capacity_in", "rvctor", "pure", file="src/collections/raw_vec.rs", group="RawVec", lean="rv_with_capacity_in", ret=VSVAL),
    Fn("current_layout", "rawvec", "read", file="src/collections/raw_vec.rs", group="RawVec"),
    Fn("dealloc_buffer", "rawvec", "st", file="src/collections/raw_vec.rs", group="RawVec"),
    Fn("shrink_to_fit", "rawvec", "st", file="src/collections/raw_vec.rs", group="RawVec", lean="rv_shrink_to_fit"),
    Fn("reserve_internal", "rawvec", "st", file="src/collections/raw_vec.rs", group="RawVec", lean="rv_reserve_internal"),
    Fn("reserve_internal_or_error", "rawvec", "st", file="src/collections/raw_vec.rs", group="RawVec"),
    Fn("reserve_internal_or_panic", "rawvec", "st", file="src/collections/raw_vec.rs", group="RawVec"),
    Fn("fallible_reserve_internal", "rawvec", "st", file="src/collections/raw_vec.rs", group="RawVec"),
    Fn("infallible_reserve_internal", "rawvec", "st", file="src/collections/raw_vec.rs", group="RawVec"),
    Fn("try_reserve_exact", "rawvec", "st", file="src/collections/raw_vec.rs", group="RawVec", lean="rv_try_reserve_exact"),
    Fn("reserve_exact", "rawvec", "st", file="src/collections/raw_vec.rs", group="RawVec", lean="rv_reserve_exact"),
    Fn("try_reserve", "rawvec", "st", file="src/collections/raw_vec.rs", group="RawVec", lean="rv_try_reserve"),
    Fn("reserve", "rawvec", "st", file="src/collections/raw_vec.rs", group="RawVec", lean="rv_reserve"),
]
VEC_RS = "src/collections/vec.rs"
VEC_IMPL = "impl<'bump, T: 'bump> Vec<'bump, T> {"
FUNCS += [
    Fn("len", "vec", "read", file=VEC_RS, group="Vec", anchor=VEC_IMPL, lean="vec_len"),
    Fn("capacity", "vec", "read", file=VEC_RS, group="Vec", anchor=VEC_IMPL, lean="vec_capacity"),
    Fn("is_empty", "vec", "read", file=VEC_RS, group="Vec", anchor=VEC_IMPL, lean="vec_is_empty"),
    Fn("set_len", "vec", "st", file=VEC_RS, group="Vec", anchor=VEC_IMPL, lean="vec_set_len"),
    Fn("reserve", "vec", "st", file=VEC_RS, group="Vec", anchor=VEC_IMPL, lean="vec_reserve"),
    Fn("reserve_exact", "vec", "st", file=VEC_RS, group="Vec", anchor=VEC_IMPL, lean="vec_reserve_exact"),
    Fn("try_reserve", "vec", "st", file=VEC_RS, group="Vec", anchor=VEC_IMPL, lean="vec_try_reserve"),
    Fn("try_reserve_exact", "vec", "st", file=VEC_RS, group="Vec", anchor=VEC_IMPL, lean="vec_try_reserve_exact"),
    Fn("new_in", "rvctor", "pure", file=VEC_RS, group="Vec", anchor=VEC_IMPL, lean="vec_new_in", ret=VSVAL),
    Fn("with_capacity_in", "rvctor", "pure", file=VEC_RS, group="Vec", anchor=VEC_IMPL, lean="vec_with_capacity_in", ret=VSVAL),
    Fn("shrink_to_fit", "vec", "st", file=VEC_RS, group="Vec", anchor=VEC_IMPL, lean="vec_shrink_to_fit"),
    Fn("push", "vec", "st", file=VEC_RS, group="Vec", anchor=VEC_IMPL, lean="vec_push"),
    Fn("pop", "vec", "st", file=VEC_RS, group="Vec", anchor=VEC_IMPL, lean="vec_pop"),
    Fn("insert", "vec", "st", file=VEC_RS, group="Vec", anchor=VEC_IMPL, lean="vec_insert"),
    Fn("remove", "vec", "st", file=VEC_RS, group="Vec", anchor=VEC_IMPL, lean="vec_remove"),
    Fn("swap_remove", "vec", "st", file=VEC_RS, group="Vec", anchor=VEC_IMPL, lean="vec_swap_remove"),
]
FUNCS += [
    Fn("increment_len", "guard", "pure", file=VEC_RS, group="Vec", anchor="impl<'a> SetLenOnDrop<'a>", lean="slod_increment_len",
       self_fields=[("local_len", "usize")]),
    Fn("decrement_len", "guard", "pure", file=VEC_RS, group="Vec", anchor="impl<'a> SetLenOnDrop<'a>", lean="slod_decrement_len",
       self_fields=[("local_len", "usize")]),
    Fn("truncate", "vec", "st", file=VEC_RS, group="Vec", anchor=VEC_IMPL, lean="vec_truncate"),
    Fn("extend_with", "vec", "st", file=VEC_RS, group="Vec", lean="vec_extend_with"),
    Fn("partition_dedup_by", "vec", "st", file=VEC_RS, group="Vec", lean="vec_partition_dedup_by", ptypes={"same_bucket": CB2}),
    Fn("dedup_by", "vec", "st", file=VEC_RS, group="Vec", anchor=VEC_IMPL, lean="vec_dedup_by", ptypes={"same_bucket": CB2}),
    Fn("resize", "vec", "st", file=VEC_RS, group="Vec", lean="vec_resize"),
    Fn("clear", "vec", "st", file=VEC_RS, group="Vec", anchor=VEC_IMPL, lean="vec_clear"),
    Fn("append_elements", "vec", "st", file=VEC_RS, group="VecCopy", anchor=VEC_IMPL, lean="vec_append_elements", ptypes={"other": "xslice"}),
    Fn("extend_from_slice_copy_unchecked", "vec", "st", file=VEC_RS, group="VecCopy", lean="vec_extend_from_slice_copy_unchecked", ptypes={"other": "xslice"}),
    Fn("extend_from_slice_copy", "vec", "st", file=VEC_RS, group="VecCopy", lean="vec_extend_from_slice_copy", ptypes={"other": "xslice"}),
    Fn("extend", "vec", "st", file=VEC_RS, group="VecCopy", anchor="Extend<T> for Vec<'bump, T>", lean="vec_extend", ptypes={"iter": VIT}),
    Fn("from_iter_in", "vec", "st", file=VEC_RS, group="VecCopy", anchor=VEC_IMPL, lean="vec_from_iter_in", ptypes={"iter": VIT}, ret=UNIT),
    Fn("clone", "vec", "st", file=VEC_RS, group="VecCopy", anchor="Clone for Vec<'bump, T>", lean="vec_clone", ret=UNIT),
]
FUNCS[-1].builds_vec = True
FUNCS[-2].builds_vec = True
FUNCS[-1].returns_param = None
FUNCS += [
    Fn("dedup_by_key", "vec", "st", file=VEC_RS, group="VecCopy", anchor=VEC_IMPL, lean="vec_dedup_by_key", ptypes={"key": "keyfn"}),
    Fn("dedup", "vec", "st", file=VEC_RS, group="VecCopy", anchor="impl<'bump, T: 'bump + PartialEq> Vec<'bump, T>", lean="vec_dedup"),
    Fn("split_off", "vec", "st", file=VEC_RS, group="VecCopy", anchor=VEC_IMPL, lean="vec_split_off", ret=VSVAL),
    Fn("append", "vec", "st", file=VEC_RS, group="VecCopy", anchor=VEC_IMPL, lean="vec_append", ptypes={"other": OVECREF}, ret=VSVAL),
    Fn("extend_from_slice", "vec", "st", file=VEC_RS, group="VecCopy", lean="vec_extend_from_slice", ptypes={"other": "elemslice"}),
    Fn("write", "vec", "st", file=VEC_RS, group="VecCopy", anchor="io::Write for Vec<'bump, u8>", lean="vec_io_write", ptypes={"buf": "xslice"}, ret=res(NAT)),
    Fn("write_all", "vec", "st", file=VEC_RS, group="VecCopy", anchor="io::Write for Vec<'bump, u8>", lean="vec_io_write_all", ptypes={"buf": "xslice"}, ret=res(UNIT)),
    Fn("flush", "vec", "st", file=VEC_RS, group="VecCopy", anchor="io::Write for Vec<'bump, u8>", lean="vec_io_flush", ret=res(UNIT)),
    Fn("extend", "vec", "st", file=VEC_RS, group="VecCopy", anchor="Extend<&'a T> for Vec<'bump, T>", lean="vec_extend_refs", ptypes={"iter": ("esliceiter",)}),
]
for _f in FUNCS:
    if _f.lean == "vec_append":
        _f.returns_param = "other"
DRAIN_FIELDS = [("tail_start", "usize"), ("tail_len", "usize"), ("iter", "slice::Iter<'a,T>")]
FUNCS += [
    Fn("drain", "vec", "st", file=VEC_RS, group="VecDrain", anchor=VEC_IMPL, lean="vec_drain", ptypes={"range": ("tuple", [BD, BD])}),
    Fn("next", "drain", "st", file=VEC_RS, group="VecDrain", anchor="Iterator for Drain<'a, 'bump, T>", lean="drain_next", self_fields=DRAIN_FIELDS),
    Fn("next_back", "drain", "st", file=VEC_RS, group="VecDrain", anchor="DoubleEndedIterator for Drain<'a, 'bump, T>", lean="drain_next_back",
       self_fields=DRAIN_FIELDS),
    Fn("drop", "drain", "st", file=VEC_RS, group="VecDrain", anchor="Drop for Drain<'a, 'bump, T>", lean="drain_drop", self_fields=DRAIN_FIELDS),
]
DF_FIELDS = [("idx", "usize"), ("del", "usize"), ("old_len", "usize"), ("pred__calls", ("ty", NAT)), ("panic_flag", "bool")]
FUNCS += [
    Fn("drain_filter", "vec", "st", file=VEC_RS, group="VecFilter", anchor=VEC_IMPL, lean="vec_drain_filter", ptypes={"filter": CB1}),
    Fn("next", "dfilter", "st", file=VEC_RS, group="VecFilter", anchor="Iterator for DrainFilter", lean="df_next", self_fields=DF_FIELDS),
    Fn("drop", "dfilter", "st", file=VEC_RS, group="VecFilter", anchor="Drop for BackshiftOnDrop", lean="df_backshift_drop", self_fields=DF_FIELDS),
    Fn("drop", "dfilter", "st", file=VEC_RS, group="VecFilter", anchor="Drop for DrainFilter", lean="df_drop", self_fields=DF_FIELDS),
    Fn("retain", "vec", "st", file=VEC_RS, group="VecFilter", anchor=VEC_IMPL, lean="vec_retain", ptypes={"f": CB1}),
]
FUNCS[-3].self_prefix = "drain"
FUNCS[-4].moves_out = False
II_FIELDS = [("ptr", ("ty", SLOT)), ("end", ("ty", SLOT))]
FUNCS += [
    Fn("into_iter", "vec", "st", file=VEC_RS, group="VecIntoIter", anchor="IntoIterator for Vec<'bump, T>", lean="vec_into_iter"),
    Fn("next", "intoiter", "st", file=VEC_RS, group="VecIntoIter", anchor="Iterator for IntoIter<'bump, T>", lean="intoiter_next", self_fields=II_FIELDS),
    Fn("next_back", "intoiter", "st", file=VEC_RS, group="VecIntoIter", anchor="DoubleEndedIterator for IntoIter<'bump, T>", lean="intoiter_next_back",
       self_fields=II_FIELDS),
    Fn("drop", "intoiter", "st", file=VEC_RS, group="VecIntoIter", anchor="Drop for IntoIter<'bump, T>", lean="intoiter_drop", self_fields=II_FIELDS),
    Fn("size_hint", "intoiter", "pure", file=VEC_RS, group="VecIntoIter", anchor="Iterator for IntoIter<'bump, T>", lean="intoiter_size_hint", self_fields=II_FIELDS, ret=("tuple", [NAT, opt(NAT)])),
    Fn("size_hint", "dfilter", "pure", file=VEC_RS, group="VecFilter", anchor="Iterator for DrainFilter", lean="df_size_hint", self_fields=DF_FIELDS, ret=("tuple", [NAT, opt(NAT)])),
]
for _f in FUNCS:
    if _f.lean in ("drain_next", "drain_next_back", "intoiter_next", "intoiter_next_back"):
        _f.moves_out = False
FUNCS += [
    Fn("alloc_layout", "bump", "st", group="Glue"),
    Fn("set_allocation_limit", "bump", "st", group="Glue"),
    Fn("min_align", "bump", "read", group="Glue"),
    Fn("alloc", "allocimpl", "st", group="Glue", anchor="alloc::Alloc for", lean="alloc_alloc"),
    Fn("dealloc", "allocimpl", "st", group="Glue", anchor="alloc::Alloc for", lean="alloc_dealloc"),
    Fn("realloc", "allocimpl", "st", group="Glue", anchor="alloc::Alloc for", lean="alloc_realloc"),
    Fn("allocate", "allocatorimpl", "st", group="Glue", anchor="Allocator for &'a Bump", lean="allocator_allocate"),
    Fn("deallocate", "allocatorimpl", "st", group="Glue", anchor="Allocator for &'a Bump", lean="allocator_deallocate"),
    Fn("shrink", "allocatorimpl", "st", group="Glue", anchor="Allocator for &'a Bump", lean="allocator_shrink"),
    Fn("grow", "allocatorimpl", "st", group="Glue", anchor="Allocator for &'a Bump", lean="allocator_grow"),
    Fn("grow_zeroed", "allocatorimpl", "st", group="Glue", anchor="Allocator for &'a Bump", lean="allocator_grow_zeroed"),
]
FN = {f.name: f for f in FUNCS}
FN_LEAN = {f.lean: f for f in FUNCS}
# names that exist on several receivers: the table is per receiver kind
FN_BY_KIND = {}
for f in FUNCS:
    FN_BY_KIND.setdefault((f.kind, f.name), f)      # the first row of a name is the one calls resolve to

# functions of the crate that are *not* translated but called by translated ones: mapped to the hand model
EXTERNAL = {
    # name: (lean function, mode, return type)
    "alloc_layout_slow": ("Rs.alloc_layout_slow", "st", opt(NAT)),
}
# RawVec: `reserve_internal` (realloc through the arena, assignment of `ptr`/`cap`) is not translated; its callers reach
# the hand model `V.reserveInternal`
EXTERNAL_RV = {
    "reserve_internal": ("RsV.reserve_internal", "st", res2(UNIT)),
}


class Env:
    """rust variable -> (lean name, type); `scope` lists every Lean binder visible on the current lexical path"""
    def __init__(self, d=None, used=None, scope=None, owned=None):
        self.d = dict(d or {})
        self.used = used if used is not None else set()
        self.scope = list(scope or [])
        # lean names of the locals that currently own a value of the element type (dropped when the frame unwinds)
        self.owned = list(owned or [])

    def copy(self):
        return Env(self.d, self.used, self.scope, self.owned)

    def own(self, ln):
        e = self.copy()
        e.owned.append(ln)
        return e

    def disown(self, ln):
        e = self.copy()
        e.owned = [x for x in e.owned if x != ln]
        return e

    def guards(self):
        return [x[1] for x in self.owned if isinstance(x, tuple) and x[0] not in ("iter", "vecval")]

    def fresh(self, name):
        name = name.replace("self.", "self_")
        base = name + "_" if name in RESERVED else name
        n, i = base, 0
        while n in self.used:
            i += 1; n = f"{base}_{i}"
        self.used.add(n)
        return n

    def bind(self, name, ty):
        e = self.copy()
        ln = self.fresh(name)
        e.d[name] = (ln, ty)
        e.scope.append((ln, ty))
        return e, ln

    def restrict_to(self, outer):
        """leave an inner scope: keep the current bindings of the variables the outer scope knows"""
        e = Env({k: self.d[k] for k in outer.d if k in self.d}, self.used, self.scope, self.owned)
        return e


class K:
    """continuation: f(term, type, env) -> lean text; `trivial` continuations are cheap to duplicate"""
    def __init__(self, f, trivial=False):
        self.f, self.trivial = f, trivial

    def __call__(self, term, ty, env):
        return self.f(term, ty, env)


class Tr:
    def __init__(self, fn, sig, body):
        self.fn, self.sig, self.body = fn, sig, body
        self.mode = fn.mode
        self.nj = 0
        self.ret = fn.ret if fn.ret is not None else rust_ty(sig["ret"])
        self.st = fn.mode == "st"
        self.lifted = []
        # soundness guard for chunk-typed locals: a `let f = self.current_chunk_footer.get()` is a *pointer* in the source
        # but a snapshot of the footer's fields here; reading a mutable field (finger, allocated_bytes) through such a
        # local is only translated while no state-changing call happened since it was bound
        self.version = 0
        self.next_version = 1
        self.chunk_ver = {}
        self.gens = {}          # lean name of a `iter::from_fn(|| …)` local -> the closure body
        self.no_join = 0        # inside a loop body continuations are duplicated instead of lifted (a lifted join function
                                # that calls the loop again would need mutual recursion on the fuel)
        self.in_closure = 0     # inside a translated closure body `return` / `?` would leave the closure, not the function
        self.ret_override = None
        # the threaded state: the arena model's `s : St`, or for RawVec methods the vector `v : V.VS`
        if fn.kind == "rawvec":
            self.sv, self.sty, self.bindS, self.pureS = "v", "V.VS", "RsV.bindV", "RsV.pureV"
        elif fn.kind in VECK:
            self.sv, self.sty, self.bindS, self.pureS = "s", "RsM.VW", "RsM.bindW", "RsM.pureW"
        else:
            self.sv, self.sty, self.bindS, self.pureS = "s", "St", "bindO", "pureO"
        if fn.kind == "rvctor":
            self.lead, self.lead_names = ["(c : V.Cfg)"], ["c"]
        elif fn.kind == "dfilter":
            self.lead, self.lead_names = ["(c : V.Cfg)", "(pred : Nat → V.Elem → Option Bool)"], ["c", "pred"]
        elif fn.kind in ("rawvec",) + VECK:
            self.lead, self.lead_names = ["(c : V.Cfg)"], ["c"]
        elif fn.kind in ("bump", "chunk", "assocst", "iter", "allocimpl", "allocatorimpl"):
            self.lead, self.lead_names = ["(E M : Nat)"], ["E", "M"]
        elif fn.kind == "assoc":
            self.lead, self.lead_names = ["(M : Nat)"], ["M"]
        else:
            self.lead, self.lead_names = [], []

    # ---- outcome plumbing ----------------------------------------------------------------------------------
    def ret_lean_ty(self):
        t = self.ret
        inner = lean_ty(t[1]) if isinstance(t, tuple) and t[0] == "res" else lean_ty(t)
        if self.fn.kind in KEEPK:
            inner = f"(Except Unit {inner})"
        if self.fn.self_fields and not self.ret_override:
            inner = "(" + " × ".join([inner] + [lean_ty(ftype(ft)) for _, ft in self.fn.self_fields]) + ")"
        return f"{self.sty} × Outcome {inner}" if self.st else f"Outcome {inner}"

    def wrap(self, outcome):
        return f"({self.sv}, {outcome})" if self.st else outcome

    def bad(self, why):
        return self.wrap(f'Outcome.bad "{self.fn.name}: {why}"')

    def keep_fields(self, env):
        """in methods whose receiver fields are reported on every exit, a join point receives the current fields (a branch may
        have changed them through a call rather than an assignment)"""
        if self.fn.kind not in KEEPK:
            return []
        return ["self." + f for f, _ in self.fn.self_fields if ("self." + f) in env.d]

    def recv_is_vec(self, recv, env):
        """is this receiver expression the vector itself (`self` in a `Vec` method, `self.vec.as_mut()` or a local bound to
        it in a method of one of its iterator structs)?"""
        if self.fn.kind not in VECK:
            return False
        try:
            p = self.pure(recv, env)
        except Untranslatable:
            return False
        return p is not None and p[1] == VECSELF

    def cleanup(self, env):
        """the frame's drop glue as a function of the state (None when the frame owns nothing)"""
        if env is None or not env.owned:
            return None
        t = self.sv
        for ln in reversed(env.owned):     # newest first
            if isinstance(ln, tuple) and ln[0] == "guardfn":      # a guard whose destructor is a translated function
                finals = [env.d["self." + f][0] for f, _ in self.fn.self_fields]
                t = f"(RsM.stateOf (Gen.Fn.df_backshift_drop c pred {' '.join(finals)} {t}))"
            elif isinstance(ln, tuple) and ln[0] == "vecval":    # a vector under construction: `Drop for Vec` (its elements, its buffer)
                t = f"(RsM.drop_vec c {t})"
            elif isinstance(ln, tuple) and ln[0] == "iter":      # an iterator held by value: dropping it drops what it still owns
                t = f"(RsM.it_drop c {env.d[ln[1]][0]} {t})"
            elif isinstance(ln, tuple):      # a `SetLenOnDrop` guard: its destructor stores the length it carries
                t = f"(RsM.store_len {env.d[ln[1]][0]} {t})"
            else:
                t = f"(RsM.drop_elem c {ln} {t})"
        return t

    def panic(self, env=None):
        if self.fn.kind in KEEPK:
            if env is None:
                raise Untranslatable("a panic whose frame is not known")
            finals = [env.d["self." + f][0] for f, _ in self.fn.self_fields]
            return f"({self.cleanup(env) or self.sv}, Outcome.ok (Except.error (), {', '.join(finals)}))"
        cl = self.cleanup(env)
        if cl is not None:
            return f"({cl}, Outcome.panic)"
        return self.wrap("Outcome.panic")

    def RET(self, term, ty, env):
        """return `term` (of rust type `ty`) from the function"""
        if isinstance(self.ret, tuple) and self.ret[0] == "res":
            if not (isinstance(ty, tuple) and ty[0] in ("res", "opt")):
                raise Untranslatable(f"return of non-Result value {term} : {ty}")
            m = re.fullmatch(r"\(some (.*)\)", term)
            if m and balanced(m.group(1)):
                return self.wrap(f"Outcome.ok {paren(m.group(1))}")
            if term == "none":
                return self.wrap("Outcome.err")
            return f"(match {term} with | some v_ => {self.wrap('Outcome.ok v_')} | none => {self.wrap('Outcome.err')})"
        if ty == "never":
            return term
        val = term
        if self.fn.self_fields and not self.in_closure:
            finals = [env.d["self." + f][0] for f, _ in self.fn.self_fields]
            val = f"({'Except.ok ' + paren(term) if self.fn.kind in KEEPK else term}, {', '.join(finals)})"
        if self.fn.kind in VECK and self.fn.moves_out and ty == ELEM:
            return f"(RsM.moved {term} {self.sv}, Outcome.ok {val})"
        if self.fn.kind in VECK and self.fn.moves_out and ty == opt(ELEM):
            m = re.fullmatch(r"\(some (.*)\)", term)
            if m and balanced(m.group(1)):
                return f"(RsM.moved {paren(m.group(1))} {self.sv}, Outcome.ok {val})"
            if term == "none":
                return self.wrap(f"Outcome.ok {val}")
            if val != term:
                raise Untranslatable("return of an optional element together with receiver fields")
            return f"(match {term} with | some e_ => (RsM.moved e_ {self.sv}, Outcome.ok (some e_)) | none => {self.wrap('Outcome.ok none')})"
        if self.fn.self_fields and not self.in_closure:
            return self.wrap(f"Outcome.ok {val}")
        if isinstance(self.ret, tuple) and self.ret[0] == "res2":
            if isinstance(ty, tuple) and ty[0] == "res2":
                return self.wrap(f"Outcome.ok {paren(term)}")
            m = re.fullmatch(r"\(some (.*)\)", term)
            if isinstance(ty, tuple) and ty[0] == "res" and m and balanced(m.group(1)):
                return self.wrap(f"Outcome.ok (Except.ok {paren(m.group(1))})")
            raise Untranslatable(f"return of {term} : {ty} from a function returning Result<_, CollectionAllocErr>")
        return self.wrap(f"Outcome.ok {term}")

    def RET_END(self, t, ty, env):
        """the function's value is ready: the locals that still own a value (and are not the value returned) are dropped,
        newest first; a destructor that panics unwinds through the rest"""
        if self.fn.kind not in VECK:
            return self.RET(t, ty, env)
        for ln in list(env.owned):
            if not isinstance(ln, tuple) and re.search(r"(?<![A-Za-z0-9_.'])%s(?![A-Za-z0-9_'])" % re.escape(ln), t):
                env = env.disown(ln)
        if getattr(self.fn, "returns_param", None) and ty == UNIT:
            t, ty = env.d[self.fn.returns_param][0], VSVAL
        if ty == VECSELF and any(isinstance(x, tuple) and x[0] == "vecval" for x in env.owned):
            env = env.copy()
            env.owned = [x for x in env.owned if not (isinstance(x, tuple) and x[0] == "vecval")]     # moved out to the caller
            t, ty = "()", UNIT
        if any(isinstance(x, tuple) and x[0] == "vecval" for x in env.owned):
            raise Untranslatable("a vector under construction is neither returned nor dropped explicitly")
        order = [x for x in reversed(env.owned) if not isinstance(x, tuple) or x[0] == "iter"]
        if env.guards():
            raise Untranslatable("a drop guard is live at the end of the function")

        def go(j, e):
            if j == len(order):
                return self.RET(t, ty, e)
            e2 = e.disown(order[j])
            if isinstance(order[j], tuple):
                return self.bind_call(f"RsM.it_drop_end c {e.d[order[j][1]][0]}", "st", K(lambda t_, ty_, e3: go(j + 1, e3)), e2, UNIT)
            return self.bind_call(f"RsM.drop_local c {order[j]}", "st", K(lambda t_, ty_, e3: go(j + 1, e3)), e2, UNIT)
        return go(0, env)

    def bind_call(self, call, callee_mode, k, env, ty, footers=True, nopanic=False):
        """call = lean application without the state argument; result bound to a fresh name.
        footers=False: a primitive that changes no footer field (global allocator call, memory copy)"""
        env2, v = env.bind("r", ty)
        if self.fn.kind in KEEPK and callee_mode == "st" and not nopanic:
            self.bump_version()
            handler = self.panic(env)
            body = k(v, ty, env2)
            return f"(RsM.bindK ({call} {self.sv}) (fun {self.sv} => {handler}) fun {self.sv} {v} =>\n{body})"
        cl = None if nopanic or callee_mode != "st" else self.cleanup(env)
        if cl is not None:
            self.bump_version()
            body = k(v, ty, env2)
            return f"(RsM.bindU ({call} {self.sv}) (fun {self.sv} => {cl}) fun {self.sv} {v} =>\n{body})"
        if callee_mode == "st" and footers:
            self.bump_version()
        if ty == CHUNK:
            self.chunk_ver[v] = self.version
        body = k(v, ty, env2)
        if callee_mode in ("pure", "read"):
            if self.st:
                return f"({self.pureS} {self.sv} ({call}) fun {self.sv} {v} =>\n{body})"
            return f"(Rs.bindP ({call}) fun {v} =>\n{body})"
        if not self.st:
            raise Untranslatable(f"{self.fn.name} is translated without state but calls the stateful {call}")
        return f"({self.bindS} ({call} {self.sv}) fun {self.sv} {v} =>\n{body})"

    def bump_version(self):
        self.version = self.next_version
        self.next_version += 1

    def check(self, cond, why, rest, asserting=False, env=None):
        return f"(if {cond} then\n{rest}\nelse {self.panic(env) if asserting else self.bad(why)})"

    # ---- join points ---------------------------------------------------------------------------------------
    def join(self, k, ty, env, mutated, nbranches):
        """returns (prefix, k') where k' calls a join function when the continuation would be duplicated.
        Join functions are lambda-lifted: emitted as top-level definitions `f.k_n` that take every binder in
        scope as a parameter (so theorems can be stated about them)."""
        if k.trivial or nbranches <= 1 or self.no_join or getattr(self, "branch_moves", False):
            return "", k
        self.nj += 1
        name = f"{self.fn.lean}.k_{self.nj}"
        envj = env.copy()
        captured = [(ln, t) for ln, t in env.scope if lean_ty_ok(t)]
        params = [f"({ln} : {lean_ty(t)})" for ln, t in captured]
        vname = None
        if ty != UNIT:
            envj, vname = envj.bind("jv", ty)
            params.append(f"({vname} : {lean_ty(ty)})")
        for m in mutated:
            mty = env.d[m][1]
            envj, ln = envj.bind(m, mty)
            params.append(f"({ln} : {lean_ty(mty)})")
        if self.st or self.mode == "read":
            params.append(f"({self.sv} : {self.sty})")
        saved_version = self.version
        self.bump_version()
        body = k(vname if ty != UNIT else "()", ty, envj)
        self.version = saved_version
        self.lifted.append(f"def {name} {' '.join(self.lead)} {' '.join(params)} : {self.ret_lean_ty()} :=\n{indent(body)}\n")
        lead_args = " ".join(self.lead_names)
        cap_args = " ".join(ln for ln, _ in captured)

        def call(term, t, e):
            args = []
            if ty != UNIT:
                args.append(paren(term))
            for m in mutated:
                args.append(e.d[m][0])
            if self.st or self.mode == "read":
                args.append(self.sv)
            return f"(Gen.Fn.{name} {lead_args} {cap_args} {' '.join(args)})"
        return "", K(call, trivial=True)

    # ---- pure terms ----------------------------------------------------------------------------------------
    def const(self, segs):
        n = segs[-1]
        if n == "MIN_ALIGN": return "M", NAT
        if n in CONSTS: return f"Gen.{n}", NAT
        if segs[-2:] == ["usize", "MAX"]: return "USIZE_MAX", NAT
        if segs[-2:] == ["isize", "MAX"]: return "ISIZE_MAX", NAT
        return None

    def pure(self, e, env):
        """(term, type) when `e` is total and effect-free, else None"""
        k = e[0]
        if k == "int": return str(e[1]), NAT
        if k == "bool": return ("true" if e[1] else "false"), BOOL
        if k in ("paren", "ref", "deref", "unsafe_"):
            return self.pure(e[1], env)
        if k == "path":
            segs = e[1]
            if len(segs) == 1 and segs[0] in env.d:
                return env.d[segs[0]]
            if segs == ["self"]:
                if self.fn.kind in ("iter", "guard") + ITERK:
                    return "self", "selfstruct"
                if self.fn.kind == "rawvec":
                    return "v", RAWVEC
                if self.fn.kind == "vec" and "self" in env.d:
                    return env.d["self"]
                if self.fn.kind == "vec":
                    return "self", VECSELF
                return "self", BUMP if self.fn.kind != "chunk" else CHUNK
            if self.fn.file.endswith("raw_vec.rs") and len(segs) == 1:
                table = {"CapacityOverflow": ("V.RErr.capOverflow", RERR), "Exact": ("Rs.Strategy.exact", STRATEGY),
                         "Amortized": ("Rs.Strategy.amortized", STRATEGY), "Fallible": ("Rs.Fallibility.fallible", FALLIB),
                         "Infallible": ("Rs.Fallibility.infallible", FALLIB), "AllocErr": ("V.RErr.allocErr", RERR)}
                if segs[0] in table:
                    return table[segs[0]]
            c = self.const(segs)
            if c: return c
            if segs[-1] == "None": return "none", opt("?")
            if segs == ["AllocErr"] or segs == ["AllocError"]: return "()", "err"
            if segs == ["EMPTY_CHUNK"]: return "(emptyChunk E)", CHUNK
            if segs == ["PhantomData"]: return "()", UNIT
            if segs[0] == "Ordering" and len(segs) == 2:
                return {"Less": "Ordering.lt", "Equal": "Ordering.eq", "Greater": "Ordering.gt"}[segs[1]], ORD
            return None
        if k == "cast":
            p = self.pure(e[1], env)
            if p is None: return None
            t, ty = p
            tt = e[2].replace(" ", "")
            if ty == CHUNK and tt in ("*mutu8", "*constu8", "usize"):
                return f"{paren(t)}.footer", NAT
            if ty == CHUNK: return t, CHUNK
            if ty == NAT and "ChunkFooter" in tt:
                return None
            if ty == SLOT and tt == "usize":
                return t, NAT       # a slot index (for zero-sized elements: the counter the pointer stands for)
            return t, ty
        if k == "un" and e[1] == "!":
            p = self.pure(e[2], env)
            if p is None: return None
            t, ty = p
            if ty == BOOL: return f"(!{t})", BOOL
            if ty == NAT: return f"(Rs.bnot {t})", NAT
            return None
        if k == "bin":
            op = e[1]
            a, b = self.pure(e[2], env), self.pure(e[3], env)
            if a is None or b is None: return None
            (ta, tya), (tb, tyb) = a, b
            if op in ("==", "!=", "<", ">", "<=", ">="):
                if tya == CHUNK and tyb == CHUNK:
                    ta, tb = f"{paren(ta)}.footer", f"{paren(tb)}.footer"
                elif tya == CHUNK and tyb == NAT:
                    ta = f"{paren(ta)}.footer"
                elif tya == NAT and tyb == CHUNK:
                    tb = f"{paren(tb)}.footer"
                elif not (tya == tyb and tya in (NAT, BOOL, SLOT)):
                    return None
                lop = {"==": "==", "!=": "!=", "<": "<", ">": ">", "<=": "≤", ">=": "≥"}[op]
                if op in ("==", "!="):
                    return f"({ta} {lop} {tb})", BOOL
                return f"(decide ({ta} {lop} {tb}))", BOOL
            if op in ("&&", "||") and tya == BOOL and tyb == BOOL:
                return f"({ta} {op} {tb})", BOOL
            if op == "&" and tya == NAT and tyb == NAT:
                return f"(Rs.band {ta} {tb})", NAT
            if op == "|" and tya == NAT and tyb == NAT:
                return f"(Rs.bor {ta} {tb})", NAT
            if op in ("/", "%") and tya == NAT and e[3][0] == "int" and e[3][1] != 0:
                return f"({ta} {op} {tb})", NAT
            return None
        if k == "field":
            p = self.pure(e[1], env)
            if p is None: return None
            t, ty = p
            f = e[2]
            if ty == BUMP:
                if f == "current_chunk_footer": return "(s.a.cur E)", ("cell", CHUNK)
                if f == "allocation_limit": return "s.a.limit", ("cell", opt(NAT))
                return None
            if ty == CHUNK:
                m = {"ptr": ("ptr", ("cell", NAT)), "data": ("data", NAT), "allocated_bytes": ("ab", NAT)}
                if f in ("ptr", "allocated_bytes", "prev") and re.fullmatch(r"[A-Za-z_][A-Za-z0-9_]*", t) \
                        and self.chunk_ver.get(t, self.version) != self.version:
                    raise Untranslatable(f"read of the mutable field `{f}` through the local `{t}` after the arena state changed "
                                         "(the local is a pointer in the source, a snapshot here)")
                if f == "prev": return t, CELLPREV
                if f in m: return f"{paren(t)}.{m[f][0]}", m[f][1]
                if f == "layout": return f"(Rs.Layout.mk {paren(t)}.size {paren(t)}.align)", LAYOUT
                return None
            if ty == DETAILS:
                m = {"new_size_without_footer": "nswf", "size": "size", "align": "align"}
                if f in m: return f"{paren(t)}.{m[f]}", NAT
                return None
            if ty == "static" and f == "0": return t, CHUNK
            if ty == RAWVEC and f == "cap": return f"{paren(t)}.cap", NAT
            if ty == RAWVEC and f == "a": return "()", UNIT      # the `&Bump` the buffer lives in
            if ty == VECSELF and f == "len": return f"{self.sv}.1.len", NAT
            if ty == VECSELF and f == "buf": return f"{self.sv}.1", RAWVEC
            if ty == VECSNAP and f == "buf": return t, RAWVEC
            if ty == "selfstruct" and ("self." + f) in env.d: return env.d["self." + f]
            if ty == "selfstruct" and f == "vec" and self.fn.kind in ("drain", "dfilter"): return "self", VECSELF
            if ty == "selfstruct" and self.fn.self_prefix and f == self.fn.self_prefix: return "self", "selfstruct"
            if ty == BACKSHIFT and f == "drain": return "self", "selfstruct"
            if ty == "selfstruct" and f == "phantom": return "()", UNIT
            if isinstance(ty, tuple) and ty[0] == "tuple" and f in ("0", "1"):
                return f"{paren(t)}.{int(f) + 1}", ty[1][int(f)]
            return None
        if k == "mcall":
            p = self.pure(e[1], env)
            if p is None: return None
            t, ty = p
            name, args = e[2], e[3]
            if isinstance(ty, tuple) and ty[0] in ("opt", "res") and name == "map_err" and len(args) == 1 and args[0][0] == "closure":
                cb = self.pure(args[0][2], env)
                if cb is not None and cb[1] == RERR:
                    return f"(Rs.okOr {t} {cb[0]})", res2(ty[1])
                return t, res(ty[1])
            if ty == SLOT and name == "offset" and len(args) == 1:
                a = args[0]
                if a[0] == "int":
                    return f"({t} + {a[1]})", SLOT
                if a[0] == "un" and a[1] == "-" and a[2][0] == "int":
                    return f"({t} - {a[2][1]})", SLOT
                return None
            pa = [self.pure(a, env) for a in args]
            if any(x is None for x in pa): return None
            if isinstance(ty, tuple) and ty[0] == "cell" and name == "get" and not args:
                return t, ty[1]
            if ty == CELLPREV and name == "get" and not args:
                return f"(Rs.chunk_prev E {self.sv} {paren(t)})", CHUNK
            if ty == VECSELF and name in ("as_mut", "as_ref") and not args:
                return t, VECSELF
            if isinstance(ty, tuple) and ty == ("tuple", [BD, BD]) and name in ("start_bound", "end_bound") and not args:
                return f"{paren(t)}.{1 if name == 'start_bound' else 2}", BD
            if ty == SLICE and name in ("iter", "iter_mut") and not args:
                return f"({paren(t)}.1, {paren(t)}.1 + {paren(t)}.2)", ITER2
            if ty == VECSELF and name in ("as_slice", "as_mut_slice") and not args:
                return f"(0, {self.sv}.1.len)", SLICE
            if ty == SLICE and name == "len" and not args:
                return f"{paren(t)}.2", NAT
            if ty in (VSVAL, OVECREF) and name == "len" and not args:
                return f"{paren(t)}.len", NAT
            if ty == OVECREF and name == "as_slice" and not args:
                return f"({paren(t)}.slots.take {paren(t)}.len)", XSLICE
            if ty == VECSNAP and name == "len" and not args:
                return f"{paren(t)}.len", NAT
            if ty == ESLICE and name == "iter" and not args:
                return t, ("esliceiter",)
            if ty == ("esliceiter",) and name == "cloned" and not args:
                return f"(V.It.cloned {paren(t)})", VIT
            if ty == VECSNAP and name == "iter" and not args:
                return t, ("snapiter",)
            if ty == ("snapiter",) and name == "cloned" and not args:
                return f"(V.It.cloned {paren(t)}.owned)", VIT
            if ty == VIT and name == "into_iter" and not args:
                return t, VIT
            if ty == ("esliceiter",) and name == "into_iter" and not args:
                return t, ty
            if ty == VIT and name == "size_hint" and not args:
                return f"({paren(t)}.hintLo, ())", ("tuple", [NAT, UNIT])
            if ty == XSLICE and name == "len" and not args:
                return f"{paren(t)}.length", NAT
            if ty == XSLICE and name == "as_ptr" and not args:
                return t, XSLICE      # the pointer to its first element stands for the slice
            if ty == SLICE and name in ("as_ptr", "as_mut_ptr") and not args:
                return f"{paren(t)}.1", SLOT
            if ty == VECSELF and name in ("as_ptr", "as_mut_ptr") and not args:
                return "0", SLOT       # a pointer into the buffer is the index of the slot it points at
            if ty == RAWVEC and name == "ptr" and not args and self.fn.kind in VECK:
                return "0", SLOT
            if ty == VECSELF and name in ("get_unchecked", "get_unchecked_mut") and len(pa) == 1 and pa[0][1] == NAT:
                return pa[0][0], SLOT
            if ty == SLOT and name == "add" and len(pa) == 1 and pa[0][1] == NAT:
                return (pa[0][0] if t == "0" else f"({t} + {pa[0][0]})"), SLOT
            if ty in (NAT, CHUNK) and name in ("as_ptr", "as_ref", "as_mut", "get", "as_non_null_ptr") and not args:
                return t, ty
            if ty == UNIT and name in ("cast", "into") and not args and self.fn.kind == "rawvec":
                return t, UNIT      # the buffer's address is not part of the vector model
            if ty == CHUNK and name == "cast" and not args:
                return f"{paren(t)}.footer", NAT
            if ty == NAT and name == "cast" and not args:
                return t, NAT
            if ty == NAT and name == "is_null" and not args:
                return f"({t} == 0)", BOOL
            if ty == LAYOUT and name in ("size", "align") and not args:
                return f"{paren(t)}.{name}", NAT
            if ty == NAT and len(pa) == 1 and pa[0][1] == NAT:
                b = pa[0][0]
                table = {"max": f"(max {t} {b})", "min": f"(min {t} {b})", "saturating_sub": f"({t} - {b})",
                         "wrapping_sub": f"(wsub {t} {b})", "wrapping_add": f"(Rs.wadd {t} {b})",
                         "saturating_add": f"(Rs.sadd {t} {b})", "abs_diff": f"(Rs.absDiff {t} {b})",
                         "checked_add": None, "checked_sub": None, "checked_mul": None}
                if name in ("checked_add", "checked_sub", "checked_mul"):
                    f = {"checked_add": "checkedAdd", "checked_sub": "Rs.checkedSub", "checked_mul": "checkedMul"}[name]
                    return f"({f} {t} {b})", opt(NAT)
                if name == "cmp":
                    return f"(compare {t} {b})", ORD
                if name in table and table[name]:
                    return table[name], NAT
                return None
            if ty == NAT and name == "is_power_of_two" and not args:
                return f"(isPow2 {t})", BOOL
            if isinstance(ty, tuple) and ty[0] in ("opt", "res"):
                if name == "is_some" and not args: return f"{paren(t)}.isSome", BOOL
                if name == "is_none" and not args: return f"{paren(t)}.isNone", BOOL
                if name == "is_ok" and not args: return f"{paren(t)}.isSome", BOOL
                if name == "is_err" and not args: return f"{paren(t)}.isNone", BOOL
                if name == "ok" and not args: return t, opt(ty[1])
                if name == "ok_or" and len(pa) == 1 and pa[0][1] == RERR: return f"(Rs.okOr {t} {pa[0][0]})", res2(ty[1])
                if name == "ok_or" and len(pa) == 1: return t, res(ty[1])
                if name == "unwrap_or" and len(pa) == 1: return f"({paren(t)}.getD {pa[0][0]})", ty[1]
                if name == "map_err" and len(args) == 1: return t, res(ty[1])
            return None
        if k == "call":
            f = e[1]
            if f[0] != "path": return None
            segs, args = f[1], e[2]
            pa = [self.pure(a, env) for a in args]
            if any(x is None for x in pa): return None
            n = segs[-1]
            if n in ("size_of<T>", "align_of<T>") and not pa and self.fn.kind in ("rawvec", "rvctor") + VECK:
                return ("c.esz" if n.startswith("size") else "c.eal"), NAT
            if n == "size_of<usize>" and not pa:
                return "8", NAT
            if n == "Err" and len(pa) == 1 and pa[0][1] == RERR:
                return f"(Except.error {pa[0][0]})", res2("?")
            if n in ("Some", "Ok") and len(pa) == 1:
                t, ty = pa[0]
                return f"(some {t})", (opt(ty) if n == "Some" else res(ty))
            if n == "Err" and len(pa) == 1:
                return "none", res("?")
            if segs[-1] in ("slice_from_raw_parts_mut", "slice_from_raw_parts") and len(pa) == 2 and pa[0][1] == NAT and pa[1][1] == NAT:
                return f"({pa[0][0]}, {pa[1][0]})", ("tuple", [NAT, NAT])
            if segs[-1] == "arith_offset" and len(pa) == 2 and pa[0][1] == SLOT and pa[1][1] == NAT:
                # byte-wise stepping of a pointer to a zero-sized type: one "byte" per element, the index moves
                return (pa[1][0] if pa[0][0] == "0" else f"({pa[0][0]} + {pa[1][0]})"), SLOT
            if segs[-2:] == ["mem", "forget"] and len(pa) == 1 and pa[0][1] == VECSELF:
                return "()", UNIT       # the vector's destructor does not run (it has none: the buffer stays in the arena)
            if segs[-2:] == ["mem", "zeroed"] and not pa and self.fn.kind in VECK:
                return "RsM.zst_any", ELEM     # a value of a zero-sized type made up from nothing
            if segs[-1] in ("from_raw_parts_mut", "from_raw_parts") and len(pa) == 2 and pa[0][1] == NAT and pa[1][1] == NAT:
                return f"({pa[0][0]}, {pa[1][0]})", ("tuple", [NAT, NAT])
            if segs[-1] in ("from_raw_parts_mut", "from_raw_parts") and len(pa) == 2 and pa[0][1] == SLOT and pa[1][1] == NAT:
                return f"({pa[0][0]}, {pa[1][0]})", SLICE
            if segs[-1] == "dangling" and not pa and self.fn.kind == "rvctor":
                return "([] : List (Option V.Elem))", BUF
            if segs == ["ExtendElement"] and len(pa) == 1 and pa[0][1] == ELEM:
                return pa[0][0], EXTW
            if segs[-2:] == ["SetLenOnDrop", "new"] and len(pa) == 1 and self.fn.kind == "vec" and args[0] == ("ref", ("field", ("path", ["self"]), "len")):
                # the guard starts with the vector's current length and stores what it carries when its scope ends
                return pa[0][0], GUARD
            if segs[-2:] == ["NonNull", "new_unchecked"] and len(pa) == 1: return pa[0]
            if segs[-2:] == ["Cell", "new"] and len(pa) == 1: return pa[0]
            if segs[-2:] == ["NonNull", "new"] and len(pa) == 1 and pa[0][1] == NAT:
                return f"(Rs.nonNullNew {pa[0][0]})", opt(NAT)
            if segs[-2:] == ["NonNull", "from"] and len(pa) == 1: return pa[0]
            if segs[-2:] == ["ptr", "eq"] and len(pa) == 2 and pa[0][1] == CHUNK and pa[1][1] == CHUNK:
                return f"({paren(pa[0][0])}.footer == {paren(pa[1][0])}.footer)", BOOL
            if segs[-2:] == ["cmp", "max"] and len(pa) == 2: return f"(max {pa[0][0]} {pa[1][0]})", NAT
            if segs[-2:] == ["cmp", "min"] and len(pa) == 2: return f"(min {pa[0][0]} {pa[1][0]})", NAT
            if segs[-2:] == ["Layout", "from_size_align"] and len(pa) == 2:
                return f"(Rs.layoutFromSizeAlign {pa[0][0]} {pa[1][0]})", res(LAYOUT)
            if segs[-2:] == ["EMPTY_CHUNK", "get"] and not pa: return "(emptyChunk E)", CHUNK
            if segs[-2:] == ["Layout", "from_size_align_unchecked"] and len(pa) == 2:
                return f"(Rs.Layout.mk {pa[0][0]} {pa[1][0]})", LAYOUT
            if segs[-2:] == ["Layout", "array<T>"] and len(pa) == 1 and self.fn.kind == "rawvec":
                return f"(RsV.layoutArray c {pa[0][0]})", res(LAYOUT)
            return None
        if k == "mcall_static":
            return None
        if k == "struct":
            segs, fs = e[1], e[2]
            if segs[-1] == "NewChunkMemoryDetails":
                d = {}
                for f, fe in fs:
                    p = self.pure(fe, env)
                    if p is None: return None
                    d[f] = p[0]
                if set(d) != {"new_size_without_footer", "size", "align"}: return None
                return f"(Details.mk {d['new_size_without_footer']} {d['align']} {d['size']})", DETAILS
            if segs[-1] == "BackshiftOnDrop" and len(fs) == 1 and fs[0] == ("drain", ("path", ["self"])) and self.fn.kind == "dfilter":
                return "()", BACKSHIFT
            if segs[-1] == "DrainFilter":
                d = {}
                for f, fe in fs:
                    p = self.pure(fe, env)
                    if p is None: return None
                    d[f] = p
                if set(d) != {"vec", "idx", "del", "old_len", "pred", "panic_flag"} or d["vec"][1] != VECSELF or d["pred"][1] != CB1:
                    return None
                return f"(V.DF.mk {d['idx'][0]} {d['del'][0]} {d['old_len'][0]} 0 {d['panic_flag'][0]})", DFSTRUCT
            if segs[-1] == "IntoIter":
                d = {}
                for f, fe in fs:
                    p = self.pure(fe, env)
                    if p is None: return None
                    d[f] = p
                if set(d) != {"phantom", "ptr", "end"} or d["ptr"][1] != SLOT or d["end"][1] != SLOT:
                    return None
                return f"({d['ptr'][0]}, {d['end'][0]})", ("tuple", [SLOT, SLOT])
            if segs[-1] == "Drain":
                d = {}
                for f, fe in fs:
                    p = self.pure(fe, env)
                    if p is None: return None
                    d[f] = p
                if set(d) != {"tail_start", "tail_len", "iter", "vec"} or d["iter"][1] != ITER2 or d["vec"][1] != VECSELF:
                    return None
                return f"(V.Drain.mk {d['tail_start'][0]} {d['tail_len'][0]} {paren(d['iter'][0])}.1 {paren(d['iter'][0])}.2)", DRAIN
            if segs[-1] == "RawVec" and self.fn.kind == "rvctor":
                d = {}
                for f, fe in fs:
                    p = self.pure(fe, env)
                    if p is None: return None
                    d[f] = p
                if set(d) != {"ptr", "cap", "a"} or d["ptr"][1] != BUF or d["cap"][1] != NAT:
                    return None
                return f"(V.VS.mk {d['ptr'][0]} 0 {d['cap'][0]})", VSVAL
            if segs[-1] == "Vec" and self.fn.kind == "rvctor":
                d = {}
                for f, fe in fs:
                    p = self.pure(fe, env)
                    if p is None: return None
                    d[f] = p
                if set(d) != {"buf", "len"} or d["buf"][1] != VSVAL or d["len"][1] != NAT:
                    return None
                return f"{{ {d['buf'][0]} with len := {d['len'][0]} }}", VSVAL
            if segs[-1] in ("ChunkRawIter", "ChunkIter") and len(fs) == 2:
                d = {}
                for f, fe in fs:
                    p = self.pure(fe, env)
                    if p is None: return None
                    d[f] = p
                key = "footer" if segs[-1] == "ChunkRawIter" else "raw"
                if set(d) != {key, "bump"} or d[key][1] != CHUNK:
                    return None
                return d[key][0], CHUNK      # the iterator is the footer it stands at
            if segs[-1] == "Bump":
                d = {}
                for f, fe in fs:
                    p = self.pure(fe, env)
                    if p is None: return None
                    d[f] = p
                if set(d) != {"current_chunk_footer", "allocation_limit"} or d["current_chunk_footer"][1] != CHUNK:
                    return None
                return f"(Rs.mkArena E M {paren(d['current_chunk_footer'][0])} {paren(d['allocation_limit'][0])})", BUMP
            if segs[-1] == "ChunkFooter":
                d = {}
                for f, fe in fs:
                    p = self.pure(fe, env)
                    if p is None: return None
                    d[f] = p
                if set(d) != {"data", "layout", "prev", "ptr", "allocated_bytes"} or d["layout"][1] != LAYOUT or d["prev"][1] != CHUNK:
                    return None
                # the `prev` link is not a field of the model's chunk: the chain is the arena's list (see Rs.set_current_footer)
                return (f"(Chunk.mk {d['data'][0]} {paren(d['layout'][0])}.size {paren(d['layout'][0])}.align "
                        f"{d['ptr'][0]} {d['allocated_bytes'][0]})"), CHUNK
            return None
        if k == "macro" and e[1] == "matches":
            scrut, pat, guard = e[2]
            p = self.pure(scrut, env)
            if p is None: return None
            t, ty = p
            env2, lp = self.pattern(pat, ty, env)
            g = ("true", BOOL) if guard is None else self.pure(guard, env2)
            if g is None: return None
            return f"(match {t} with | {lp} => {g[0]} | _ => false)", BOOL
        if k == "array" and not e[1]:
            return "(0, 0)", SLICE      # `&mut []`
        if k == "tuple" and not e[1]:
            return "()", UNIT
        if k == "tuple" and len(e[1]) == 2:
            ps = [self.pure(x, env) for x in e[1]]
            if any(x is None for x in ps): return None
            return f"({ps[0][0]}, {ps[1][0]})", ("tuple", [ps[0][1], ps[1][1]])
        return None

    def pattern(self, pat, ty, env):
        k = pat[0]
        if k == "pwild": return env, "_"
        if k == "ptuple" and not pat[1] and ty == UNIT: return env, "()"
        if k == "pid":
            env2, ln = env.bind(pat[1], ty)
            return env2, ln
        if k == "pref": return self.pattern(pat[1], ty, env)
        if k == "plit": return env, str(pat[1])
        if k == "pts":
            n = pat[1][-1]
            if n in ("Some", "Ok") and isinstance(ty, tuple) and ty[0] in ("opt", "res") and len(pat[2]) == 1:
                env2, lp = self.pattern(pat[2][0], ty[1], env)
                return env2, f"some {lp}"
            if n == "Err" and isinstance(ty, tuple) and ty[0] == "res":
                return env, "none"
            if ty == BD and n in ("Included", "Excluded") and len(pat[2]) == 1:
                env2, lp = self.pattern(pat[2][0], NAT, env)
                return env2, f".{'inc' if n == 'Included' else 'exc'} {lp}"
            if n == "Ok" and isinstance(ty, tuple) and ty[0] == "res2" and len(pat[2]) == 1:
                env2, lp = self.pattern(pat[2][0], ty[1], env)
                return env2, f".ok {lp}"
            if n == "Err" and isinstance(ty, tuple) and ty[0] == "res2" and len(pat[2]) == 1:
                env2, lp = self.pattern(pat[2][0], RERR, env)
                return env2, f".error {lp}"
        if k == "ppath":
            n = pat[1][-1]
            if n == "None": return env, "none"
            if ty == BD and n == "Unbounded": return env, ".unb"
            if ty == ORD and n in ("Less", "Equal", "Greater"):
                return env, {"Less": ".lt", "Equal": ".eq", "Greater": ".gt"}[n]
            if ty == RERR and n in ("CapacityOverflow", "AllocErr"):
                return env, {"CapacityOverflow": ".capOverflow", "AllocErr": ".allocErr"}[n]
            if ty == STRATEGY and n in ("Exact", "Amortized"):
                return env, "." + n.lower()
            if ty == FALLIB and n in ("Fallible", "Infallible"):
                return env, "." + n.lower()
        raise Untranslatable(f"pattern {pat} on {ty}")

    # ---- CPS translation of expressions --------------------------------------------------------------------
    def E(self, e, env, k):
        p = self.pure(e, env)
        if p is not None:
            return k(p[0], p[1], env)
        kind = e[0]
        if kind in ("paren", "ref", "deref"):
            return self.E(e[1], env, k)
        if kind == "unsafe":
            return self.B(e[1], env, k)
        if kind == "block":
            return self.B(e, env, k)
        if kind == "cast":
            def kc(t, ty, env_):
                tt = e[2].replace(" ", "")
                if ty == CHUNK and tt in ("*mutu8", "*constu8", "usize"):
                    return k(f"{paren(t)}.footer", NAT, env_)
                if ty == SLOT and tt == "usize":
                    return k(t, NAT, env_)       # a slot index (for zero-sized elements: the counter the pointer stands for)
                return k(t, ty, env_)
            return self.E(e[1], env, K(kc, k.trivial))
        if kind == "tuple" and len(e[1]) == 2:
            return self.E(e[1][0], env, K(lambda a, ta, e1: self.E(e[1][1], e1, K(lambda b, tb, e2: k(f"({a}, {b})", ("tuple", [ta, tb]), e2)))))
        if kind == "call" and e[1] == ("path", ["offset_from"]) and len(e[2]) == 2:
            # vec.rs `offset_from(p, origin)`: the distance in elements of two pointers into one buffer (slot indices)
            def ko(a, ta, e1):
                def ko2(b, tb, e2):
                    if ta != SLOT or tb != SLOT:
                        raise Untranslatable("offset_from of non-pointers")
                    return f"(if {b} ≤ {a} then\n{k(f'({a} - {b})', NAT, e2)}\nelse {self.bad('offset_from of a pointer below its origin')})"
                return self.E(e[2][1], e1, K(ko2))
            return self.E(e[2][0], env, K(ko))
        if kind == "call" and e[1] == ("path", ["Some"]) and len(e[2]) == 1 and self.pure(e[2][0], env) is None:
            return self.E(e[2][0], env, K(lambda a, ta, e1: k(f"(some {a})", opt(ta), e1)))
        if kind in ("try", "return") and self.in_closure:
            raise Untranslatable("`?` / `return` inside a closure")
        if kind in ("try", "return") and env.guards():
            raise Untranslatable("`?` / `return` while a drop guard is live")
        if kind == "for":
            return self.FOR(e, env, k)
        if kind == "foriter":
            return self.FOR_IT(e, env, k)
        if kind == "while":
            return self.WHILE_K(e, env, k) if self.fn.kind in KEEPK else self.WHILE(e, env, k)
        if kind == "try":
            def kt(t, ty, env_):
                if isinstance(ty, tuple) and ty[0] == "res2":
                    env2, v = env_.bind("x", ty[1])
                    env3, ev = env_.bind("e", RERR)
                    err_ret = self.RET(f"(Except.error {ev})", res2("?"), env3)
                    return f"(match {t} with\n| .error {ev} => {err_ret}\n| .ok {v} =>\n{k(v, ty[1], env2)})"
                if not (isinstance(ty, tuple) and ty[0] in ("opt", "res")):
                    raise Untranslatable(f"`?` on {ty}")
                env2, v = env_.bind("x", ty[1])
                if ty[0] == "res" and isinstance(self.ret, tuple) and self.ret[0] == "res2":
                    # `From<AllocErr> for CollectionAllocErr`
                    none_ret = self.RET("(Except.error V.RErr.allocErr)", res2("?"), env_)
                    return f"(match {t} with\n| none => {none_ret}\n| some {v} =>\n{k(v, ty[1], env2)})"
                none_ret = self.RET("none", ty, env_)
                return f"(match {t} with\n| none => {none_ret}\n| some {v} =>\n{k(v, ty[1], env2)})"
            return self.E(e[1], env, K(kt))
        if kind == "return":
            if e[1] is None:
                return self.RET("()", UNIT, env)
            return self.E(e[1], env, K(lambda t, ty, env_: self.RET(t, ty, env_), True))
        if kind == "bin":
            op = e[1]
            if op in ("&&", "||"):
                def ka(ta, tya, env_):
                    pre, kj = self.join(k, BOOL, env_, [], 2)
                    rhs = self.E(e[3], env_, kj)
                    short = kj("false" if op == "&&" else "true", BOOL, env_)
                    if op == "&&":
                        return f"({pre}if {ta} then\n{rhs}\nelse {short})"
                    return f"({pre}if {ta} then {short} else\n{rhs})"
                return self.E(e[2], env, K(ka))

            def ka(ta, tya, env_):
                if mentions_state(ta, self.sv) and self.pure(e[3], env_) is None and lean_ty_ok(tya):
                    env_, ln = env_.bind("a", tya)
                    return f"let {ln} := {ta};\n" + ka(ln, tya, env_)

                def kb(tb, tyb, env2):
                    if tya != NAT or tyb != NAT:
                        raise Untranslatable(f"operator {op} on {tya}, {tyb}")
                    if op == "+":
                        return self.check(f"{ta} + {tb} < USIZE", "unchecked add wraps", k(f"({ta} + {tb})", NAT, env2))
                    if op == "-":
                        return self.check(f"{tb} ≤ {ta}", "unchecked sub wraps", k(f"({ta} - {tb})", NAT, env2))
                    if op == "*":
                        return self.check(f"{ta} * {tb} < USIZE", "unchecked mul wraps", k(f"({ta} * {tb})", NAT, env2))
                    if op in ("/", "%") and re.fullmatch(r"\d+", tb) and int(tb) != 0:
                        return k(f"({ta} {op} {tb})", NAT, env2)
                    if op in ("/", "%"):
                        return self.check(f"{tb} ≠ 0", "division by zero", k(f"({ta} {op} {tb})", NAT, env2), asserting=True)
                    pp = self.pure(("bin", op, ("path", ["__a"]), ("path", ["__b"])),
                                   Env({"__a": (ta, NAT), "__b": (tb, NAT)}))
                    if pp is None:
                        raise Untranslatable(f"operator {op}")
                    return k(pp[0], pp[1], env2)
                return self.E(e[3], env_, K(kb))
            return self.E(e[2], env, K(ka))
        if kind == "un":
            def ku(t, ty, env_):
                pp = self.pure(("un", e[1], ("path", ["__a"])), Env({"__a": (t, ty)}))
                if pp is None:
                    raise Untranslatable(f"unary {e[1]} on {ty}")
                return k(pp[0], pp[1], env_)
            return self.E(e[2], env, K(ku))
        if kind == "if":
            return self.IF(e, env, k)
        if kind == "iflet":
            return self.IFLET(e, env, k)
        if kind == "match":
            return self.MATCH(e, env, k)
        if kind == "macro":
            return self.MACRO(e, env, k)
        if kind == "call":
            return self.CALL(e, env, k)
        if kind == "mcall":
            return self.MCALL(e, env, k)
        if kind == "field":
            def kf(t, ty, env_):
                pp = self.pure(("field", ("path", ["__a"]), e[2]), Env({"__a": (t, ty)}))
                if pp is None:
                    raise Untranslatable(f"field .{e[2]} of {ty}")
                return k(pp[0], pp[1], env_)
            return self.E(e[1], env, K(kf))
        if kind == "index" and self.fn.kind in VECK and self.pure(e[1], env) is not None and self.pure(e[1], env)[1] == SLICE:
            base = self.pure(e[1], env)[0]

            def kis(t, ty, env_):
                if ty != NAT:
                    raise Untranslatable(f"index of type {ty}")
                return self.check(f"decide ({t} < {paren(base)}.2)", "index", k(f"({paren(base)}.1 + {t})", SLOT, env_), asserting=True, env=env_)
            return self.E(e[2], env, K(kis))
        if kind == "index" and self.recv_is_vec(e[1], env):
            # `self[i]` / `&mut self[i]`: the slice bounds check, then a pointer to slot i
            def kix(t, ty, env_):
                if ty != NAT:
                    raise Untranslatable(f"index of type {ty}")
                return self.check(f"decide ({t} < {self.sv}.1.len)", "index", k(t, SLOT, env_), asserting=True, env=env_)
            return self.E(e[2], env, K(kix))
        if kind == "struct":
            # evaluate fields left to right
            fs = e[2]

            def go(i, acc, env_):
                if i == len(fs):
                    d = dict(acc)
                    pp = self.pure(("struct", e[1], [(f, ("path", [f"__f{j}"])) for j, (f, _) in enumerate(fs)]),
                                   Env({f"__f{j}": (d[f][0], d[f][1]) for j, (f, _) in enumerate(fs)}))
                    if pp is None:
                        raise Untranslatable(f"struct literal {e[1]}")
                    return k(pp[0], pp[1], env_)
                return self.E(fs[i][1], env_, K(lambda t, ty, e2: go(i + 1, acc + [(fs[i][0], (t, ty))], e2)))
            return go(0, [], env)
        raise Untranslatable(f"expression form {kind}: {str(e)[:120]}")

    def args(self, args, env, kall):
        """evaluate arguments left to right; kall(list of (term, ty), env)"""
        def go(i, acc, env_):
            if i == len(args):
                return kall(acc, env_)

            def ki(t, ty, e2):
                # a term that reads the arena state must be bound before a later argument can change the state
                if mentions_state(t, self.sv) and any(self.pure(a, e2) is None for a in args[i + 1:]) and lean_ty_ok(ty):
                    e3, ln = e2.bind("a", ty)
                    return f"let {ln} := {t};\n{go(i + 1, acc + [(ln, ty)], e3)}"
                return go(i + 1, acc + [(t, ty)], e2)
            return self.E(args[i], env_, K(ki))
        return go(0, [], env)

    def IF(self, e, env, k):
        _, c, then, els = e
        mutated = sorted(assigned(then) | (assigned(els) if els else set()))
        mutated = [m for m in mutated if m in env.d] + self.keep_fields(env)

        def kc(tc, tyc, env_):
            nfall = int(falls(then)) + (int(falls(els)) if els is not None else 1)
            vty = self.value_type(then, env_) if els is not None else UNIT
            # a branch that mentions an owned local may move it: ownership then differs per branch (Rust's drop flags), so
            # the continuation is translated once per branch instead of being shared
            owned_rust = {r for r, (ln, _) in env_.d.items() if ln in env_.owned}
            self.branch_moves = bool(owned_rust & (mentioned(then) | (mentioned(els) if els is not None else set())))
            pre, kj = self.join(k, vty, env_, mutated, nfall)
            self.branch_moves = False
            kb = K(lambda t, ty, eb: kj(t, ty, eb.restrict_to(env_)), True)
            ver = self.version
            a = self.E(then, env_, kb)
            self.version = ver
            b = self.E(els, env_, kb) if els is not None else kj("()", UNIT, env_)
            return f"({pre}if {tc} then\n{a}\nelse\n{b})"
        return self.E(c, env, K(kc))

    def IFLET(self, e, env, k):
        _, pat, scrut, then, els = e
        mutated = sorted(assigned(then) | (assigned(els) if els else set()))
        mutated = [m for m in mutated if m in env.d] + self.keep_fields(env)

        def ks(ts, tys, env_):
            nfall = int(falls(then)) + (int(falls(els)) if els is not None else 1)
            env2, lp = self.pattern(pat, tys, env_)
            vty = self.value_type(then, env2) if els is not None else UNIT
            pre, kj = self.join(k, vty, env_, mutated, nfall)
            kb = K(lambda t, ty, eb: kj(t, ty, eb.restrict_to(env_)), True)
            ver = self.version
            a = self.E(then, env2, kb)
            self.version = ver
            b = self.E(els, env_, kb) if els is not None else kj("()", UNIT, env_)
            return f"({pre}match {ts} with\n| {lp} =>\n{a}\n| _ =>\n{b})"
        if scrut[0] == "tuple" and len(scrut[1]) == 2 and pat[0] == "ptuple" and len(pat[1]) == 2 and els is None and not falls(then):
            # `if let (P, Q) = (a, b) { diverge }`
            def k1(ta, tya, e1):
                def k2(tb, tyb, e2):
                    e3, lp1 = self.pattern(pat[1][0], tya, e2)
                    e4, lp2 = self.pattern(pat[1][1], tyb, e3)
                    a = self.E(then, e4, K(lambda t, ty, eb: "unreachable", True))
                    return f"(match {ta}, {tb} with\n| {lp1}, {lp2} =>\n{a}\n| _, _ =>\n{k('()', UNIT, e2)})"
                return self.E(scrut[1][1], e1, K(k2))
            return self.E(scrut[1][0], env, K(k1))
        return self.E(scrut, env, K(ks))

    def MATCH(self, e, env, k):
        _, scrut, arms = e
        mutated = set()
        for _, _, body in arms:
            mutated |= assigned(body)
        mutated = [m for m in sorted(mutated) if m in env.d] + self.keep_fields(env)

        def ks(ts, tys, env_):
            nfall = sum(int(falls(b)) for _, _, b in arms)
            vty = None
            out = []
            prep = []
            for pat, guard, body in arms:
                if guard is not None:
                    raise Untranslatable("match guard")
                env2, lp = self.pattern(pat, tys, env_)
                prep.append((env2, lp, body))
                if vty is None and falls(body):
                    vty = self.value_type(body, env2)
            pre, kj = self.join(k, vty or UNIT, env_, mutated, nfall)
            kb = K(lambda t, ty, eb: kj(t, ty, eb.restrict_to(env_)), True)
            ver = self.version
            for env2, lp, body in prep:
                self.version = ver
                out.append(f"| {lp} =>\n{self.E(body, env2, kb)}")
            return f"({pre}match {ts} with\n" + "\n".join(out) + ")"
        return self.E(scrut, env, K(ks))

    def value_type(self, e, env):
        """type of the value of a block/expression, found by a dry run"""
        box = []

        def kk(t, ty, env_):
            box.append(ty)
            return "_"
        saved, saved_l = self.nj, list(self.lifted)
        try:
            self.E(e, env.copy(), K(kk, True))
        finally:
            self.nj, self.lifted = saved, saved_l
        for t in box:
            if t != "never":
                return t
        return UNIT

    def MACRO(self, e, env, k):
        name, args = e[1], e[2]
        if name in ("debug_assert", "assert"):
            if len(args) == 1 and args[0] == ("bool", False):
                return self.bad("debug_assert!(false)") if name == "debug_assert" else self.panic()
            return self.E(args[0], env, K(lambda t, ty, env_: self.check(t, f"{name}!", k("()", UNIT, env_), asserting=(name == "assert"), env=env_)))
        if name in ("debug_assert_eq", "assert_eq", "debug_assert_ne", "assert_ne"):
            op = "==" if name.endswith("eq") else "!="
            return self.E(("bin", op, args[0], args[1]), env,
                          K(lambda t, ty, env_: self.check(t, f"{name}!", k("()", UNIT, env_), asserting=name.startswith("assert"), env=env_)))
        if name in ("panic", "unreachable", "unimplemented", "todo"):
            return self.panic()
        if name == "matches":
            scrut, pat, guard = args

            def ksm(t, ty, env_):
                env2, lp = self.pattern(pat, ty, env_)
                pre, kj = self.join(k, BOOL, env_, [], 2)
                kb = K(lambda tg, tyg, eg: kj(tg, BOOL, eg.restrict_to(env_)), True)
                ver = self.version
                hit = self.E(guard, env2, kb) if guard is not None else kj("true", BOOL, env_)
                self.version = ver
                return f"({pre}match {t} with\n| {lp} =>\n{hit}\n| _ => {kj('false', BOOL, env_)})"
            return self.E(scrut, env, K(ksm))
        raise Untranslatable(f"macro {name}!")

    def CALL(self, e, env, k):
        f, args = e[1], e[2]
        fe = f[1] if f[0] == "paren" else f
        if fe[0] == "field" and len(args) == 1:
            pf = self.pure(fe, env)
            if pf is not None and pf[1] == CB1:
                key = "self." + fe[2] + "__calls"

                def kcb1(pa, env_):
                    if pa[0][1] != SLOT:
                        raise Untranslatable("closure argument")
                    cnt = env_.d[key][0]
                    e2, ea = env_.bind("a", ELEM)
                    e2, cnt2 = e2.bind(key, NAT)
                    e3, r = e2.bind("r", BOOL)
                    self.bump_version()
                    # the call is counted before its answer is known: a panicking call has been made
                    return (f"(match RsM.read {paren(pa[0][0])} {self.sv} with\n| none => {self.bad('read of an uninitialised slot')}\n"
                            f"| some {ea} =>\nlet {cnt2} := {cnt} + 1;\n(match {pf[0]} {cnt} {ea} with\n| none => {self.panic(e2)}\n"
                            f"| some {r} =>\n{k(r, BOOL, e3)}))")
                return self.args(args, env, kcb1)
        if f[0] != "path":
            raise Untranslatable("call of a non-path")
        segs = f[1]
        n = segs[-1]
        if n in ("allocation_size_overflow", "oom", "capacity_overflow", "handle_alloc_error"):
            return self.panic()
        if segs[-1] == "unreachable_unchecked":
            return self.bad("unreachable_unchecked reached")
        if self.fn.kind == "rvctor" and segs == ["Alloc", "alloc"] and len(args) == 2:
            return self.E(args[1], env, K(lambda t, ty, env_: k(f"(RsV.arena_alloc_buf c {paren(t)}.size)", res(BUF), env_)))
        if self.fn.kind == "rvctor" and len(segs) == 2 and segs[0] == "RawVec" and ("rv_" + segs[1]) in FN_LEAN:
            g = FN_LEAN["rv_" + segs[1]]
            return self.args(args, env, lambda pa, env_: self.call_fn(g, None, [x for x in pa if x[1] != UNIT or x[0] != "()"] if False else pa, env_, k))
        if self.fn.kind == "rawvec" and segs == ["Alloc", "alloc"] and len(args) == 2:
            return self.E(args[1], env, K(lambda t, ty, env_: self.bind_call(f"RsV.arena_realloc c {paren(t)}.size", "st", k, env_, res(UNIT))))
        if self.fn.kind == "rawvec" and segs[-2:] == ["ptr", "write"] and len(args) == 2 and args[0] == ("path", ["self"]) \
                and args[1][0] == "call" and args[1][1] == ("path", ["RawVec", "new_in"]):
            return self.bind_call("RsV.reset_new", "st", k, env, UNIT)
        if n == "arith_offset" and len(args) == 2 and args[1][0] == "un" and args[1][1] == "-" and args[1][2][0] == "int":
            def kneg(t, ty, env_):
                if ty != SLOT:
                    raise Untranslatable("arith_offset of a non-pointer")
                return k(f"({t} - {args[1][2][1]})", SLOT, env_)
            return self.E(args[0], env, K(kneg))

        if len(segs) == 1 and segs[0] in env.d and env.d[segs[0]][1] == CB2 and len(args) == 2:
            cbn = segs[0]

            def kcb(pa, env_):
                if pa[0][1] != SLOT or pa[1][1] != SLOT:
                    raise Untranslatable("closure arguments")
                cnt = env_.d[cbn + "__calls"][0]
                e2, ea = env_.bind("a", ELEM)
                e2, eb = e2.bind("b", ELEM)
                e2, r = e2.bind("r", BOOL)
                e3, cnt2 = e2.bind(cbn + "__calls", NAT)
                self.bump_version()
                return (f"(match RsM.read {paren(pa[0][0])} {self.sv}, RsM.read {paren(pa[1][0])} {self.sv} with\n"
                        f"| some {ea}, some {eb} =>\n(match {env_.d[cbn][0]} {cnt} {ea} {eb} with\n| none => {self.panic(env_)}\n"
                        f"| some {r} =>\nlet {cnt2} := {cnt} + 1;\n{k(r, BOOL, e3)})\n| _, _ => {self.bad('read of an uninitialised slot')})")
            return self.args(args, env, kcb)

        def kall(pa, env_):
            if self.fn.kind in VECK and segs[-2:] == ["mem", "swap"] and len(pa) == 2 and pa[0][1] == SLOT and pa[1][1] == SLOT:
                return self.bind_call(f"RsM.swap {sp(pa)}", "st", k, env_, UNIT, nopanic=True)
            if self.fn.kind in VECK and len(segs) == 1 and ("vec", n) in FN_BY_KIND:
                return self.call_fn(FN_BY_KIND[("vec", n)], None, pa, env_, k)
            # constructor-like / pure functions whose arguments needed evaluation
            pp = self.pure(("call", f, [("path", [f"__a{i}"]) for i in range(len(pa))]),
                           Env({f"__a{i}": pa[i] for i in range(len(pa))}))
            if pp is not None:
                return k(pp[0], pp[1], env_)
            if self.fn.kind in VECK and segs[-2:] == ["ptr", "write"] and len(pa) == 2 and pa[0][1] == SLOT and pa[1][1] == ELEM:
                return self.bind_call(f"RsM.write c {sp(pa)}", "st", k, env_.disown(pa[1][0]), UNIT, nopanic=True)
            if self.fn.kind in VECK and segs[-2:] == ["ptr", "read"] and len(pa) == 1 and pa[0][1] == SLOT:
                e2, ln = env_.bind("x", ELEM)
                return (f"(match RsM.read {paren(pa[0][0])} {self.sv} with\n| none => {self.bad('read of an uninitialised slot')}\n"
                        f"| some {ln} =>\n{k(ln, ELEM, e2.own(ln))})")
            if self.fn.kind in VECK and segs[-2:] == ["ptr", "replace"] and len(pa) == 2 and pa[0][1] == SLOT and pa[1][1] == ELEM:
                e2, ln = env_.bind("old", ELEM)
                e3 = e2.disown(pa[1][0]).own(ln)
                inner = self.bind_call(f"RsM.write c {sp(pa)}", "st", K(lambda t_, ty_, e4: k(ln, ELEM, e4)), e3, UNIT, nopanic=True)
                return (f"(match RsM.read {paren(pa[0][0])} {self.sv} with\n| none => {self.bad('read of an uninitialised slot')}\n"
                        f"| some {ln} =>\n{inner})")
            if self.fn.kind in VECK and segs[-2:] == ["ptr", "copy"] and len(pa) == 3 and pa[0][1] == SLOT and pa[1][1] == SLOT:
                return self.bind_call(f"RsM.copy c {sp(pa)}", "st", k, env_, UNIT, nopanic=True)
            if self.fn.kind in VECK and segs[-2:] == ["ptr", "copy_nonoverlapping"] and len(pa) == 3 and pa[0][1] == XSLICE and pa[1][1] == SLOT:
                # from a slice outside the buffer (the caller guarantees it does not overlap the destination)
                return self.bind_call(f"RsM.copy_in c {sp(pa)}", "st", k, env_, UNIT, nopanic=True)
            if self.fn.kind in VECK and segs[-2:] == ["ptr", "copy_nonoverlapping"] and len(pa) == 3 and pa[0][1] == SLOT and pa[1][1] == SLOT:
                return self.bind_call(f"RsM.copy_nonoverlapping c {sp(pa)}", "st", k, env_, UNIT, nopanic=True)
            if self.fn.kind in VECK and segs[-2:] == ["ptr", "drop_in_place"] and len(pa) == 1 and pa[0][1] == SLOT:
                return self.bind_call(f'RsM.drop_in_place c "{self.fn.name}: drop of an uninitialised slot" {sp(pa)}', "st", k, env_, UNIT)
            if segs[-2:] == ["ptr", "copy_nonoverlapping"] and len(pa) == 3:
                return self.bind_call(f"Rs.copy_nonoverlapping {sp(pa)}", "st", k, env_, UNIT, footers=False)
            if segs == ["dealloc_chunk_list"] and len(pa) == 1 and pa[0][1] == CHUNKLIST:
                return self.bind_call(f"Rs.dealloc_chunk_list {sp(pa)}", "st", k, env_, UNIT)
            if segs[-2:] == ["ptr", "copy"] and len(pa) == 3:
                return self.bind_call(f"Rs.copy {sp(pa)}", "st", k, env_, UNIT, footers=False)
            if segs == ["alloc"] and len(pa) == 1 and pa[0][1] == LAYOUT:
                # the global allocator
                return self.bind_call(f"Rs.malloc E {sp(pa)}", "st", k, env_, NAT, footers=False)
            if segs[-2:] == ["ptr", "write"] and len(pa) == 2 and pa[0][1] == NAT and pa[1][1] == CHUNK:
                # writing a whole `ChunkFooter` value to an address: from here on that address *is* this footer
                return self.check(f"{paren(pa[1][0])}.footer = {pa[0][0]}", "footer written at an address that is not the end of its chunk",
                                  k(pa[1][0], CHUNK, env_))
            if len(segs) == 2 and segs[0] in ("Bump", "Bump<MIN_ALIGN>") and args and args[0] == ("path", ["self"]) and ("bump", n) in FN_BY_KIND \
                    and self.fn.kind in ("allocimpl", "allocatorimpl"):
                return self.call_fn(FN_BY_KIND[("bump", n)], None, pa[1:], env_, k)
            g = FN_BY_KIND.get(("free", n)) if len(segs) == 1 else ((FN_BY_KIND.get(("assoc", n)) or FN_BY_KIND.get(("assocst", n))) if segs[0] in ("Self", "Bump") else None)
            if g is not None:
                return self.call_fn(g, None, pa, env_, k)
            raise Untranslatable(f"call of {'::'.join(segs)}")
        return self.args(args, env, kall)

    def call_fn(self, g, recv, pa, env, k):
        if g.sig is None:
            raise Untranslatable(f"{g.name} is called but could not be translated itself")
        rty = g.ret if g.ret is not None else rust_ty(g.sig["ret"])
        lead = []
        if g.kind == "rvctor":
            lead = ["c"]
        elif g.kind == "dfilter":
            lead = ["c", "pred"]
        elif g.kind in ("rawvec",) + VECK:
            lead = ["c"]
        elif g.kind in ("bump", "chunk", "assocst", "iter", "allocimpl", "allocatorimpl"):
            lead = ["E", "M"]
        elif g.kind == "assoc":
            lead = ["M"]
        if g.kind == "chunk":
            lead.append(paren(recv))
        ptys = [g.param_ty(n_, t) for n_, t in g.sig["params"] if n_ != "self"]
        coerced = []
        for i, (t, ty) in enumerate(pa):
            if ty == CHUNK and i < len(ptys) and ptys[i] == NAT:
                coerced.append(f"{paren(t)}.footer")
            else:
                coerced.append(paren(t))
        call = " ".join([f"Gen.Fn.{g.lean}"] + lead + coerced)
        for t, ty in pa:
            if ty in (ELEM, EXTW) and t in env.owned:      # passed by value: the callee owns (and drops) it from here on
                env = env.disown(t)
            if ty == VIT:
                for mk in [x for x in env.owned if isinstance(x, tuple) and x[0] == "iter" and env.d.get(x[1], (None,))[0] == t]:
                    env = env.disown(mk)
        if g.mode == "read":
            call += " " + self.sv
        vty = rty
        if isinstance(rty, tuple) and rty[0] == "res":
            # callee yields Outcome T with .err: reify as an Option value
            call = f"Rs.reify ({call})" if g.mode != "st" else f"Rs.reifyS ({call})"
            if g.mode == "st":
                return self.bind_call_raw(call, k, env, vty)
        return self.bind_call(call, "pure" if g.mode in ("pure", "read") else "st", k, env, vty)

    def bind_call_raw(self, call, k, env, ty):
        env2, v = env.bind("r", ty)
        self.bump_version()
        return f"({self.bindS} ({call} {self.sv}) fun {self.sv} {v} =>\n{k(v, ty, env2)})"

    def LOOP(self, gen_ln, closure_b, env, k):
        """`iter::from_fn(A).filter_map(B).next()`: call A until it yields `None` (→ `None`) or B accepts what it yielded
        (→ `Some`).  A is an `FnMut` closure: the captured `let mut` locals it assigns are the loop state.  Emitted as a
        lambda-lifted function recursive on a fuel argument (65 halvings take any `usize` to 0; the bound is 70 as in the
        hand model and exhausting it is `bad`)."""
        body_a = self.gens[gen_ln]
        if closure_b[0] != "closure" or len(closure_b[1]) != 1:
            raise Untranslatable("filter_map argument")
        muts = [m for m in sorted(assigned(body_a)) if m in env.d]
        if assigned(closure_b[2]) & set(env.d):
            raise Untranslatable("filter_map closure assigns a captured local")
        self.nj += 1
        name = f"{self.fn.lean}.loop_{self.nj}"
        envl = env.copy()
        old_mut_names = [env.d[m][0] for m in muts]
        envl.scope = [(ln, t) for ln, t in envl.scope if ln not in old_mut_names]
        captured = [(ln, t) for ln, t in env.scope if lean_ty_ok(t) and ln not in old_mut_names]
        params = [f"({ln} : {lean_ty(t)})" for ln, t in captured]
        envl, fuel = envl.bind("fuel", NAT)
        envl, fuel1 = envl.bind("fuel", NAT)
        mut_params = []
        for m in muts:
            mty = env.d[m][1]
            envl, ln = envl.bind(m, mty)
            mut_params.append(f"({ln} : {lean_ty(mty)})")
        # item types by dry runs
        ty_a = self.value_type(body_a, envl)
        if not (isinstance(ty_a, tuple) and ty_a[0] == "opt"):
            raise Untranslatable(f"from_fn closure yields {ty_a}")
        envb0, bp = self.pattern(closure_b[1][0], ty_a[1], envl)
        ty_b = self.value_type(closure_b[2], envb0)
        if not (isinstance(ty_b, tuple) and ty_b[0] == "opt"):
            raise Untranslatable(f"filter_map closure yields {ty_b}")
        saved_ret, saved_version = self.ret, self.version
        self.ret = ty_b
        self.in_closure += 1
        self.no_join += 1
        self.bump_version()
        lead_args = " ".join(self.lead_names)
        cap_args = " ".join(ln for ln, _ in captured)

        def again(e):
            return f"(Gen.Fn.{name} {lead_args} {cap_args} {fuel1} {' '.join(e.d[m][0] for m in muts)} {self.sv})"

        def ka(ta, tya, ea):
            envb, lp = self.pattern(closure_b[1][0], ty_a[1], ea)

            def kb(tb, tyb, eb):
                eb2, y = eb.bind("y", ty_b[1])
                return f"(match {tb} with\n| some {y} => {self.RET(f'(some {y})', ty_b, eb2)}\n| none => {again(eb)})"
            inner = self.E(closure_b[2], envb, K(kb))
            return f"(match {ta} with\n| none => {self.RET('none', ty_b, ea)}\n| some {lp} =>\n{inner})"
        body = self.E(body_a, envl, K(ka))
        loop_ret = self.ret_lean_ty()
        self.ret, self.version = saved_ret, saved_version
        self.in_closure -= 1
        self.no_join -= 1
        self.lifted.append(
            f"def {name} {' '.join(self.lead)} {' '.join(params)} ({fuel} : Nat) {' '.join(mut_params)} ({self.sv} : {self.sty}) : {loop_ret} :=\n"
            + indent(f"(match {fuel} with\n| 0 => {self.bad('candidate loop does not terminate')}\n| {fuel1} + 1 =>\n{body})") + "\n")
        call = f"Gen.Fn.{name} {lead_args} {cap_args} 70 {' '.join(env.d[m][0] for m in muts)}"
        # the loop state is consumed: the locals it mutated are not visible afterwards
        env2 = env.copy()
        for m in muts:
            del env2.d[m]
        return self.bind_call(call, "st", k, env2, ty_b)

    def FOR_IT(self, e, env, k):
        """`for x in iter { body }` over an iterator the frame owns: `loop { match iter.next() { None => break, Some(x) => body } }`.
        A lambda-lifted function recursive on fuel (what the iterator can still yield + 1) that returns the iterator as the loop
        leaves it; `next` panicking, or a panic in the body, runs the frame's drop glue there (the iterator as advanced so far
        included), so the call site does not run it again.  The element is owned by the loop variable."""
        _, pat, it, body = e
        if pat[0] != "pid" or it[0] != "path" or len(it[1]) != 1 or it[1][0] not in env.d or env.d[it[1][0]][1] != VIT:
            raise Untranslatable("`for` over this value")
        if ("iter", it[1][0]) not in env.owned:
            raise Untranslatable("`for` over an iterator the frame does not own")
        itn = it[1][0]
        muts = sorted((assigned(body) | guard_calls(body)) & set(env.d))
        if muts:
            raise Untranslatable("loop body rebinds locals")
        self.nj += 1
        name = f"{self.fn.lean}.loop_{self.nj}"
        cur_it = env.d[itn][0]
        captured = [(ln, t) for ln, t in env.scope if lean_ty_ok(t) and ln != cur_it]
        envl = env.copy()
        envl.scope = [(ln, t) for ln, t in envl.scope if ln != cur_it]
        envl, fuel = envl.bind("fuel", NAT)
        envl, fuel1 = envl.bind("fuel", NAT)
        envl, it0 = envl.bind(itn, VIT)
        env1, it1 = envl.bind(itn, VIT)
        env2, x = env1.bind(pat[1], ELEM)
        env2 = env2.own(x)
        lead_args = " ".join(self.lead_names)
        cap_args = " ".join(ln for ln, _ in captured)
        saved_version = self.version
        self.no_join += 1
        self.bump_version()
        again = K(lambda t, ty, e_: f"(Gen.Fn.{name} {lead_args} {cap_args} {fuel1} {e_.d[itn][0]} {self.sv})")
        inner_body = self.E(body, env2, K(lambda t, ty, e_: self.DROP_LOCALS_THEN(e_, env1, again)))
        inner = (f"(match RsM.it_next c {it0} {self.sv} with\n| ({self.sv}, {it1}, none) => {self.panic(env1)}\n"
                 f"| ({self.sv}, {it1}, some none) => ({self.sv}, Outcome.ok {it1})\n| ({self.sv}, {it1}, some (some {x})) =>\n{inner_body})")
        self.no_join -= 1
        self.version = saved_version
        params = [f"({ln} : {lean_ty(t)})" for ln, t in captured]
        self.lifted.append(
            f"def {name} {' '.join(self.lead)} {' '.join(params)} ({fuel} : Nat) ({it0} : V.It) ({self.sv} : {self.sty}) : {self.sty} × Outcome V.It :=\n"
            + indent(f"(match {fuel} with\n| 0 => {self.bad('loop fuel exhausted')}\n| {fuel1} + 1 =>\n{inner})") + "\n")
        call = f"Gen.Fn.{name} {lead_args} {cap_args} ({cur_it}.remaining + 1) {cur_it}"

        def kafter(r, ty_, e2):
            e3, ln = e2.bind(itn, VIT)
            return f"let {ln} := {r};\n" + k("()", UNIT, e3)
        return self.bind_call(call, "st", K(kafter), env, VIT, nopanic=True)

    def DROP_LOCALS_THEN(self, e_inner, e_outer, k):
        """end of a loop body: element locals the body still owns are dropped (newest first), then `k`"""
        extra = [x for x in reversed(e_inner.owned) if x not in e_outer.owned and not isinstance(x, tuple)]

        def go(j, e):
            if j == len(extra):
                e2 = e.restrict_to(e_outer)
                e2.owned = [x for x in e.owned if x in e_outer.owned]
                return k("()", UNIT, e2)
            e2 = e.disown(extra[j])
            return self.bind_call(f"RsM.drop_local c {extra[j]}", "st", K(lambda t_, ty_, e3: go(j + 1, e3)), e2, UNIT)
        return go(0, e_inner)

    def FOR(self, e, env, k):
        """`for _ in lo..hi { body }`: a lambda-lifted function, structurally recursive on the number of iterations left,
        that returns the final values of the locals the body rebinds.  A panic inside the body runs the whole frame's
        drop glue there (with the values current at that point), so the call site does not run it again."""
        _, pat, (_, lo, hi), body = e
        if pat[0] != "pwild":
            raise Untranslatable("`for` with a loop variable")
        if not self.st:
            raise Untranslatable("loop in a function translated without state")
        plo, phi = self.pure(lo, env), self.pure(hi, env)
        if plo is None or phi is None or plo[1] != NAT or phi[1] != NAT:
            raise Untranslatable("range bounds")
        muts = sorted((assigned(body) | guard_calls(body)) & set(env.d))
        for m in muts:
            if not lean_ty_ok(env.d[m][1]):
                raise Untranslatable(f"loop state {m} : {env.d[m][1]}")
        self.nj += 1
        name = f"{self.fn.lean}.loop_{self.nj}"
        old_mut_names = [env.d[m][0] for m in muts]
        captured = [(ln, t) for ln, t in env.scope if lean_ty_ok(t) and ln not in old_mut_names]
        envl = env.copy()
        envl.scope = [(ln, t) for ln, t in envl.scope if ln not in old_mut_names]
        envl, n = envl.bind("n", NAT)
        envl, n1 = envl.bind("n", NAT)
        mut_params = []
        for m in muts:
            envl, ln = envl.bind(m, env.d[m][1])
            mut_params.append(f"({ln} : {lean_ty(env.d[m][1])})")
        tys = [lean_ty(env.d[m][1]) for m in muts]
        rty = "Unit" if not muts else (tys[0] if len(muts) == 1 else "(" + " × ".join(tys) + ")")

        def pack(e_):
            vals = [e_.d[m][0] for m in muts]
            return "()" if not vals else (vals[0] if len(vals) == 1 else "(" + ", ".join(vals) + ")")
        lead_args = " ".join(self.lead_names)
        cap_args = " ".join(ln for ln, _ in captured)
        saved_version = self.version
        self.in_closure += 1
        self.no_join += 1
        self.bump_version()
        inner = self.E(body, envl, K(lambda t, ty, e_: f"(Gen.Fn.{name} {lead_args} {cap_args} {n1} {' '.join(e_.d[m][0] for m in muts)} {self.sv})"))
        self.in_closure -= 1
        self.no_join -= 1
        self.version = saved_version
        params = [f"({ln} : {lean_ty(t)})" for ln, t in captured]
        self.lifted.append(
            f"def {name} {' '.join(self.lead)} {' '.join(params)} ({n} : Nat) {' '.join(mut_params)} ({self.sv} : {self.sty}) : {self.sty} × Outcome {rty} :=\n"
            + indent(f"(match {n} with\n| 0 => ({self.sv}, Outcome.ok {pack(envl)})\n| {n1} + 1 =>\n{inner})") + "\n")
        call = f"Gen.Fn.{name} {lead_args} {cap_args} ({phi[0]} - {plo[0]}) {' '.join(env.d[m][0] for m in muts)}"

        def kafter(r, ty_, e2):
            lines, e3 = [], e2
            for j, m in enumerate(muts):
                e3, ln = e3.bind(m, env.d[m][1])
                proj = r if len(muts) == 1 else (f"{r}.{j + 1}" if j < len(muts) - 1 or len(muts) == 1 else f"{r}" + ".2" * j)
                if len(muts) > 1:
                    proj = r + "".join(".2" for _ in range(j)) + (".1" if j < len(muts) - 1 else "")
                lines.append(f"let {ln} := {proj};")
            return "\n".join(lines) + ("\n" if lines else "") + k("()", UNIT, e3)
        return self.bind_call(call, "st", K(kafter), env, ("tuple", [env.d[m][1] for m in muts]) if len(muts) > 1 else (env.d[muts[0]][1] if muts else UNIT), nopanic=True)

    def FOR_EACH_DROP(self, env, k):
        """`self.for_each(drop)` in the destructor of an iterator struct: `while let Some(x) = self.next() { drop(x) }`.
        A lambda-lifted function recursive on fuel (2^64), calling the translated `next` of the same struct; the receiver's
        fields are the loop state.  A destructor that panics unwinds out of the loop (the frame owns nothing else)."""
        g = FN_BY_KIND.get((self.fn.kind, "next"))
        if g is None or g.sig is None:
            raise Untranslatable("for_each(drop): the struct's `next` is not translated")
        fields = [f for f, _ in self.fn.self_fields]
        tys = [ftype(ft) for _, ft in self.fn.self_fields]
        self.nj += 1
        name = f"{self.fn.lean}.loop_{self.nj}"
        envl = env.copy()
        envl, fuel = envl.bind("fuel", NAT)
        envl, fuel1 = envl.bind("fuel", NAT)
        params, cur = [], []
        for f, t in zip(fields, tys):
            envl, ln = envl.bind("self." + f, t)
            params.append(f"({ln} : {lean_ty(t)})")
            cur.append(ln)
        rty = "(" + " × ".join(lean_ty(t) for t in tys) + ")"
        envl, r = envl.bind("r", NAT)
        envl, x = envl.bind("x", ELEM)
        proj = [f"{r}" + "".join(".2" for _ in range(j + 1)) + (".1" if j < len(fields) - 1 else "") for j in range(len(fields))]
        body = (f"(RsM.bindW (Gen.Fn.{g.lean} c {' '.join(cur)} {self.sv}) fun {self.sv} {r} =>\n(match {r}.1 with\n"
                f"| none => ({self.sv}, Outcome.ok ({', '.join(proj)}))\n"
                f"| some {x} =>\n(RsM.bindW (RsM.drop_local c {x} {self.sv}) fun {self.sv} _ =>\n"
                f"(Gen.Fn.{name} c {fuel1} {' '.join(paren(p) for p in proj)} {self.sv}))))")
        self.lifted.append(
            f"def {name} (c : V.Cfg) ({fuel} : Nat) {' '.join(params)} ({self.sv} : {self.sty}) : {self.sty} × Outcome {rty} :=\n"
            + indent(f"(match {fuel} with\n| 0 => {self.bad('loop fuel exhausted')}\n| {fuel1} + 1 =>\n{body})") + "\n")
        call = f"Gen.Fn.{name} c USIZE {' '.join(env.d['self.' + f][0] for f in fields)}"

        def kafter(rr, ty_, e2):
            lines, e3 = [], e2
            for j, (f, t) in enumerate(zip(fields, tys)):
                e3, ln = e3.bind("self." + f, t)
                pj = rr + "".join(".2" for _ in range(j)) + (".1" if j < len(fields) - 1 else "")
                lines.append(f"let {ln} := {pj};")
            return "\n".join(lines) + "\n" + k("()", UNIT, e3)
        return self.bind_call(call, "st", K(kafter), env, ("tuple", tys), nopanic=True)

    def WHILE_K(self, e, env, k):
        """`while cond { body }` in continuation style: the lifted loop function has the enclosing function's own result type
        and what follows the loop is translated inside its exit branch, so the body may `return` and a panic inside it reports
        the receiver fields current at that point."""
        _, cond, body = e
        muts = sorted((assigned(body) | assigned_self(body) | ({"self.pred__calls"} if "self.pred__calls" in env.d else set())) & set(env.d))
        self.nj += 1
        name = f"{self.fn.lean}.loop_{self.nj}"
        old_mut_names = [env.d[m][0] for m in muts]
        captured = [(ln, t) for ln, t in env.scope if lean_ty_ok(t)]
        envl = env.copy()
        envl, fuel = envl.bind("fuel", NAT)
        envl, fuel1 = envl.bind("fuel", NAT)
        mut_params = []
        for m in muts:
            envl, ln = envl.bind(m, env.d[m][1])
            mut_params.append(f"({ln} : {lean_ty(env.d[m][1])})")
        lead_args = " ".join(self.lead_names)
        cap_args = " ".join(ln for ln, _ in captured)
        saved_version = self.version
        self.no_join += 1
        self.bump_version()

        def kc(tc, tyc, ec):
            if tyc != BOOL:
                raise Untranslatable("loop condition")
            again = K(lambda t, ty, e_: f"(Gen.Fn.{name} {lead_args} {cap_args} {fuel1} {' '.join(e_.d[m][0] for m in muts)} {self.sv})")
            return f"(if {tc} then\n{self.E(body, ec, again)}\nelse\n{k('()', UNIT, ec)})"
        inner = self.E(cond, envl, K(kc))
        self.no_join -= 1
        self.version = saved_version
        params = [f"({ln} : {lean_ty(t)})" for ln, t in captured]
        self.lifted.append(
            f"def {name} {' '.join(self.lead)} {' '.join(params)} ({fuel} : Nat) {' '.join(mut_params)} ({self.sv} : {self.sty}) : {self.ret_lean_ty()} :=\n"
            + indent(f"(match {fuel} with\n| 0 => {self.bad('loop fuel exhausted')}\n| {fuel1} + 1 =>\n{inner})") + "\n")
        return f"(Gen.Fn.{name} {lead_args} {cap_args} USIZE {' '.join(env.d[m][0] for m in muts)} {self.sv})"

    def FOR_EACH_DROP_K(self, env, k):
        """`for_each(drop)` where `next` reports unwinding as a value: `.error ()` from it (the predicate panicked) unwinds through
        this frame; what follows the loop is translated inside its exit branch."""
        g = FN_BY_KIND.get((self.fn.kind, "next"))
        if g is None or g.sig is None:
            raise Untranslatable("for_each(drop): the struct's `next` is not translated")
        fields = [f for f, _ in self.fn.self_fields]
        tys = [ftype(ft) for _, ft in self.fn.self_fields]
        self.nj += 1
        name = f"{self.fn.lean}.loop_{self.nj}"
        old_names = [env.d["self." + f][0] for f in fields]
        captured = [(ln, t) for ln, t in env.scope if lean_ty_ok(t)]
        envl = env.copy()
        envl, fuel = envl.bind("fuel", NAT)
        envl, fuel1 = envl.bind("fuel", NAT)
        params, cur = [], []
        for f, t in zip(fields, tys):
            envl, ln = envl.bind("self." + f, t)
            params.append(f"({ln} : {lean_ty(t)})")
            cur.append(ln)
        envl, r = envl.bind("r", NAT)
        lets, env2 = [], envl
        for j, (f, t) in enumerate(zip(fields, tys)):
            env2, ln = env2.bind("self." + f, t)
            lets.append(f"let {ln} := {r}" + "".join(".2" for _ in range(j + 1)) + (".1" if j < len(fields) - 1 else "") + ";")
        env3, x = env2.bind("x", ELEM)
        lead_args = " ".join(self.lead_names)
        cap_args = " ".join(ln for ln, _ in captured)
        self.no_join += 1
        saved_version = self.version
        self.bump_version()
        again = f"(Gen.Fn.{name} {lead_args} {cap_args} {fuel1} {' '.join(env2.d['self.' + f][0] for f in fields)} {self.sv})"
        dropx = self.bind_call(f"RsM.drop_local c {x}", "st", K(lambda t_, ty_, e_: again), env3, UNIT)
        body = (f"(RsM.bindW (Gen.Fn.{g.lean} {lead_args} {' '.join(cur)} {self.sv}) fun {self.sv} {r} =>\n" + "\n".join(lets) + "\n"
                f"(match {r}.1 with\n| .error _ => {self.panic(env2)}\n| .ok none =>\n{k('()', UNIT, env2)}\n| .ok (some {x}) =>\n{dropx}))")
        self.no_join -= 1
        self.version = saved_version
        cparams = [f"({ln} : {lean_ty(t)})" for ln, t in captured]
        self.lifted.append(
            f"def {name} {' '.join(self.lead)} {' '.join(cparams)} ({fuel} : Nat) {' '.join(params)} ({self.sv} : {self.sty}) : {self.ret_lean_ty()} :=\n"
            + indent(f"(match {fuel} with\n| 0 => {self.bad('loop fuel exhausted')}\n| {fuel1} + 1 =>\n{body})") + "\n")
        return f"(Gen.Fn.{name} {lead_args} {cap_args} USIZE {' '.join(env.d['self.' + f][0] for f in fields)} {self.sv})"

    def WHILE(self, e, env, k):
        """`while cond { body }`: a lambda-lifted function recursive on a fuel argument (started at `2^64`: every loop of the
        translated subset advances an index below `usize::MAX`; running out of fuel is `bad`).  Like `FOR`, it returns the final
        values of the locals the body rebinds."""
        _, cond, body = e
        if not self.st:
            raise Untranslatable("loop in a function translated without state")
        muts = sorted((assigned(body) | guard_calls(body) | cb_keys(body, env)) & set(env.d))
        for m in muts:
            if not lean_ty_ok(env.d[m][1]):
                raise Untranslatable(f"loop state {m} : {env.d[m][1]}")
        self.nj += 1
        name = f"{self.fn.lean}.loop_{self.nj}"
        old_mut_names = [env.d[m][0] for m in muts]
        captured = [(ln, t) for ln, t in env.scope if lean_ty_ok(t) and ln not in old_mut_names]
        envl = env.copy()
        envl.scope = [(ln, t) for ln, t in envl.scope if ln not in old_mut_names]
        envl, fuel = envl.bind("fuel", NAT)
        envl, fuel1 = envl.bind("fuel", NAT)
        mut_params = []
        for m in muts:
            envl, ln = envl.bind(m, env.d[m][1])
            mut_params.append(f"({ln} : {lean_ty(env.d[m][1])})")
        tys = [lean_ty(env.d[m][1]) for m in muts]
        rty = "Unit" if not muts else (tys[0] if len(muts) == 1 else "(" + " × ".join(tys) + ")")

        def pack(e_):
            vals = [e_.d[m][0] for m in muts]
            return "()" if not vals else (vals[0] if len(vals) == 1 else "(" + ", ".join(vals) + ")")
        lead_args = " ".join(self.lead_names)
        cap_args = " ".join(ln for ln, _ in captured)
        saved_version = self.version
        self.in_closure += 1
        self.no_join += 1
        self.bump_version()

        def kc(tc, tyc, ec):
            if tyc != BOOL:
                raise Untranslatable("loop condition")
            again = K(lambda t, ty, e_: f"(Gen.Fn.{name} {lead_args} {cap_args} {fuel1} {' '.join(e_.d[m][0] for m in muts)} {self.sv})")
            return f"(if {tc} then\n{self.E(body, ec, again)}\nelse ({self.sv}, Outcome.ok {pack(ec)}))"
        inner = self.E(cond, envl, K(kc))
        self.in_closure -= 1
        self.no_join -= 1
        self.version = saved_version
        params = [f"({ln} : {lean_ty(t)})" for ln, t in captured]
        self.lifted.append(
            f"def {name} {' '.join(self.lead)} {' '.join(params)} ({fuel} : Nat) {' '.join(mut_params)} ({self.sv} : {self.sty}) : {self.sty} × Outcome {rty} :=\n"
            + indent(f"(match {fuel} with\n| 0 => {self.bad('loop fuel exhausted')}\n| {fuel1} + 1 =>\n{inner})") + "\n")
        call = f"Gen.Fn.{name} {lead_args} {cap_args} USIZE {' '.join(env.d[m][0] for m in muts)}"

        def kafter(r, ty_, e2):
            lines, e3 = [], e2
            for j, m in enumerate(muts):
                e3, ln = e3.bind(m, env.d[m][1])
                proj = r if len(muts) == 1 else r + "".join(".2" for _ in range(j)) + (".1" if j < len(muts) - 1 else "")
                lines.append(f"let {ln} := {proj};")
            return "\n".join(lines) + ("\n" if lines else "") + k("()", UNIT, e3)
        rt = ("tuple", [env.d[m][1] for m in muts]) if len(muts) > 1 else (env.d[muts[0]][1] if muts else UNIT)
        return self.bind_call(call, "st", K(kafter), env, rt, nopanic=True)

    def MCALL(self, e, env, k):
        recv, name, args = e[1], e[2], e[3]
        if name == "next" and not args and recv[0] == "mcall" and recv[2] == "filter_map" and len(recv[3]) == 1 \
                and recv[1][0] == "path" and len(recv[1][1]) == 1 and recv[1][1][0] in env.d \
                and env.d[recv[1][1][0]][1] == ("gen",):
            if not self.st:
                raise Untranslatable("generator loop in a function translated without state")
            return self.LOOP(env.d[recv[1][1][0]][0], recv[3][0], env, k)
        if self.fn.kind == "rawvec" and recv == ("field", ("path", ["self"]), "a") and name == "realloc" and len(args) == 3:
            # the arena serves (or refuses) the request; the buffer's contents move with it (see `RsV.set_cap`)
            return self.args(args[1:], env, lambda pa, env_: self.bind_call(f"RsV.arena_realloc c {paren(pa[1][0])}", "st", k, env_, res(UNIT)))
        if self.fn.kind == "rawvec" and recv == ("field", ("path", ["self"]), "a") and name == "dealloc" and len(args) == 2:
            return self.args(args[1:], env, lambda pa, env_: self.bind_call("RsV.arena_dealloc", "st", k, env_, UNIT))
        if recv == ("path", ["self"]) and self.fn.kind == "rawvec":
            if name in EXTERNAL_RV:
                # callers keep reaching the hand model of this function (its own translation is tied to it by a theorem)
                lf, mode, rty = EXTERNAL_RV[name]
                return self.args(args, env, lambda pa, env_: self.bind_call(f"{lf} c {sp(pa)}", mode, k, env_, rty))
            if ("rawvec", name) in FN_BY_KIND:
                return self.args(args, env, lambda pa, env_: self.call_fn(FN_BY_KIND[("rawvec", name)], None, pa, env_, k))
        if recv[0] == "path" and len(recv[1]) == 1 and recv[1][0] in env.d and env.d[recv[1][0]][1] == GUARD and ("guard", name) in FN_BY_KIND:
            g = FN_BY_KIND[("guard", name)]
            if g.sig is None:
                raise Untranslatable(f"SetLenOnDrop::{name} is called but could not be translated itself")
            gname = recv[1][0]

            def kg(pa, env_):
                def kres(r, ty_, e2):
                    e3, ln = e2.bind(gname, GUARD)
                    return f"let {ln} := {r}.2;\n{k('()', UNIT, e3)}"
                return self.bind_call(f"Gen.Fn.{g.lean} {env_.d[gname][0]} {sp(pa)}", "pure", K(kres), env_, ("tuple", [UNIT, NAT]))
            return self.args(args, env, kg)
        if recv[0] == "path" and len(recv[1]) == 1 and recv[1][0] in env.d and env.d[recv[1][0]][1] == EXTW and not args:
            ln = env.d[recv[1][0]][0]
            if name == "next":      # `self.0.clone()`: may panic; the generator keeps its value
                e2, r = env.bind("x", ELEM)
                self.bump_version()
                cl = self.cleanup(env)
                body = k(r, ELEM, e2.own(r))
                if cl is not None:
                    return f"(RsM.bindU (RsM.clone_next c {ln} {self.sv}) (fun {self.sv} => {cl}) fun {self.sv} {r} =>\n{body})"
                return f"(RsM.bindW (RsM.clone_next c {ln} {self.sv}) fun {self.sv} {r} =>\n{body})"
            if name == "last":      # `self.0`: the value itself moves out
                return k(ln, ELEM, env.disown(ln).own(ln))
        if recv == ("field", ("path", ["self"]), "raw") and "self.raw" in env.d and env.d["self.raw"][1] == CHUNK and name == "next" and not args \
                and self.fn.kind == "iter":
            g = FN_LEAN.get("chunk_raw_iter_next")
            if g is None or g.sig is None:
                raise Untranslatable("ChunkRawIter::next is not translated")
            ity = ("tuple", [NAT, NAT])

            def kraw(r, ty_, e2):
                e3, ln = e2.bind("self.raw", CHUNK)
                self.chunk_ver[ln] = self.version
                return f"let {ln} := {r}.2;\n{k(r + '.1', opt(ity), e3)}"
            return self.bind_call(f"Gen.Fn.chunk_raw_iter_next E M {env.d['self.raw'][0]} {self.sv}", "pure", K(kraw), env, ("tuple", [opt(ity), CHUNK]))
        if recv == ("field", ("path", ["self"]), "iter") and "self.iter" in env.d and env.d["self.iter"][1] == ITER2 \
                and name in ("next", "next_back") and not args:
            it = env.d["self.iter"][0]
            e2, r = env.bind("r", ("tuple", [opt(SLOT), ITER2]))
            e3, it2 = e2.bind("self.iter", ITER2)
            return f"let {r} := RsM.slice_iter_{name} {it};\nlet {it2} := {r}.2;\n{k(r + '.1', opt(SLOT), e3)}"
        if self.fn.kind in ITERK and name == "for_each" and args == [("path", ["drop"])] and self.pure(recv, env) == ("self", "selfstruct"):
            if self.fn.kind in KEEPK:
                return self.FOR_EACH_DROP_K(env, k)
            return self.FOR_EACH_DROP(env, k)
        if self.fn.kind == "rvctor" and name == "alloc_zeroed" and len(args) == 1:
            return self.E(args[0], env, K(lambda t, ty, env_: k(f"(RsV.arena_alloc_buf c {paren(t)}.size)", res(BUF), env_)))
        if self.fn.kind == "rvctor" and name == "cast" and not args:
            return self.E(recv, env, k)
        if self.recv_is_vec(recv, env) and name == "dedup_by" and len(args) == 1 and args[0][0] == "closure" and len(args[0][1]) == 2 \
                and all(q[0] == "pid" for q in args[0][1]) and ("vec", "dedup_by") in FN_BY_KIND:
            # `self.dedup_by(|a, b| key(a) == key(b))` / `self.dedup_by(|a, b| a == b)`: the closure handed on is built from a pure
            # key function (a parameter of type `V.Elem → Nat`) or from `PartialEq` on the elements (equality of their values)
            a_, b_ = args[0][1][0][1], args[0][1][1][1]
            body = args[0][2]
            cb = None
            if body[0] == "bin" and body[1] == "==":
                l, r = body[2], body[3]
                if l == ("path", [a_]) and r == ("path", [b_]):
                    cb = "(fun _ a_ b_ => some (a_.val == b_.val))"
                elif l[0] == "call" and r[0] == "call" and l[1] == r[1] and l[1][0] == "path" and len(l[1][1]) == 1 \
                        and l[1][1][0] in env.d and env.d[l[1][1][0]][1] == "keyfn" and l[2] == [("path", [a_])] and r[2] == [("path", [b_])]:
                    kf = env.d[l[1][1][0]][0]
                    cb = f"(fun _ a_ b_ => some ({kf} a_ == {kf} b_))"
            if cb is None:
                raise Untranslatable("dedup_by with this closure")
            return self.bind_call(f"Gen.Fn.vec_dedup_by c {cb}", "st", k, env, UNIT)
        if self.recv_is_vec(recv, env) and ("vec", name) in FN_BY_KIND:
            return self.args(args, env, lambda pa, env_: self.call_fn(FN_BY_KIND[("vec", name)], None, pa, env_, k))
        if recv[0] == "field" and recv[2] == "buf" and self.recv_is_vec(recv[1], env) and ("rawvec", name) in FN_BY_KIND:
            g = FN_BY_KIND[("rawvec", name)]
            if g.sig is None:
                raise Untranslatable(f"RawVec::{name} is called but could not be translated itself")
            rty = rust_ty(g.sig["ret"])

            def kbuf(pa, env_):
                if g.mode == "read":
                    return self.bind_call(f"Gen.Fn.{g.lean} c {sp(pa)} {self.sv}.1".replace("  ", " "), "pure", k, env_, rty)
                return self.bind_call(f"RsM.liftV (Gen.Fn.{g.lean} c {sp(pa)})", "st", k, env_, rty)
            return self.args(args, env, kbuf)
        # methods on self (the arena)
        if recv == ("path", ["self"]) and self.fn.kind == "allocatorimpl" and ("allocatorimpl", name) in FN_BY_KIND:
            # `self : &&Bump`: the trait's own method is found before the inherent one of `Bump`
            return self.args(args, env, lambda pa, env_: self.call_fn(FN_BY_KIND[("allocatorimpl", name)], None, pa, env_, k))
        if recv == ("path", ["self"]) and self.fn.kind in ("bump", "allocimpl", "allocatorimpl"):
            if name in EXTERNAL:
                # callers keep reaching the hand model of this function (its own translation is tied to the hand model
                # by a separate equivalence theorem)
                lf, mode, rty = EXTERNAL[name]
                return self.args(args, env, lambda pa, env_: self.bind_call(f"{lf} E M {sp(pa)}", mode, k, env_, rty))
            if ("bump", name) in FN_BY_KIND:
                return self.args(args, env, lambda pa, env_: self.call_fn(FN_BY_KIND[("bump", name)], None, pa, env_, k))
        if name == "map_err" and len(args) == 1 and args[0][0] == "closure":
            def kme(t, ty, env_):
                if not (isinstance(ty, tuple) and ty[0] in ("opt", "res")):
                    raise Untranslatable(f".map_err on {ty}")
                return k(t, res(ty[1]), env_)
            return self.E(recv, env, K(kme, k.trivial))
        if name in ("expect", "unwrap") and len(args) <= 1:
            def kx(t, ty, env_):
                if not (isinstance(ty, tuple) and ty[0] in ("opt", "res")):
                    raise Untranslatable(f".{name} on {ty}")
                env2, v = env_.bind("x", ty[1])
                pre, kj = self.join(k, ty[1], env_, [], 1)
                return f"(match {t} with\n| some {v} => {k(v, ty[1], env2)}\n| none => {self.panic(env_)})"
            return self.E(recv, env, K(kx))
        # Option/Result combinators taking closures or diverging functions
        if name in ("map", "unwrap_or_else", "and_then", "ok_or_else", "filter"):
            def kr(t, ty, env_):
                if not (isinstance(ty, tuple) and ty[0] in ("opt", "res", "res2")):
                    raise Untranslatable(f".{name} on {ty}")
                a = args[0]
                if name == "unwrap_or_else" and ty[0] == "res2":
                    env2, v = env_.bind("x", ty[1])
                    pre, kj = self.join(k, ty[1], env_, [], 2)
                    if a[0] == "path":
                        other = self.CALL(("call", a, []), env_, kj)
                    elif a[0] == "closure":
                        other = self.E(a[2], env_, kj)
                    else:
                        raise Untranslatable("unwrap_or_else argument")
                    return f"({pre}match {t} with\n| .ok {v} => {kj(v, ty[1], env2)}\n| .error _ =>\n{other})"
                if ty[0] == "res2":
                    raise Untranslatable(f".{name} on {ty}")
                if name == "unwrap_or_else":
                    env2, v = env_.bind("x", ty[1])
                    pre, kj = self.join(k, ty[1], env_, [], 2)
                    if a[0] == "path":
                        other = self.CALL(("call", a, []), env_, kj)
                    elif a[0] == "closure":
                        other = self.E(a[2], env_, kj)
                    else:
                        raise Untranslatable("unwrap_or_else argument")
                    return f"({pre}match {t} with\n| some {v} => {kj(v, ty[1], env2)}\n| none =>\n{other})"
                if name == "map" and a[0] == "closure" and len(a[1]) == 1:
                    env2, lp = self.pattern(a[1][0], ty[1], env_)
                    rty = self.value_type(a[2], env2)
                    wrapped = (ty[0], rty)
                    pre, kj = self.join(k, wrapped, env_, [], 2)
                    body = self.E(a[2], env2, K(lambda tb, tyb, eb: kj(f"(some {tb})", wrapped, eb.restrict_to(env_)), True))
                    return f"({pre}match {t} with\n| some {lp} =>\n{body}\n| none => {kj('none', wrapped, env_)})"
                raise Untranslatable(f".{name} with this argument form")
            return self.E(recv, env, K(kr))

        def kr(t, ty, env_):
            def kall(pa, env2):
                pp = self.pure(("mcall", ("path", ["__r"]), name, [("path", [f"__a{i}"]) for i in range(len(pa))]),
                               Env(dict({f"__a{i}": pa[i] for i in range(len(pa))}, __r=(t, ty))))
                if pp is not None:
                    return k(pp[0], pp[1], env2)
                if ty == SLICE and name in ("split_at_mut", "split_at") and len(pa) == 1 and pa[0][1] == NAT:
                    a = pa[0][0]
                    return self.check(f"decide ({a} ≤ {paren(t)}.2)", "split_at", k(f"(({paren(t)}.1, {a}), ({paren(t)}.1 + {a}, {paren(t)}.2 - {a}))",
                                                                                  ("tuple", [SLICE, SLICE]), env2), asserting=True, env=env2)
                if ty == NAT and name == "add" and len(pa) == 1:
                    a = pa[0][0]
                    return self.check(f"{t} + {a} < USIZE", "pointer add wraps", k(f"({t} + {a})", NAT, env2))
                if ty == NAT and name == "offset_from" and len(pa) == 1 and pa[0][1] == NAT:
                    a = pa[0][0]
                    return self.check(f"{a} ≤ {t}", "offset_from of a lower pointer (the result is cast to usize)", k(f"({t} - {a})", NAT, env2))
                if ty == SLOT and name == "sub" and len(pa) == 1 and pa[0][1] == NAT:
                    a = pa[0][0]
                    return self.check(f"{a} ≤ {t}", "pointer sub leaves the buffer", k(f"({t} - {a})", SLOT, env2))
                if ty == NAT and name == "sub" and len(pa) == 1:
                    a = pa[0][0]
                    return self.check(f"{a} ≤ {t}", "pointer sub wraps", k(f"({t} - {a})", NAT, env2))
                if ty == NAT and name == "next_power_of_two" and not pa:
                    return self.bind_call(f"Rs.next_power_of_two {paren(t)}", "pure", k, env2, NAT)
                if ty == CHUNK and ("chunk", name) in FN_BY_KIND:
                    return self.call_fn(FN_BY_KIND[("chunk", name)], t, pa, env2, k)
                if ty == CELLPREV and name == "replace" and len(pa) == 1 and pa[0][1] == CHUNK:
                    return self.bind_call(f"Rs.chunk_prev_replace E {paren(t)} {paren(pa[0][0])}", "st", k, env2, CHUNKLIST)
                if isinstance(ty, tuple) and ty[0] == "cell" and name == "set" and len(pa) == 1:
                    # the only cells: a chunk's finger, the arena's current chunk, the arena's limit
                    m = re.fullmatch(r"\(?(.*?)\)?\.ptr", t)
                    if ty[1] == NAT and m:
                        return self.bind_call(f"Rs.chunk_ptr_set E {paren(m.group(1))} {paren(pa[0][0])}", "st", k, env2, UNIT)
                    if t == "(s.a.cur E)":
                        return self.bind_call(f"Rs.set_current_footer {paren(pa[0][0])}", "st", k, env2, UNIT)
                    if t == "s.a.limit":
                        return self.bind_call(f"Rs.set_limit {paren(pa[0][0])}", "st", k, env2, UNIT)
                raise Untranslatable(f"method .{name} on {ty}")
            return self.args(args, env_, kall)
        return self.E(recv, env, K(kr))

    # ---- blocks ---------------------------------------------------------------------------------------------
    def B(self, blk, env, k):
        _, stmts, tail = blk
        outer = env

        def go(i, env_):
            if i == len(stmts):
                def finish(t, ty, e2):
                    gs = [g for g in reversed(e2.guards()) if g not in outer.guards()]
                    if not gs:
                        return k(t, ty, e2.restrict_to(outer))
                    if mentions_state(t, self.sv):
                        raise Untranslatable("block value reads the state while a guard is dropped")

                    def drop(j, e3):
                        if j == len(gs):
                            e4 = e3.copy()
                            e4.owned = [x for x in e4.owned if not (isinstance(x, tuple) and x[1] in gs)]
                            return k(t, ty, e4.restrict_to(outer))
                        if ("guardfn", gs[j]) in e3.owned:
                            finals = [e3.d["self." + f][0] for f, _ in self.fn.self_fields]
                            tys_ = [ftype(ft) for _, ft in self.fn.self_fields]

                            def kg(r, ty_, e5):
                                lines, e6 = [], e5
                                for jj, ((f, _), t_) in enumerate(zip(self.fn.self_fields, tys_)):
                                    e6, ln = e6.bind("self." + f, t_)
                                    lines.append(f"let {ln} := {r}" + "".join(".2" for _ in range(jj + 1)) + (".1" if jj < len(tys_) - 1 else "") + ";")
                                return "\n".join(lines) + "\n" + drop(j + 1, e6)
                            e3b = e3.copy()
                            e3b.owned = [x for x in e3b.owned if x != ("guardfn", gs[j])]
                            return self.bind_call(f"Gen.Fn.df_backshift_drop c pred {' '.join(finals)}", "st", K(kg), e3b,
                                                  ("tuple", [UNIT] + tys_), nopanic=True)
                        return self.bind_call(f"RsM.set_len {e3.d[gs[j]][0]}", "st", K(lambda t_, ty_, e5: drop(j + 1, e5)), e3, UNIT, nopanic=True)
                    return drop(0, e2)
                if tail is None:
                    return finish("()", UNIT, env_)
                return self.E(tail, env_, K(finish, k.trivial and not env_.guards()))
            st = stmts[i]
            if st[0] == "let":
                pat, init = st[1], st[2]
                if init is None:
                    if pat[0] != "pid":
                        raise Untranslatable("let without initialiser")
                    # declared now, initialised by a later assignment (which rebinds the name)
                    e3 = env_.copy()
                    e3.d[pat[1]] = ("_uninit_", ("uninit",))
                    return go(i + 1, e3)
                if pat[0] == "pid" and init[0] == "call" and init[1] == ("path", ["iter", "from_fn"]) and len(init[2]) == 1 \
                        and init[2][0][0] == "closure" and not init[2][0][1]:
                    # a lazy generator: nothing happens until `.next()` is called on it (see LOOP)
                    e3, ln = env_.bind(pat[1], ("gen",))
                    self.gens[ln] = init[2][0][2]
                    return go(i + 1, e3)

                if pat[0] == "pid" and init[0] == "call" and init[1] == ("path", ["Vec", "with_capacity_in"]) \
                        and self.fn.kind == "vec" and not getattr(self.fn, "builds_vec", False):
                    # a second vector, held as a value next to the receiver
                    def kcap(n_, tn_, e2):
                        def kv(r_, tr_, e3):
                            e4 = e3.copy()
                            e4.d[pat[1]] = (r_, VSVAL)
                            return go(i + 1, e4)
                        return self.bind_call(f"Gen.Fn.vec_with_capacity_in c {paren(n_)} ()", "pure", K(kv), e2, VSVAL)
                    return self.E(init[2][0], env_, K(kcap))
                if pat[0] == "pid" and init[0] == "call" and init[1][0] == "path" and init[1][1] in (["Vec", "new_in"], ["Vec", "with_capacity_in"]) \
                        and self.fn.kind == "vec" and getattr(self.fn, "builds_vec", False):
                    # the function builds a new vector: from here on the threaded vector is the new one (the frame owns it: `Drop
                    # for Vec` runs if the function unwinds); the `&self` source, if any, stays readable as a snapshot
                    def knew(ctor, e2):
                        e2b, snap = e2.bind("src", VECSNAP)

                        def kdone(t_, ty_, e3):
                            e4 = e3.copy()
                            e4.d[pat[1]] = ("self", VECSELF)
                            if any(n_ == "self" for n_, _ in self.sig["params"]):
                                e4.d["self"] = (snap, VECSNAP)
                            e4.owned.append(("vecval", pat[1]))
                            return go(i + 1, e4)
                        return f"let {snap} := {self.sv}.1;\n" + self.bind_call(f"RsM.new_vec ({ctor})", "st", K(kdone), e2b, UNIT)
                    if init[1][1][1] == "new_in":
                        return knew("Gen.Fn.vec_new_in c ()", env_)
                    return self.E(init[2][0], env_, K(lambda n_, tn_, e2: knew(f"Gen.Fn.vec_with_capacity_in c {paren(n_)} ()", e2)))

                def kl(t, ty, e2):
                    if pat[0] == "pid" and ty == BACKSHIFT:    # a guard: its destructor runs when the scope ends, also by unwinding
                        e3 = e2.copy()
                        e3.d[pat[1]] = ("()", BACKSHIFT)
                        e3.owned.append(("guardfn", pat[1]))
                        return go(i + 1, e3)
                    if pat[0] == "pid" and ty == VECSELF:      # another name for the vector: no value to bind
                        e3 = e2.copy()
                        e3.d[pat[1]] = (t, VECSELF)
                        return go(i + 1, e3)
                    if pat[0] == "pid":
                        e3, ln = e2.bind(pat[1], ty)
                        if ty in (ELEM, EXTW) and t in e3.owned:      # a move: the new local owns the value now
                            e3 = e3.disown(t).own(ln)
                        if ty == GUARD:
                            e3.owned.append(("guard", pat[1]))
                        if ty == CHUNK:
                            # a copy of another local keeps that local's age; a fresh read of the arena is current
                            self.chunk_ver[ln] = self.chunk_ver.get(t, self.version) if re.fullmatch(r"[A-Za-z_][A-Za-z0-9_]*", t) else self.version
                        return f"let {ln} := {t};\n{go(i + 1, e3)}"
                    if pat[0] == "pwild":
                        return go(i + 1, e2)
                    if pat[0] == "ptuple" and isinstance(ty, tuple) and ty[0] == "tuple" and len(pat[1]) == len(ty[1]) \
                            and all(q[0] in ("pid", "pwild") for q in pat[1]):
                        lines, e3 = [], e2
                        for j, q in enumerate(pat[1]):
                            if q[0] == "pid":
                                e3, ln = e3.bind(q[1], ty[1][j])
                                lines.append(f"let {ln} := {paren(t)}.{j + 1};")
                        return "\n".join(lines) + "\n" + go(i + 1, e3)
                    if pat[0] == "pstruct" and ty == DETAILS:
                        m = {"new_size_without_footer": "nswf", "size": "size", "align": "align"}
                        lines, e3 = [], e2
                        for f, fp in pat[2]:
                            if fp[0] != "pid" or f not in m:
                                raise Untranslatable("struct pattern")
                            e3, ln = e3.bind(fp[1], NAT)
                            lines.append(f"let {ln} := {paren(t)}.{m[f]};")
                        return "\n".join(lines) + "\n" + go(i + 1, e3)
                    raise Untranslatable(f"let pattern {pat}")
                return self.E(init, env_, K(kl))
            if st[0] == "assign":
                op, lhs, rhs = st[1], st[2], st[3]
                if lhs[0] == "field" and lhs[1] == ("path", ["self"]) and ("self." + lhs[2]) in env_.d:
                    key = "self." + lhs[2]
                    if op != "=":
                        rhs = ("bin", op[:-1], lhs, rhs)

                    def kself(t, ty, e2):
                        e3, ln = e2.bind(key, ty)
                        if ty == CHUNK:
                            self.chunk_ver[ln] = self.version
                        return f"let {ln} := {t};\n{go(i + 1, e3)}"
                    return self.E(rhs, env_, K(kself))
                if self.fn.kind == "rawvec" and lhs == ("field", ("path", ["self"]), "ptr") and op == "=":
                    # the buffer's address is not part of the vector model: only the effects of evaluating the right side count
                    return self.E(rhs, env_, K(lambda tv, tyv, e3: go(i + 1, e3)))
                if self.fn.kind == "rawvec" and lhs == ("field", ("path", ["self"]), "cap") and op == "=":
                    return self.E(rhs, env_, K(lambda tv, tyv, e3: self.bind_call(
                        f"RsV.set_cap {paren(tv)}", "st", K(lambda t_, ty_, e4: go(i + 1, e4)), e3, UNIT)))
                if lhs[0] == "field" and lhs[2] == "len" and self.recv_is_vec(lhs[1], env):
                    val = rhs if op == "=" else ("bin", op[:-1], lhs, rhs)
                    return self.E(val, env_, K(lambda tv, tyv, e3: self.bind_call(
                        f"RsM.set_len {paren(tv)}", "st", K(lambda t_, ty_, e4: go(i + 1, e4)), e3, UNIT, nopanic=True)))
                if lhs[0] == "field" and lhs[2] == "allocated_bytes" and op == "=":
                    def kc(tc, tyc, e2):
                        if tyc != CHUNK:
                            raise Untranslatable(f"assignment to .allocated_bytes of {tyc}")
                        return self.E(rhs, e2, K(lambda tv, tyv, e3: self.bind_call(
                            f"Rs.chunk_ab_set E {paren(tc)} {paren(tv)}", "st", K(lambda t_, ty_, e4: go(i + 1, e4)), e3, UNIT)))
                    return self.E(lhs[1], env_, K(kc))
                if lhs[0] != "path" or len(lhs[1]) != 1 or lhs[1][0] not in env_.d:
                    raise Untranslatable(f"assignment to {lhs}")
                name = lhs[1][0]
                val = rhs if op == "=" else ("bin", op[:-1], lhs, rhs)

                def ka(t, ty, e2):
                    e3, ln = e2.bind(name, ty)
                    if ty in (ELEM, EXTW) and t in e3.owned:
                        e3 = e3.disown(t).own(ln)
                    return f"let {ln} := {t};\n{go(i + 1, e3)}"
                return self.E(val, env_, K(ka))
            if st[0] == "expr" and st[1][0] == "mcall" and st[1][2] == "drain_filter" and self.fn.kind == "vec" \
                    and self.recv_is_vec(st[1][1], env_) and len(st[1][3]) == 1 and st[1][3][0][0] == "closure":
                # `self.drain_filter(|x| !f(x));` — the iterator is a temporary: created, then dropped at the end of the statement
                clo = st[1][3][0]
                b = clo[2]
                ok = (len(clo[1]) == 1 and clo[1][0][0] == "pid" and b[0] == "un" and b[1] == "!" and b[2][0] == "call"
                      and b[2][1][0] == "path" and len(b[2][1][1]) == 1 and b[2][2] == [("path", [clo[1][0][1]])])
                fn_ = b[2][1][1][0] if ok else None
                if not ok or fn_ not in env_.d or env_.d[fn_][1] != CB1:
                    raise Untranslatable("drain_filter with this closure")
                cbt = f"(fun k_ e_ => ({env_.d[fn_][0]} k_ e_).map (!·))"
                gdf, gdrop = FN_BY_KIND.get(("vec", "drain_filter")), FN_LEAN.get("df_drop")
                if gdf is None or gdf.sig is None or gdrop is None or gdrop.sig is None:
                    raise Untranslatable("drain_filter / DrainFilter::drop are not translated")

                def kd(d, ty_, e2):
                    def kr(r, ty2, e3):
                        return f"(match {r}.1 with\n| .ok _ =>\n{go(i + 1, e3)}\n| .error _ => {self.panic(e3)})"
                    return self.bind_call(f"Gen.Fn.df_drop c {cbt} {d}.idx {d}.del {d}.oldLen {d}.calls {d}.panicFlag", "st", K(kr), e2,
                                          ("tuple", [UNIT, NAT]), nopanic=True)
                return self.bind_call(f"Gen.Fn.vec_drain_filter c {cbt}", "st", K(kd), env_, DFSTRUCT, nopanic=True)
            # ---- a second vector held as a value (`other` in `split_off` / `append`) ----
            def second_vec(pth):
                return pth[0] == "path" and len(pth[1]) == 1 and pth[1][0] in env_.d and env_.d[pth[1][0]][1] in (VSVAL, OVECREF)
            if st[0] == "expr" and st[1][0] == "mcall" and st[1][2] == "set_len" and len(st[1][3]) == 1 and second_vec(st[1][1]):
                nm = st[1][1][1][0]

                def kset(n_, tn_, e2):
                    e3, ln = e2.bind(nm, env_.d[nm][1])
                    return f"let {ln} := {{ {e2.d[nm][0]} with len := {n_} }};\n{go(i + 1, e3)}"
                return self.E(st[1][3][0], env_, K(kset))
            if st[0] == "expr" and st[1][0] == "call" and st[1][1][0] == "path" and st[1][1][1][-2:] == ["ptr", "copy_nonoverlapping"] \
                    and len(st[1][2]) == 3 and st[1][2][1][0] == "mcall" and st[1][2][1][2] == "as_mut_ptr" and second_vec(st[1][2][1][1]):
                nm = st[1][2][1][1][1][0]

                def kcp(pa, e2):
                    if pa[0][1] != SLOT or pa[1][1] != NAT:
                        raise Untranslatable("copy into a second vector")
                    def kres(r_, tr_, e3):
                        e4, ln = e3.bind(nm, env_.d[nm][1])
                        return f"let {ln} := {r_};\n{go(i + 1, e4)}"
                    return self.bind_call(f"RsM.copy_out c {pa[0][0]} {pa[1][0]} {e2.d[nm][0]}", "st", K(kres), e2, VSVAL, nopanic=True)
                return self.args([st[1][2][0], st[1][2][2]], env_, kcp)
            if st[0] == "let" and st[1][0] == "pid" and st[2] is not None and st[2][0] == "call" and st[2][1] == ("path", ["Vec", "with_capacity_in"]) \
                    and self.fn.kind == "vec" and not getattr(self.fn, "builds_vec", False):
                def kcap(n_, tn_, e2):
                    def kv(r_, tr_, e3):
                        e4 = e3.copy()
                        e4.d[st[1][1]] = (r_, VSVAL)
                        return go(i + 1, e4)
                    return self.bind_call(f"Gen.Fn.vec_with_capacity_in c {paren(n_)} ()", "pure", K(kv), e2, VSVAL)
                return self.E(st[2][2][0], env_, K(kcap))
            if st[0] == "expr" and st[1][0] == "mcall" and st[1][2] == "fill" and st[1][3] == [("int", 0)] and st[1][1][0] == "index" \
                    and st[1][1][2][0] == "range" and st[1][1][2][2] is None:
                base = st[1][1][1]
                if base[0] == "mcall" and base[2] in ("as_mut", "as_ref") and not base[3]:
                    base = base[1]
                pb = self.pure(base, env_)
                if pb is None or pb[1] != ("tuple", [NAT, NAT]):
                    raise Untranslatable("fill on something that is not a byte slice")

                def kz(lo, tyl, e2):
                    return self.check(f"decide ({lo} ≤ {paren(pb[0])}.2)", "slice index", self.check(
                        f"{paren(pb[0])}.1 + {lo} < USIZE", "pointer add wraps", self.bind_call(
                            f"Rs.zero_fill ({paren(pb[0])}.1 + {lo}) ({paren(pb[0])}.2 - {lo})", "st", K(lambda t_, ty_, e3: go(i + 1, e3)), e2, UNIT, footers=False)),
                        asserting=True)
                return self.E(st[1][1][2][1], env_, K(kz))
            if st[0] == "expr":
                ex = st[1]
                if ex[0] == "call" and ex[1][0] == "path" and ex[1][1][-2:] == ["ptr", "write"] and len(ex[2]) == 2 \
                        and ex[2][0][0] == "path" and len(ex[2][0][1]) == 1 and ex[2][0][1][0] in env_.d:
                    pname = ex[2][0][1][0]

                    def kw(t, ty, e2):
                        if ty != CHUNK:
                            return go(i + 1, e2)
                        e3, ln = e2.bind(pname, CHUNK)
                        self.chunk_ver[ln] = self.version
                        return f"let {ln} := {t};\n{go(i + 1, e3)}"
                    return self.E(ex, env_, K(kw))
                return self.E(st[1], env_, K(lambda t, ty, e2: go(i + 1, e2)))
            raise Untranslatable(f"statement {st[0]}")
        return "(" + go(0, env) + ")"

    # ---- whole function -------------------------------------------------------------------------------------
    def function(self):
        env = Env()
        params = list(self.lead)
        cb_params = []
        if self.fn.kind == "dfilter":
            env.d["self.pred"] = ("pred", CB1)
        for f_, ft in self.fn.self_fields:
            ty = ftype(ft)
            env, ln = env.bind("self." + f_, ty)
            if ty == CHUNK:
                self.chunk_ver[ln] = self.version
            params.append(f"({ln} : {lean_ty(ty)})")
        for n, t in self.sig["params"]:
            if n == "self":
                if self.fn.kind == "chunk":
                    env, ln = env.bind("self", CHUNK)
                    params.append(f"({ln} : Chunk)")
                continue
            ty = self.fn.param_ty(n, t)
            env, ln = env.bind(n, ty)
            if ty in (ELEM, EXTW) and self.fn.kind in VECK:
                env = env.own(ln)
            if ty == VIT and self.fn.kind in VECK:
                env = env.own(("iter", n))
            params.append(f"({ln} : {lean_ty(ty)})")
            if ty == CB2:
                cb_params.append(n)
        if self.mode in ("read", "st"):
            params.append(f"({self.sv} : {self.sty})")
        pre = ""
        for n in cb_params:      # the number of calls made so far to this closure (its answers are data indexed by it)
            env, ln = env.bind(n + "__calls", NAT)
            pre += f"let {ln} := 0;\n"
        body = self.E(self.body, env, K(lambda t, ty, e: self.RET_END(t, ty, e), True))
        body = pre + body if not pre else "(" + pre + body + ")"
        head = f"def {self.fn.lean} {' '.join(params)} : {self.ret_lean_ty()} :="
        return "\n".join(self.lifted) + ("\n" if self.lifted else "") + f"/-- `{self.fn.file}`: `fn {self.fn.name}` -/\n" + head + "\n" + indent(body) + "\n"


def mentions_state(term, sv="s"):
    return re.search(r"(?<![A-Za-z0-9_.])%s(?![A-Za-z0-9_])" % sv, term) is not None


def lean_ty_ok(t):
    try:
        lean_ty(t); return True
    except Untranslatable:
        return False


def paren(t):
    t = t.strip()
    if re.fullmatch(r"[A-Za-z_][A-Za-z0-9_.']*|\d+", t) or (t.startswith("(") and balanced(t[1:-1]) and t.endswith(")")):
        return t
    return f"({t})"


def balanced(s):
    d = 0
    for c in s:
        if c == "(": d += 1
        elif c == ")":
            d -= 1
            if d < 0: return False
    return d == 0


def sp(pa):
    return " ".join(paren(t) for t, _ in pa)


def assigned(e):
    """names assigned anywhere inside an AST"""
    out = set()
    if isinstance(e, tuple):
        if e and e[0] == "assign" and e[2][0] == "path" and len(e[2][1]) == 1:
            out.add(e[2][1][0])
        for x in e:
            out |= assigned(x)
    elif isinstance(e, list):
        for x in e:
            out |= assigned(x)
    return out


def mentioned(e):
    """single-segment paths occurring anywhere in an AST"""
    out = set()
    if isinstance(e, tuple):
        if e and e[0] == "path" and len(e[1]) == 1:
            out.add(e[1][0])
        for x in e:
            out |= mentioned(x)
    elif isinstance(e, list):
        for x in e:
            out |= mentioned(x)
    return out


def cb_keys(e, env):
    """hidden call counters of the closures called anywhere inside an AST"""
    out = set()
    if isinstance(e, tuple):
        if e and e[0] == "call" and e[1][0] == "path" and len(e[1][1]) == 1 and (e[1][1][0] + "__calls") in env.d:
            out.add(e[1][1][0] + "__calls")
        for x in e:
            out |= cb_keys(x, env)
    elif isinstance(e, list):
        for x in e:
            out |= cb_keys(x, env)
    return out


def assigned_self(e):
    """receiver fields assigned anywhere inside an AST, as env keys `self.<field>`"""
    out = set()
    if isinstance(e, tuple):
        if e and e[0] == "assign" and e[2][0] == "field" and e[2][1] == ("path", ["self"]):
            out.add("self." + e[2][2])
        for x in e:
            out |= assigned_self(x)
    elif isinstance(e, list):
        for x in e:
            out |= assigned_self(x)
    return out


def guard_calls(e):
    """locals on which a `SetLenOnDrop` method is called anywhere inside an AST (those calls rebind the guard)"""
    out = set()
    if isinstance(e, tuple):
        if e and e[0] == "mcall" and e[2] in ("increment_len", "decrement_len") and e[1][0] == "path" and len(e[1][1]) == 1:
            out.add(e[1][1][0])
        for x in e:
            out |= guard_calls(x)
    elif isinstance(e, list):
        for x in e:
            out |= guard_calls(x)
    return out


def falls(e):
    """can control reach the end of this expression (syntactic)?"""
    if e is None:
        return True
    if e[0] == "return":
        return False
    if e[0] in ("block",):
        for st in e[1]:
            if st[0] == "expr" and not falls(st[1]):
                return False
        return falls(e[2]) if e[2] is not None else True
    if e[0] == "unsafe":
        return falls(e[1])
    if e[0] == "call" and e[1][0] == "path" and e[1][1][-1] in ("allocation_size_overflow", "oom", "capacity_overflow", "unreachable_unchecked", "handle_alloc_error"):
        return False
    if e[0] == "macro" and e[1] in ("panic", "unreachable"):
        return False
    if e[0] == "if":
        return falls(e[2]) or (falls(e[3]) if e[3] is not None else True)
    return True


def indent(text, by=2):
    """re-indent generated text by parenthesis depth (purely cosmetic; the text is fully parenthesised)"""
    out, depth = [], 0
    for line in text.split("\n"):
        line = line.strip()
        if not line:
            continue
        lead = 0
        for c in line:
            if c == ")": lead += 1
            else: break
        out.append(" " * (by * max(depth - lead + 1, 1)) + line)
        depth += line.count("(") - line.count(")")
    return "\n".join(out)


HEADER = """import BumpVerif.Model.Rs
/-! GENERATED by tools/rs2lean.py from {files} — do not edit.
Function bodies of the crate, translated statement by statement (see the translator for the rules). -/
set_option linter.unusedVariables false
namespace Gen.Fn
open Bump

"""


def find_err_arm(e):
    """the body of the first `Err(x) => …` arm of a `match` anywhere in the AST"""
    if isinstance(e, tuple):
        if e and e[0] == "match":
            for pat, guard, body in e[2]:
                if pat[0] == "pts" and pat[1][-1] == "Err":
                    return body
        for x in e:
            r = find_err_arm(x)
            if r is not None:
                return r
    elif isinstance(e, list):
        for x in e:
            r = find_err_arm(x)
            if r is not None:
                return r
    return None


def translate_all(repo):
    srcs = {}
    report = {}
    groups = {}
    for f in FUNCS:
        f.sig = None
    for f in FUNCS:
        try:
            if f.file not in srcs:
                srcs[f.file] = rsparse.strip_comments(open(os.path.join(repo, f.file)).read())
            sig, body = rsparse.find_fn(srcs[f.file], f.name, f.nth, f.anchor)
            if f.region == "err_arm":
                arm = find_err_arm(body)
                if arm is None:
                    raise Untranslatable("no `Err(e) => { … }` match arm found")
                blk = arm[1] if arm[0] == "unsafe" else arm
                if blk[0] != "block":
                    raise Untranslatable("the Err arm is not a block")
                body = ("block", blk[1], None)
                sig = {"name": f.name, "params": [("self", "Self")] + list(f.free), "ret": "()"}
            f.sig = sig
            text = Tr(f, sig, body).function()
            groups.setdefault(f.group, []).append((f, text, None))
            report[f.lean] = "ok"
        except (ParseError, Untranslatable, KeyError, IndexError) as ex:
            f.sig = None
            groups.setdefault(f.group, []).append((f, None, f"{type(ex).__name__}: {ex}"))
            report[f.lean] = f"untranslatable: {type(ex).__name__}: {ex}"
    return groups, report


GROUP_IMPORTS = {"Arith": [], "Details": ["Arith"], "Bytes": ["Arith"], "Limit": ["Arith", "Bytes"], "Footer": ["Arith"], "Fast": ["Arith", "Footer"],
                 "Realloc": ["Arith", "Fast", "Footer", "Limit"], "RawVec": [], "Vec": ["RawVec"], "VecDrain": ["RawVec", "Vec"], "VecIntoIter": ["RawVec", "Vec"], "VecFilter": ["RawVec", "Vec"], "VecCopy": ["RawVec", "Vec"], "Glue": ["Arith", "Fast", "Footer", "Limit", "Realloc"], "Reset": ["Arith", "Footer"], "Rewind": ["Arith", "Footer", "Limit", "Fast", "Realloc"], "NewChunk": ["Arith"], "Iter": ["Arith", "Footer"], "Ctor": ["Arith", "Details", "NewChunk"], "Slow": ["Arith", "Details", "Bytes", "Limit", "Footer", "Fast", "NewChunk"]}
GROUP_PRELUDE = {"RawVec": "BumpVerif.Model.RsVec", "Vec": "BumpVerif.Model.RsVecM", "VecDrain": "BumpVerif.Model.RsVecM", "VecIntoIter": "BumpVerif.Model.RsVecM", "VecFilter": "BumpVerif.Model.RsVecM", "VecCopy": "BumpVerif.Model.RsVecM"}


def run(repo, out_dir, write_if_changed):
    groups, report = translate_all(repo)
    changed = False
    for g, items in groups.items():
        files = ", ".join(sorted({f.file for f, _, _ in items}))
        text = HEADER.format(files="/repo/" + files)
        if g in GROUP_PRELUDE:
            text = text.replace("import BumpVerif.Model.Rs\n", f"import {GROUP_PRELUDE[g]}\n", 1)
        for dep in GROUP_IMPORTS.get(g, []):
            first = text.split("\n", 1)[0]
            text = text.replace(first + "\n", f"{first}\nimport BumpVerif.Gen.Fn{dep}\n", 1)
        for f, body, err in items:
            if body is None:
                text += f"/- `{f.name}` could not be translated: {err} -/\n\n"
            else:
                text += f"{body}\n"
        text += "end Gen.Fn\n"
        changed |= write_if_changed(os.path.join(out_dir, f"Fn{g}.lean"), text)
    return {"fn_bodies": report, "fn_changed": changed}


if __name__ == "__main__":
    repo = os.environ.get("BV_REPO", "/repo")
    groups, report = translate_all(repo)
    for g, items in groups.items():
        for f, body, err in items:
            print(f"-- [{g}] {f.name}: {'OK' if body else err}")
            if body and (len(sys.argv) < 2 or f.name in sys.argv[1:]):
                print(body)
