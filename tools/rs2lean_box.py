#!/usr/bin/env python3
"""Function-body translator for `src/boxed.rs` (and `Vec::into_boxed_slice`): Rust -> Lean over the ownership machine of
`Model/Box.lean`.

The functions are a few lines each; what matters in them is *which handle is disarmed, what is read out, what is dropped
when the scope ends*.  So the translation tracks by-value handles as `Bx.Frame`s:

  * a parameter of type `Box<…>` (or `self` by value) enters the function as an armed frame `Bx.Frame.arg cells`;
  * `ManuallyDrop::new(x)` / `mem::forget(x)` disarm it; passing it on by value (`Box::into_raw(x)`, `Err(x)`) moves it out;
  * every frame still held when the function ends goes through `Frame.scopeEnd` (`impl Drop for Box` unless disarmed), newest
    first; a destructor that unwinds makes the function unwind;
  * `x.deref_mut().0`, `x.as_mut_ptr()`, `&mut *p`, casts: the pointee(s) `x.cells`; `ptr::read(p)` logs `moved`;
    `ptr::drop_in_place(self.0)` is the drop glue `Bx.dropGlue`; `slice_from_raw_parts_mut(p, n)` is `p.take n`.

State: the effect log `fx : Bx.Fx`; result `Bx.Fx × Outcome value`.  Anything outside this small grammar is `Untranslatable`.
"""
import os, sys
sys.path.insert(0, os.path.dirname(os.path.abspath(__file__)))
import rsparse
from rsparse import ParseError


class Untranslatable(Exception):
    pass


FRAME, CELLS, NAT, BOOL, UNIT, RESULT = "frame", "cells", "nat", "bool", "unit", "result"

FUNCS = [
    # (rust name, file, anchor, lean name, extra params)
    ("into_raw", "src/boxed.rs", None, "box_into_raw", []),
    ("from_raw", "src/boxed.rs", None, "box_from_raw", []),
    ("into_inner", "src/boxed.rs", None, "box_into_inner", []),
    ("leak", "src/boxed.rs", None, "box_leak", []),
    ("drop", "src/boxed.rs", "Drop for Box<'a, T>", "box_drop", []),
    ("downcast", "src/boxed.rs", "impl<'a> Box<'a, dyn Any>", "box_downcast", ["(tag target : Nat)"]),
    ("downcast", "src/boxed.rs", "impl<'a> Box<'a, dyn Any + Send>", "box_downcast_send", ["(tag target : Nat)"]),
    ("from", "src/boxed.rs", "From<Box<'a, T>> for Pin<Box<'a, T>>", "box_pin_from", []),
    ("new_in", "src/boxed.rs", None, "box_new_in", []),
    ("pin_in", "src/boxed.rs", None, "box_pin_in", []),
    ("from", "src/boxed.rs", "From<Box<'a, [T; N]>> for Box<'a, [T]>", "box_arr_to_slice", ["(N : Nat)"]),
    ("try_from", "src/boxed.rs", "TryFrom<Box<'a, [T]>> for Box<'a, [T; N]>", "box_slice_to_arr", ["(N : Nat)"]),
    ("into_boxed_slice", "src/collections/vec.rs", None, "vec_into_boxed_slice", []),
    ("from_iter_in", "src/boxed.rs", "impl<'a, A> Box<'a, [A]>", "box_from_iter_in", []),
    ("from", "src/collections/vec.rs", "From<Vec<'bump, T>> for crate::boxed::Box<'bump, [T]>", "vec_into_box_from", []),
    ("into_bump_slice", "src/collections/vec.rs", None, "vec_into_bump_slice", []),
    ("into_bump_slice_mut", "src/collections/vec.rs", None, "vec_into_bump_slice_mut", []),
    ("drop", "src/collections/vec.rs", "Drop for Vec<'bump, T>", "vec_drop", []),
]
LEAN_OF = {"into_raw": "box_into_raw", "from_raw": "box_from_raw"}


class T:
    def __init__(self, name, sig, body):
        self.name, self.sig, self.body = name, sig, body
        self.n = 0

    def fresh(self, base):
        self.n += 1
        return f"{base}_{self.n}"

    def ret_ty(self):
        r = self.sig["ret"].replace(" ", "")
        if r.startswith("Result<"):
            return "(Except (List Bx.Cell) (List Bx.Cell))"
        if r in ("()", "") or self.name == "drop":
            return "Unit"
        return "(List Bx.Cell)"

    # env: dict rust name -> (lean term, type); frames: list of lean names of frames currently held (oldest first)
    def finish(self, term, ty, env, frames):
        out = f"(fx, Outcome.ok {term})"
        for f in frames:          # innermost continuation = oldest frame; newest is dropped first
            out = f"(RsB.scopeEnd pa {f} fx fun fx =>\n{out})"
        return out

    def moved_frame(self, arg, env_, fr):
        """a by-value use of a held frame: returns (lean name, frames without it)"""
        if arg[0] != "path" or len(arg[1]) != 1 or arg[1][0] not in env_ or env_[arg[1][0]][1] != FRAME:
            raise Untranslatable("by-value argument that is not a held handle")
        ln = env_[arg[1][0]][0]
        if ln not in fr:
            raise Untranslatable(f"use of the moved handle {arg[1][0]}")
        env2 = dict(env_)
        del env2[arg[1][0]]
        return ln, env2, [x for x in fr if x != ln]

    def E(self, e, env, frames, k):
        kind = e[0]
        if kind in ("paren", "ref", "deref", "cast"):
            return self.E(e[1], env, frames, k)
        if kind == "unsafe":
            return self.B(e[1], env, frames, k)
        if kind == "block":
            return self.B(e, env, frames, k)
        if kind == "int":
            return k(str(e[1]), NAT, env, frames)
        if kind == "path":
            if len(e[1]) == 1 and e[1][0] in env:
                return k(env[e[1][0]][0], env[e[1][0]][1], env, frames)
            if e[1] == ["N"]:
                return k("N", NAT, env, frames)
            raise Untranslatable(f"path {e[1]}")
        if kind == "field":
            if e[2] == "0":
                def k0(t, ty, env_, fr):
                    if ty == FRAME:
                        return k(f"{t}.cells", CELLS, env_, fr)
                    if ty == CELLS:
                        return k(t, CELLS, env_, fr)
                    raise Untranslatable(f".0 of {ty}")
                return self.E(e[1], env, frames, k0)
            if e[2] == "len":
                return self.E(e[1], env, frames, lambda t, ty, env_, fr: k(f"{t}.cells.length" if ty == FRAME else f"{t}.length", NAT, env_, fr))
            raise Untranslatable(f"field .{e[2]}")
        if kind == "mcall":
            recv, name, args = e[1], e[2], e[3]
            if name == "alloc" and len(args) == 1 and recv[0] == "path" and env.get(recv[1][0], (None, None))[1] == "bump":
                # `a.alloc(x)`: the value moves into the arena; the reference to it is what a `Box` wraps
                ln, env2, fr2 = self.moved_frame(args[0], env, frames)
                r = self.fresh("r")
                return f"(RsB.bind (RsB.alloc {ln} fx) fun fx {r} =>\n{k(r, CELLS, env2, fr2)})"
            if name == "extend" and len(args) == 1 and recv[0] == "path" and env.get(recv[1][0], (None, None))[1] == FRAME:
                # `vec.extend(iter)`: the items are moved to the end of the vector (a panicking iterator is outside this model)
                def ke(t, ty, env_, fr):
                    if ty != CELLS:
                        raise Untranslatable("extend by a non-sequence")
                    old = env_[recv[1][0]][0]
                    ln = self.fresh(recv[1][0])
                    e3 = dict(env_)
                    e3[recv[1][0]] = (ln, FRAME)
                    f3 = [ln if x == old else x for x in fr]
                    return f"let {ln} := RsB.vecExtend {old} {t};\n{k('()', UNIT, e3, f3)}"
                return self.E(args[0], env, frames, ke)
            if name == "into_boxed_slice" and not args:
                ln, env2, fr2 = self.moved_frame(recv, env, frames)
                r = self.fresh("r")
                return f"(RsB.bind (Gen.Fn.vec_into_boxed_slice pa {ln}.cells fx) fun fx {r} =>\n{k(r, CELLS, env2, fr2)})"
            if name == "into" and not args and self.sig["ret"].replace(" ", "").startswith("Pin<Box<"):
                def ki(t, ty, env_, fr):
                    if ty != CELLS:
                        raise Untranslatable(".into() of a non-box")
                    r = self.fresh("r")
                    return f"(RsB.bind (Gen.Fn.box_pin_from pa {t} fx) fun fx {r} =>\n{k(r, CELLS, env_, fr)})"
                return self.E(recv, env, frames, ki)

            def kr(t, ty, env_, fr):
                if name in ("deref_mut", "deref") and not args and ty == FRAME:
                    return k(t, FRAME, env_, fr)
                if name in ("as_mut_ptr", "as_ptr") and not args:
                    return k(f"{t}.cells" if ty == FRAME else t, CELLS, env_, fr)
                if name == "len" and not args:
                    return k(f"{t}.cells.length" if ty == FRAME else f"{t}.length", NAT, env_, fr)
                if name == "is" and not args and ty == FRAME:
                    return k("(tag == target)", BOOL, env_, fr)
                raise Untranslatable(f"method .{name} on {ty}")
            return self.E(recv, env, frames, kr)
        if kind == "bin" and e[1] == "==":
            return self.E(e[2], env, frames, lambda a, ta, e1, f1: self.E(e[3], e1, f1, lambda b, tb, e2, f2: k(f"({a} == {b})", BOOL, e2, f2)))
        if kind == "if":
            _, c, then, els = e

            def kc(tc, tyc, env_, fr):
                a = self.E(then, dict(env_), list(fr), k)
                b = self.E(els, dict(env_), list(fr), k) if els is not None else k("()", UNIT, env_, fr)
                return f"(if {tc} then\n{a}\nelse\n{b})"
            return self.E(c, env, frames, kc)
        if kind == "call":
            f, args = e[1], e[2]
            if f[0] != "path":
                raise Untranslatable("call of a non-path")
            segs = f[1]

            moved_frame = self.moved_frame
            if segs[-2:] == ["ManuallyDrop", "new"] and len(args) == 1:
                ln, env2, fr2 = moved_frame(args[0], env, frames)
                return k(f"{ln}.manuallyDrop", FRAME, env2, fr2)
            if segs[-2:] == ["mem", "forget"] and len(args) == 1:
                ln, env2, fr2 = moved_frame(args[0], env, frames)
                nn = self.fresh("forgotten")
                return f"let {nn} := {ln}.manuallyDrop;\n" + k("()", UNIT, env2, fr2 + [nn])
            if segs[-2:] == ["Box", "into_raw"] and len(args) == 1:
                ln, env2, fr2 = moved_frame(args[0], env, frames)
                r = self.fresh("r")
                return f"(RsB.bind (Gen.Fn.box_into_raw pa {ln}.cells fx) fun fx {r} =>\n{k(r, CELLS, env2, fr2)})"
            if segs[-2:] == ["Box", "from_raw"] and len(args) == 1:
                def kf(t, ty, env_, fr):
                    if ty != CELLS:
                        raise Untranslatable("from_raw of a non-pointer")
                    r = self.fresh("r")
                    return f"(RsB.bind (Gen.Fn.box_from_raw pa {t} fx) fun fx {r} =>\n{k(r, CELLS, env_, fr)})"
                return self.E(args[0], env, frames, kf)
            if segs[-2:] == ["Pin", "new_unchecked"] and len(args) == 1:
                ln, env2, fr2 = moved_frame(args[0], env, frames)       # the handle moves into the `Pin`, armed
                return k(f"{ln}.cells", CELLS, env2, fr2)
            if segs[-2:] == ["Vec", "new_in"] and len(args) == 1:
                return k("(Bx.Frame.arg [])", FRAME, env, frames)
            if segs == ["Box"] and len(args) == 1:
                return self.E(args[0], env, frames, lambda t, ty, env_, fr: k(t, CELLS, env_, fr))
            if segs[-2:] == ["ptr", "read"] and len(args) == 1:
                def krd(t, ty, env_, fr):
                    if ty != CELLS:
                        raise Untranslatable("ptr::read of a non-pointer")
                    return f"let fx := Bx.ptrRead {t} fx;\n{k(t, CELLS, env_, fr)}"
                return self.E(args[0], env, frames, krd)
            if segs[-1] in ("slice_from_raw_parts_mut", "from_raw_parts_mut", "from_raw_parts") and len(args) == 2:
                return self.E(args[0], env, frames, lambda a, ta, e1, f1: self.E(args[1], e1, f1, lambda b, tb, e2, f2: k(f"({a}.take {b})", CELLS, e2, f2)))
            if segs[-2:] == ["ptr", "drop_in_place"] and len(args) == 1:
                def kd(t, ty, env_, fr):
                    r = self.fresh("r")
                    return (f"let {r} := Bx.dropGlue pa {t} 0 false fx;\n(if {r}.1 then ({r}.2, Outcome.panic) else\nlet fx := {r}.2;\n"
                            f"{k('()', UNIT, env_, fr)})")
                return self.E(args[0], env, frames, kd)
            if segs == ["Ok"] and len(args) == 1:
                return self.E(args[0], env, frames, lambda t, ty, env_, fr: k(f"(Except.ok {t})", RESULT, env_, fr))
            if segs == ["Err"] and len(args) == 1:
                ln, env2, fr2 = moved_frame(args[0], env, frames)      # the handle moves into the result, armed
                return k(f"(Except.error {ln}.cells)", RESULT, env2, fr2)
            raise Untranslatable(f"call of {'::'.join(segs)}")
        raise Untranslatable(f"expression form {kind}")

    def B(self, blk, env, frames, k):
        _, stmts, tail = blk

        def go(i, env_, fr):
            if i == len(stmts):
                if tail is None:
                    return k("()", UNIT, env_, fr)
                return self.E(tail, env_, fr, k)
            st = stmts[i]
            if st[0] == "use":
                return go(i + 1, env_, fr)
            if st[0] == "let" and st[1][0] == "pid" and st[2] is not None:
                name = st[1][1]

                def kl(t, ty, e2, f2):
                    ln = self.fresh(name)
                    e3 = dict(e2)
                    e3[name] = (ln, ty)
                    f3 = f2 + [ln] if ty == FRAME else f2
                    return f"let {ln} := {t};\n{go(i + 1, e3, f3)}"
                return self.E(st[2], env_, fr, kl)
            if st[0] == "expr":
                return self.E(st[1], env_, fr, lambda t, ty, e2, f2: go(i + 1, e2, f2))
            raise Untranslatable(f"statement {st[0]}")
        return go(0, env, frames)

    def function(self, lean, extra):
        params, env, frames, pre = ["(pa : Option Nat)"] + extra, {}, [], ""
        for n, t in self.sig["params"]:
            tt = t.replace(" ", "")
            if n == "self" and self.name == "drop":
                params.append("(self_ : List Bx.Cell)")
                env["self"] = ("self_", CELLS)
            elif n == "self" or tt.startswith("Box<") or tt.startswith("Vec<"):
                ln = "self_" if n == "self" else n
                params.append(f"({ln} : List Bx.Cell)")
                fn = self.fresh(ln.rstrip("_"))
                pre += f"let {fn} := Bx.Frame.arg {ln};\n"
                env[n] = (fn, FRAME)
                frames.append(fn)
            elif tt in ("&'aBump", "&Bump"):
                env[n] = (n, "bump")
            elif tt == "T" and self.name == "from_iter_in":
                params.append(f"({n} : List Bx.Cell)")
                env[n] = (n, CELLS)
            elif tt == "T":
                params.append(f"({n} : List Bx.Cell)")
                fn = self.fresh(n)
                pre += f"let {fn} := Bx.Frame.arg {n};\n"
                env[n] = (fn, FRAME)
                frames.append(fn)
            elif tt.startswith("*mut") or tt.startswith("*const"):
                params.append(f"({n} : List Bx.Cell)")
                env[n] = (n, CELLS)
            else:
                raise Untranslatable(f"parameter {n}: {t}")
        body = self.E(self.body, env, frames, lambda t, ty, e2, f2: self.finish(t, ty, e2, f2))
        return (f"/-- `fn {self.name}` -/\ndef {lean} {' '.join(params)} (fx : Bx.Fx) : Bx.Fx × Outcome {self.ret_ty()} :=\n"
                + indent(pre + body) + "\n")


def indent(text):
    out, depth = [], 0
    for line in text.split("\n"):
        line = line.strip()
        if not line:
            continue
        lead = 0
        for c in line:
            if c == ")": lead += 1
            else: break
        out.append("  " * max(depth - lead + 1, 1) + line)
        depth += line.count("(") - line.count(")")
    return "\n".join(out)


HEADER = """import BumpVerif.Model.RsBox
/-! GENERATED by tools/rs2lean_box.py from /repo/src/boxed.rs and /repo/src/collections/vec.rs — do not edit.
Function bodies of `boxed::Box` (and `Vec::into_boxed_slice`), translated over the ownership machine of `Model/Box.lean`. -/
set_option linter.unusedVariables false
namespace Gen.Fn
open Bump

"""


def translate_all(repo):
    srcs, out, report = {}, [], {}
    for name, file, anchor, lean, extra in FUNCS:
        try:
            if file not in srcs:
                srcs[file] = rsparse.strip_comments(open(os.path.join(repo, file)).read())
            sig, body = rsparse.find_fn(srcs[file], name, 0, anchor)
            out.append(T(name, sig, body).function(lean, extra))
            report[lean] = "ok"
        except (ParseError, Untranslatable, KeyError, IndexError) as ex:
            out.append(f"/- `{name}` ({lean}) could not be translated: {type(ex).__name__}: {ex} -/\n")
            report[lean] = f"untranslatable: {type(ex).__name__}: {ex}"
    return HEADER + "\n".join(out) + "\nend Gen.Fn\n", report


def run(repo, out_dir, write_if_changed):
    text, report = translate_all(repo)
    changed = write_if_changed(os.path.join(out_dir, "FnBox.lean"), text)
    return {"fn_bodies_box": report, "fn_box_changed": changed}


if __name__ == "__main__":
    text, report = translate_all(os.environ.get("BV_REPO", "/repo"))
    print(text)
    for k, v in report.items():
        print(f"-- {k}: {v}")
