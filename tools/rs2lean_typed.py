#!/usr/bin/env python3
"""Function-body translator for the typed allocation methods of `Bump` (src/lib.rs): `alloc`, `try_alloc`, `alloc_with`,
`try_alloc_with` (and their nested `inner_writer`s), `alloc_slice_copy`, `try_alloc_slice_copy`, `alloc_str`, `try_alloc_str`,
`alloc_slice_fill_with`, `try_alloc_slice_fill_with`, `alloc_slice_fill_copy`, `try_alloc_slice_fill_copy`.

State `t : RsT.TS` = the arena state of the main translator (`t.st : St`) + the log of typed writes (`t.wr`, `(address, value)`) +
the log of closure calls (`t.calls`, the argument of each call).  Rules:

  * the type parameter `T` is `(esz eal : Nat)` (`size_of::<T>()`, `align_of::<T>()`); a value of type `T` is an opaque token
    (`RsT.Val`); `&[T]` is a list of tokens; `&str` / `&[u8]` is such a list with `esz = eal = 1`;
  * `Layout::new::<T>()` = `⟨esz, eal⟩`; `Layout::for_value(s)` = `⟨esz * len, eal⟩`; `Layout::array::<T>(n)` is the model's
    `arrayLayout` (std's: an error above `isize::MAX`); `.unwrap_or_else(|_| oom())` panics, `.map_err(|_| AllocErr)?` is `err`;
  * `self.alloc_layout(l)` / `self.try_alloc_layout(l)` are the *translated* `Gen.Fn.alloc_layout` / `Gen.Fn.try_alloc_layout`
    on `t.st`; `?` propagates `err`; `.cast()`, `.as_ptr()`, `as *mut T`, `&mut *p`, `from_utf8_unchecked_mut`, `as_bytes` change
    no value; `p.add(i)` is `p + i * esz`;
  * a closure parameter is `RsT.Clo` (argument → state → state × outcome: it may allocate from the same arena, or panic);
    calling it is `RsT.call` (logs the argument); a closure literal `|| x` / `|_| x` is the constant closure;
  * `ptr::write(p, v)` is `RsT.write`, `ptr::copy_nonoverlapping(src.as_ptr(), dst, n)` from a `&[T]` is `RsT.copy_in`;
  * `for i in 0..n { … }` is a function recursive on the remaining count; `slice::from_raw_parts_mut(p, n)` is the pair `(p, n)`;
    `debug_assert_eq!(a, b)` is `bad` when it would fire.
"""
import os, sys
sys.path.insert(0, os.path.dirname(os.path.abspath(__file__)))
import rsparse
from rsparse import ParseError

FILE = "src/lib.rs"
NAT, LAYOUT, VAL, CLO, SLICEV, SRC, LAYRES, UNIT = "nat", "layout", "val", "clo", "slicev", "src", "layres", "unit"
ITER, OPTVAL = "iter", "optval"
CHUNKT, RESREF, USERRES = "chunk", "resref", "userres"   # a chunk footer (snapshot); `&mut Result<T, E>` in the arena; the caller-level `Result<&mut T, E>`     # an `ExactSizeIterator` (its items, and what its `len()` claims); `Option<T>`
LEAN_TY = {"usersl": "(Except RsT.Val (Nat × Nat))", USERRES: "(Except RsT.Val Nat)", CHUNKT: "Chunk", NAT: "Nat", VAL: "RsT.Val", CLO: "RsT.Clo", SLICEV: "(Nat × Nat)", SRC: "(List RsT.Val)", UNIT: "Unit", LAYOUT: "Rs.Layout"}


class Untranslatable(Exception):
    pass


# rust name, anchor for find_fn, lean name, generic over T?, params [(name, type)], return type
FUNCS = [
    ("inner_writer", "pub fn alloc_with", "t_alloc_with_inner_writer", True, [("ptr", NAT), ("f", CLO)], UNIT),
    ("alloc_with", "pub fn alloc_with", "t_alloc_with", True, [("f", CLO)], NAT),
    ("inner_writer", "pub fn try_alloc_with", "t_try_alloc_with_inner_writer", True, [("ptr", NAT), ("f", CLO)], UNIT),
    ("try_alloc_with", "pub fn try_alloc_with", "t_try_alloc_with", True, [("f", CLO)], NAT),
    ("alloc", "pub fn alloc<T>", "t_alloc", True, [("val", VAL)], NAT),
    ("try_alloc", "pub fn try_alloc<T>", "t_try_alloc", True, [("val", VAL)], NAT),
    ("alloc_slice_copy", "pub fn alloc_slice_copy", "t_alloc_slice_copy", True, [("src", SRC)], SLICEV),
    ("try_alloc_slice_copy", "pub fn try_alloc_slice_copy", "t_try_alloc_slice_copy", True, [("src", SRC)], SLICEV),
    ("alloc_str", "pub fn alloc_str", "t_alloc_str", False, [("src", SRC)], SLICEV),
    ("try_alloc_str", "pub fn try_alloc_str", "t_try_alloc_str", False, [("src", SRC)], SLICEV),
    ("alloc_slice_fill_with", "pub fn alloc_slice_fill_with", "t_alloc_slice_fill_with", True, [("len", NAT), ("f", CLO)], SLICEV),
    ("try_alloc_slice_fill_with", "pub fn try_alloc_slice_fill_with", "t_try_alloc_slice_fill_with", True, [("len", NAT), ("f", CLO)], SLICEV),
    ("alloc_slice_fill_copy", "pub fn alloc_slice_fill_copy", "t_alloc_slice_fill_copy", True, [("len", NAT), ("value", VAL)], SLICEV),
    ("try_alloc_slice_fill_copy", "pub fn try_alloc_slice_fill_copy", "t_try_alloc_slice_fill_copy", True, [("len", NAT), ("value", VAL)], SLICEV),
    ("alloc_slice_clone", "pub fn alloc_slice_clone", "t_alloc_slice_clone", True, [("#clone", "trait"), ("src", SRC)], SLICEV),
    ("try_alloc_slice_clone", "pub fn try_alloc_slice_clone", "t_try_alloc_slice_clone", True, [("#clone", "trait"), ("src", SRC)], SLICEV),
    ("alloc_slice_fill_clone", "pub fn alloc_slice_fill_clone", "t_alloc_slice_fill_clone", True, [("#clone", "trait"), ("len", NAT), ("value", VAL)], SLICEV),
    ("try_alloc_slice_fill_clone", "pub fn try_alloc_slice_fill_clone", "t_try_alloc_slice_fill_clone", True, [("#clone", "trait"), ("len", NAT), ("value", VAL)], SLICEV),
    ("alloc_slice_fill_default", "pub fn alloc_slice_fill_default", "t_alloc_slice_fill_default", True, [("#default", "trait"), ("len", NAT)], SLICEV),
    ("try_alloc_slice_fill_default", "pub fn try_alloc_slice_fill_default", "t_try_alloc_slice_fill_default", True, [("#default", "trait"), ("len", NAT)], SLICEV),
    ("alloc_slice_fill_iter", "pub fn alloc_slice_fill_iter", "t_alloc_slice_fill_iter", True, [("iter", ITER)], SLICEV),
    ("try_alloc_slice_fill_iter", "pub fn try_alloc_slice_fill_iter", "t_try_alloc_slice_fill_iter", True, [("iter", ITER)], SLICEV),
    ("alloc_slice_try_fill_with", "pub fn alloc_slice_try_fill_with", "t_alloc_slice_try_fill_with", "tryfill", [("len", NAT), ("f", CLO)], "usersl"),
    ("alloc_slice_try_fill_iter", "pub fn alloc_slice_try_fill_iter", "t_alloc_slice_try_fill_iter", "tryfill", [("iter", ITER)], "usersl"),
    ("alloc_try_with", "pub fn alloc_try_with", "t_alloc_try_with", "result", [("f", CLO)], USERRES),
    ("try_alloc_try_with", "pub fn try_alloc_try_with", "t_try_alloc_try_with", "result", [("f", CLO)], USERRES),
]
METHODS = {}      # rust method name -> (lean name, generic, ret) of the translated methods of `Bump`


class T:
    def __init__(self, name, lean, generic, outer):
        self.name, self.lean, self.generic, self.outer = name, lean, generic, outer
        self.n = 0
        self.defs = []

    def fresh(self, b):
        self.n += 1
        return f"{b}_{self.n}"

    def bad(self, why):
        return f'(t, Outcome.bad "{self.name}: {why}")'

    def tp(self):
        """the element type in scope: (esz, eal) terms"""
        if not self.generic:
            raise Untranslatable("no type parameter in scope")
        if self.generic == "result":
            return "rsz", "ral"
        return "esz", "eal"

    def tparams(self):
        if self.generic == "result": return "(rsz ral okOff : Nat) (isOk : RsT.Val → Bool) "
        if self.generic == "tryfill": return "(esz eal : Nat) (isOk : RsT.Val → Bool) "
        return "(esz eal : Nat) " if self.generic else ""

    def targs(self):
        if self.generic == "result": return "rsz ral okOff isOk "
        if self.generic == "tryfill": return "esz eal isOk "
        return "esz eal " if self.generic else ""

    def bindc(self, call, ty, k):
        r = self.fresh("r")
        return f"(RsT.bind ({call} t) fun t {r} =>\n{k(r, ty)})"

    def X(self, e, env, k):
        """expression; k(term, type) continues"""
        kind = e[0]
        if kind in ("paren", "unsafe"):
            return self.X(e[1], env, k)
        if kind == "block":
            return self.B(e, env, lambda t, ty, e2: k(t, ty))
        if kind == "ref" and e[1][0] == "deref":
            return self.X(e[1][1], env, k)
        if kind in ("ref", "deref"):
            return self.X(e[1], env, k)
        if kind == "int":
            return k(str(e[1]), NAT)
        if kind == "cast":
            return self.X(e[1], env, k)
        if kind == "path" and len(e[1]) == 1 and e[1][0] in env:
            return k(*env[e[1][0]])
        if kind == "closure":
            # `|| x` / `|_| x` with x a value in scope: the constant closure
            if all(p[0] == "pwild" for p in e[1]) and e[2][0] == "path" and len(e[2][1]) == 1 and e[2][1][0] in env and env[e[2][1][0]][1] == VAL:
                return k(f"(RsT.constClo {env[e[2][1][0]][0]})", CLO)
            if all(p[0] == "pwild" for p in e[1]):
                # `|_| body`: a closure whose body runs on the state current at the call
                body = self.X(e[2], env, lambda v, tv: f"(t, Outcome.ok {v})")
                return k(f"(fun _ t =>\n{body})", CLO)
            raise Untranslatable("closure literal")
        if kind == "try":
            return self.X(e[1], env, k)       # `?`: `err` already propagates through `RsT.bind`
        if kind == "macro" and e[1] == "debug_assert_eq":
            return self.X(e[2][0], env, lambda a, ta: self.X(e[2][1], env, lambda b, tb:
                          f"(if {a} == {b} then\n{k('()', UNIT)}\nelse {self.bad('debug_assert_eq!')})"))
        if kind == "field":
            if e[1] == ("path", ["self"]) and e[2] == "current_chunk_footer":
                return k("(t.st.a.cur E)", ("cell", CHUNKT))

            def kfld(v, tv):
                if tv == CHUNKT and e[2] == "ptr": return k(f"{v}.ptr", ("cell", NAT))
                raise Untranslatable(f"field .{e[2]} of {tv}")
            return self.X(e[1], env, kfld)
        if kind == "match":
            return self.MATCH_RESULT(e, env, k)
        if kind == "return":
            return self.X(e[1], env, lambda v, tv: f"(t, Outcome.ok {v})")
        if kind == "for":
            return self.FOR(e, env, k)
        if kind == "foriter":
            return self.FORENUM(e, env, k)
        if kind == "call" and e[1][0] == "path":
            segs, args = e[1][1], e[2]
            if segs == ["Layout", "new"] and not args:
                esz, eal = self.tp()
                return k(f"(Rs.Layout.mk {esz} {eal})", LAYOUT)
            if segs == ["Layout", "for_value"] and len(args) == 1:
                esz, eal = self.tp()

                def kv(v, tv):
                    if tv == SRC: return k(f"(Rs.Layout.mk ({esz} * {v}.length) {eal})", LAYOUT)
                    if tv == SLICEV: return k(f"(Rs.Layout.mk ({esz} * {v}.2) {eal})", LAYOUT)
                    raise Untranslatable("Layout::for_value of this value")
                return self.X(args[0], env, kv)
            if segs == ["Layout", "array<T>"] and len(args) == 1:
                esz, eal = self.tp()
                return self.X(args[0], env, lambda n, tn: k(f"(arrayLayout {esz} {eal} {n})", LAYRES))
            if segs[-2:] == ["ptr", "write"] and len(args) == 2:
                return self.X(args[0], env, lambda p, tp_: self.X(args[1], env, lambda v, tv: self.bindc(f"RsT.write {p} {v}", UNIT, k)))
            if segs[-2:] == ["ptr", "copy_nonoverlapping"] and len(args) == 3:
                esz, eal = self.tp()
                a0 = args[0]
                if not (a0[0] == "mcall" and a0[2] == "as_ptr" and a0[1][0] == "path" and env.get(a0[1][1][0], (None, None))[1] == SRC):
                    raise Untranslatable("copy source")
                srcv = env[a0[1][1][0]][0]
                return self.X(args[1], env, lambda d, td: self.X(args[2], env, lambda n, tn: self.bindc(f"RsT.copy_in {esz} {srcv} {d} {n}", UNIT, k)))
            if segs[-1] == "from_raw_parts_mut" and len(args) == 2:
                return self.X(args[0], env, lambda p, tp_: self.X(args[1], env, lambda n, tn: k(f"({p}, {n})", SLICEV)))
            if segs[-1] == "from_utf8_unchecked_mut" and len(args) == 1:
                return self.X(args[0], env, k)
            if segs == ["Ok"] and len(args) == 1:
                if self.generic in ("result", "tryfill"):
                    return self.X(args[0], env, lambda v, tv: k(f"(Except.ok {v})", self.ret))
                return self.X(args[0], env, k)
            if segs == ["NonNull", "from"] and len(args) == 1:
                return self.X(args[0], env, k)
            if segs == ["Err"] and len(args) == 1:
                return self.X(args[0], env, lambda v, tv: k(f"(Except.error {v})", self.ret))
            if segs == ["AllocOrInitError", "Init"] and len(args) == 1:
                return self.X(args[0], env, k)
            if segs[-2:] == ["ptr", "read"] and len(args) == 1:
                return self.X(args[0], env, k)       # `ptr::read(e)`: the value `e` refers to
            if segs == ["T", "default"] and not args and "#default" in env:
                return self.bindc("tdefault", VAL, k)
            if len(segs) == 1 and segs[0] in env and env[segs[0]][1] == CLO:
                if not args:
                    return self.bindc(f"RsT.call {env[segs[0]][0]} 0", VAL, k)
                return self.X(args[0], env, lambda a, ta: self.bindc(f"RsT.call {env[segs[0]][0]} {a}", VAL, k))
            if segs == ["inner_writer"] and len(args) == 2:
                esz, eal = self.tp()
                return self.X(args[0], env, lambda p, tp_: self.X(args[1], env, lambda f, tf:
                              self.bindc(f"Gen.Fn.{self.outer}_inner_writer E M {esz} {eal} {p} {f}", UNIT, k)))
            raise Untranslatable(f"call of {'::'.join(segs)}")
        if kind == "mcall":
            recv, name, args = e[1], e[2], e[3]
            if recv == ("path", ["self"]):
                if name == "dealloc" and len(args) == 2:
                    return self.X(args[0], env, lambda p_, tp_: self.X(args[1], env, lambda l, tl: self.bindc(f"RsT.liftS (Gen.Fn.dealloc E M {p_} {l})", UNIT, k)))
                if name in ("alloc_layout", "try_alloc_layout") and len(args) == 1:
                    return self.X(args[0], env, lambda l, tl: self.bindc(f"RsT.liftS (Gen.Fn.{name} E M {l})", NAT, k))
                if name in METHODS:
                    lean, generic, ret = METHODS[name]

                    def kargs(i, acc):
                        if i == len(args):
                            tys = ""
                            if generic:
                                # the callee's `T`: the caller's, or `u8` when the argument is the bytes of a `&str`
                                if self.generic == "result": tys = "rsz ral"
                                elif generic == "tryfill": tys = "esz eal isOk"
                                elif self.generic: tys = "esz eal"
                                else: tys = "1 1"
                            return self.bindc(f"Gen.Fn.{lean} E M {tys} {' '.join(acc)}", ret, k)
                        return self.X(args[i], env, lambda a, ta: kargs(i + 1, acc + [a]))
                    return kargs(0, [])
                raise Untranslatable(f"self.{name}()")

            def kr(t, ty):
                if name in ("cast", "as_ptr") and not args and ty == NAT: return k(t, NAT)
                if name == "get" and not args and isinstance(ty, tuple) and ty[0] == "cell": return k(t, ty[1])
                if name == "as_ref" and not args and ty == CHUNKT: return k(t, CHUNKT)
                if name == "as_mut" and not args and ty == NAT and self.generic == "result": return k(t, RESREF)
                if name == "clone" and not args and ty == VAL and "#clone" in env: return self.bindc(f"tclone {t}", VAL, k)
                if name == "into_iter" and not args and ty == ITER: return k(t, ITER)
                if name == "len" and not args and ty == ITER: return k(f"{t}_claimed", NAT)
                if name == "next" and not args and ty == ITER: return self.bindc(f"RsT.iter_next {t}", OPTVAL, k)
                if name == "expect" and ty == OPTVAL:
                    x = self.fresh("x")
                    return f"(match {t} with\n| none => (t, Outcome.panic)\n| some {x} =>\n{k(x, VAL)})"
                if name == "as_bytes" and not args and ty == SRC: return k(t, SRC)
                if name == "len" and not args and ty == SRC: return k(f"{t}.length", NAT)
                if name == "add" and len(args) == 1 and ty == NAT:
                    esz, eal = self.tp()
                    return self.X(args[0], env, lambda i, ti: k(f"({t} + {i} * {esz})", NAT))
                if name == "unwrap_or_else" and ty == LAYRES:
                    x = self.fresh("total")
                    esz, eal = self.tp()
                    return f"(match {t} with\n| none => (t, Outcome.panic)\n| some {x} =>\n{k(f'(Rs.Layout.mk {x} {eal})', LAYOUT)})"
                if name == "map_err" and ty == LAYRES:
                    x = self.fresh("total")
                    esz, eal = self.tp()
                    return f"(match {t} with\n| none => (t, Outcome.err)\n| some {x} =>\n{k(f'(Rs.Layout.mk {x} {eal})', LAYOUT)})"
                raise Untranslatable(f"method .{name} on {ty}")
            return self.X(recv, env, kr)
        raise Untranslatable(f"expression form {kind}")

    def FOR(self, e, env, k):
        _, pat, rng, body = e
        if pat[0] != "pid" or rng[0] != "range" or rng[1] != ("int", 0):
            raise Untranslatable("loop shape")
        name = f"{self.lean}.loop"
        captured = [(ln, ty) for kk, (ln, ty) in env.items() if ty in LEAN_TY and not kk.startswith("#")]
        cparams = " ".join(f"({ln} : {LEAN_TY[ty]})" for ln, ty in captured)
        cargs = " ".join(ln for ln, _ in captured)
        tys, targs = self.tparams(), self.targs()
        i, rest = self.fresh("i"), self.fresh("rest")
        envl = dict(env); envl[pat[1]] = (i, NAT)
        again = f"(Gen.Fn.{name} E M {targs}{cargs} {rest} ({i} + 1) t)"
        inner = self.B(body, envl, lambda t_, ty_, e2: again)
        if mentions_return(body):
            # the body may leave the function: the loop function has the function's own result type and what follows the loop is
            # translated inside its exit branch
            after = k("()", UNIT)
            self.defs.append(f"def {name} (E M : Nat) {tys}{cparams} : Nat → Nat → RsT.TS → RsT.TS × Outcome {LEAN_TY[self.ret]}\n"
                             f"  | 0, _, t =>\n" + indent(after, 2) + f"\n  | {rest} + 1, {i}, t =>\n" + indent(inner, 2) + "\n")
            return self.X(rng[2], env, lambda n, tn: f"(Gen.Fn.{name} E M {targs}{cargs} {n} 0 t)")
        self.defs.append(f"def {name} (E M : Nat) {tys}{cparams} : Nat → Nat → RsT.TS → RsT.TS × Outcome Unit\n"
                         f"  | 0, _, t => (t, Outcome.ok ())\n  | {rest} + 1, {i}, t =>\n" + indent(inner, 2) + "\n")
        return self.X(rng[2], env, lambda n, tn: self.bindc(f"Gen.Fn.{name} E M {targs}{cargs} {n} 0", UNIT, k))

    def MATCH_RESULT(self, e, env, k):
        """`match r { Ok(t) => A, Err(e) => B }` on the `&mut Result<T, E>` just written into the arena: the value is what the
        last write to that address stored (`RsT.read_val`; nothing there is `bad`); `isOk` says which variant it is, the `Ok`
        payload lives `okOff` bytes into the `Result`.  The statements of the `Err` arm (the rewind) are the region the main
        translator turns into `Gen.Fn.<fn>_rewind` (Gen/FnRewind.lean), called here on the arena state."""
        _, scrut, arms = e
        if len(arms) != 2 or arms[0][0][:2] != ("pts", ["Ok"]) or arms[1][0][:2] != ("pts", ["Err"]) or self.generic not in ("result", "tryfill"):
            raise Untranslatable("match shape")
        okv, errv = arms[0][0][2][0][1], arms[1][0][2][0][1]
        if self.generic == "tryfill":
            # `match f(i) { Ok(el) => A, Err(e) => B }` on the `Result<T, E>` the closure returned by value: `isOk` tells the variant;
            # the payload is the same opaque token
            def kv(v, tv):
                if tv != VAL: raise Untranslatable("match on this value")
                e_ok = dict(env); e_ok[okv] = (v, VAL)
                e_err = dict(env); e_err[errv] = (v, VAL)
                return f"(if isOk {v} then\n{self.X(arms[0][2], e_ok, k)}\nelse\n{self.X(arms[1][2], e_err, k)})"
            return self.X(scrut, env, kv)

        def ks(p, tp_):
            if tp_ != RESREF: raise Untranslatable("match on this value")
            v = self.fresh("v")
            e_ok = dict(env); e_ok[okv] = (f"({p} + okOff)", NAT)
            e_err = dict(env); e_err[errv] = (v, VAL)
            okb = self.X(arms[0][2], e_ok, k)
            blk = arms[1][2]
            while blk[0] == "unsafe": blk = blk[1]
            if blk[0] != "block" or blk[2] is None: raise Untranslatable("Err arm shape")
            need = ("rewind_footer", "rewind_ptr")
            if any(n not in env for n in need): raise Untranslatable("rewind locals")
            tail = self.X(blk[2], e_err, k)
            errb = (f"(RsT.bind (RsT.liftS (Gen.Fn.{self.name}_rewind E M {env['rewind_footer'][0]} {env['rewind_ptr'][0]} {p}) t) fun t _ =>\n{tail})")
            return (f"(match RsT.read_val {p} t with\n| none => {self.bad('read of a slot nothing was written to')}\n| some {v} =>\n"
                    f"(if isOk {v} then\n{okb}\nelse\n{errb}))")
        return self.X(scrut, env, ks)

    def FORENUM(self, e, env, k):
        """`for (i, val) in src.iter().cloned().enumerate() { … }`: recursive on the list, the index counted up; the element is
        cloned when the iterator is advanced (the `Cloned` adapter), i.e. at the head of each iteration"""
        _, pat, it, body = e
        ok = (pat[0] == "ptuple" and len(pat[1]) == 2 and all(q[0] == "pid" for q in pat[1]) and it[0] == "mcall" and it[2] == "enumerate"
              and it[1][0] == "mcall" and it[1][2] == "cloned" and it[1][1][0] == "mcall" and it[1][1][2] == "iter" and it[1][1][1][0] == "path"
              and env.get(it[1][1][1][1][0], (None, None))[1] == SRC and "#clone" in env)
        if not ok: raise Untranslatable("for over this iterator")
        srcv = env[it[1][1][1][1][0]][0]
        name = f"{self.lean}.loop"
        captured = [(ln, ty) for kk, (ln, ty) in env.items() if ty in LEAN_TY and not kk.startswith("#")]
        cparams = " ".join(f"({ln} : {LEAN_TY[ty]})" for ln, ty in captured)
        cargs = " ".join(ln for ln, _ in captured)
        x, rest, i, val = self.fresh("x"), self.fresh("rest"), self.fresh(pat[1][0][1]), self.fresh(pat[1][1][1])
        envl = dict(env); envl[pat[1][0][1]] = (i, NAT); envl[pat[1][1][1]] = (val, VAL)
        again = f"(Gen.Fn.{name} E M esz eal tclone {cargs} {rest} ({i} + 1) t)"
        inner = f"(RsT.bind (tclone {x} t) fun t {val} =>\n{self.B(body, envl, lambda t_, ty_, e2: again)})"
        self.defs.append(f"def {name} (E M : Nat) (esz eal : Nat) (tclone : RsT.Val → RsT.TS → RsT.TS × Outcome RsT.Val) {cparams} : List RsT.Val → Nat → RsT.TS → RsT.TS × Outcome Unit\n"
                         f"  | [], _, t => (t, Outcome.ok ())\n  | {x} :: {rest}, {i}, t =>\n" + indent(inner, 2) + "\n")
        return self.bindc(f"Gen.Fn.{name} E M esz eal tclone {cargs} {srcv} 0", UNIT, k)

    def B(self, blk, env, k):
        """block: k(term, type, env)"""
        if blk[0] == "unsafe": return self.B(blk[1], env, k)
        if blk[0] != "block": return self.X(blk, env, lambda t, ty: k(t, ty, env))
        _, stmts, tail = blk

        def go(i, env_):
            if i == len(stmts):
                if tail is None: return k("()", UNIT, env_)
                return self.X(tail, env_, lambda t, ty: k(t, ty, env_))
            st = stmts[i]
            if st[0] == "let" and st[1][0] == "pid":
                def kl(t, ty):
                    if ty in (LAYRES,): raise Untranslatable("unresolved Result bound to a local")
                    if ty == ITER:
                        e2 = dict(env_); e2[st[1][1]] = (t, ty)
                        return go(i + 1, e2)
                    ln = self.fresh(st[1][1]); e2 = dict(env_); e2[st[1][1]] = (ln, ty)
                    return f"let {ln} := {t};\n{go(i + 1, e2)}"
                return self.X(st[2], env_, kl)
            if st[0] == "expr":
                return self.X(st[1], env_, lambda t, ty: go(i + 1, env_))
            raise Untranslatable(f"statement {st[0]}")
        return go(0, env)


def mentions_return(e):
    if isinstance(e, tuple):
        return (len(e) > 0 and e[0] == "return") or any(mentions_return(x) for x in e)
    if isinstance(e, list):
        return any(mentions_return(x) for x in e)
    return False


def indent(text, base=1):
    out, depth = [], 0
    for line in text.split("\n"):
        line = line.strip()
        if not line: continue
        lead = 0
        for c in line:
            if c == ")": lead += 1
            else: break
        out.append("  " * (base + max(depth - lead, 0)) + line)
        depth += line.count("(") - line.count(")")
    return "\n".join(out)


HEADER = """import BumpVerif.Model.RsTyped
import BumpVerif.Gen.FnGlue
import BumpVerif.Gen.FnRewind
/-! GENERATED by tools/rs2lean_typed.py from /repo/src/lib.rs — do not edit.
The typed allocation methods of `Bump` (`alloc`, `alloc_with`, `alloc_slice_copy`, `alloc_str`, `alloc_slice_fill_with`, … and their
`try_` twins), translated statement by statement over the translated `alloc_layout` / `try_alloc_layout`. -/
set_option linter.unusedVariables false
namespace Gen.Fn
open Bump

"""


def translate_all(repo):
    report, out = {}, []
    src = rsparse.strip_comments(open(os.path.join(repo, FILE)).read())
    METHODS.clear()
    # callees first: a method may call one that appears later in the table
    order = sorted(range(len(FUNCS)), key=lambda i: (0 if "inner_writer" in FUNCS[i][0] else
                                                       1 if FUNCS[i][0] in ("alloc_with", "try_alloc_with", "alloc_slice_copy", "try_alloc_slice_copy",
                                                                            "alloc_slice_fill_with", "try_alloc_slice_fill_with") else 2, i))
    LEAN_TY["trait"] = "Unit"
    for idx in order:
        name, anchor, lean, generic, params, ret = FUNCS[idx]
        try:
            sig, body = rsparse.find_fn(src, name, 0, anchor)
            outer = lean if name != "inner_writer" else lean
            t = T(name, lean, generic, lean)
            t.ret = ret
            env = {n: (n, ty) for n, ty in params}
            text = t.B(body, env, lambda v, ty, e2: f"(t, Outcome.ok {v})")
            tys = t.tparams()
            pl = []
            for n, ty in params:
                if n == "#clone": pl.append("(tclone : RsT.Val → RsT.TS → RsT.TS × Outcome RsT.Val)")
                elif n == "#default": pl.append("(tdefault : RsT.TS → RsT.TS × Outcome RsT.Val)")
                elif ty == ITER: pl.append(f"({n} : List RsT.Val) ({n}_claimed : Nat)")
                else: pl.append(f"({n} : {LEAN_TY[ty]})")
            ps = " ".join(pl)
            out.append("\n".join(t.defs) + f"/-- `fn {name}`{' (nested in `' + anchor[7:] + '`)' if name == 'inner_writer' else ''} -/\n"
                       f"def {lean} (E M : Nat) {tys}{ps} (t : RsT.TS) : RsT.TS × Outcome {LEAN_TY[ret]} :=\n" + indent(text) + "\n")
            report[lean] = "ok"
            if name != "inner_writer":
                METHODS[name] = (lean, generic, ret)
        except (ParseError, Untranslatable, KeyError, IndexError, TypeError) as ex:
            out.append(f"/- `{name}` ({lean}) could not be translated: {type(ex).__name__}: {ex} -/\n")
            report[lean] = f"untranslatable: {type(ex).__name__}: {ex}"
    return HEADER + "\n".join(out) + "\nend Gen.Fn\n", report


def run(repo, out_dir, write_if_changed):
    text, report = translate_all(repo)
    changed = write_if_changed(os.path.join(out_dir, "FnTyped.lean"), text)
    return {"fn_bodies_typed": report, "fn_typed_changed": changed}


if __name__ == "__main__":
    text, report = translate_all(os.environ.get("BV_REPO", "/repo"))
    print(text)
    for k, v in report.items():
        print(f"-- {k}: {v}")
