#!/usr/bin/env python3
"""Translator: regenerates lean/BumpVerif/Gen/*.lean from /repo/src on every run.

It reads only the few item shapes the model is stated over (constants, the ChunkFooter
field list, repr attributes, the MIN_ALIGN assertions, RawVec growth constants, the UTF-8
width table and the public signatures) and fails loudly (exit 2, message on stderr)
when one of them is missing or ambiguous.  Files are rewritten only when their content
changes so that lake's incremental build stays warm."""
import os, re, sys, json

REPO = os.environ.get("BV_REPO", "/repo")
OUT = os.path.join(os.path.dirname(os.path.abspath(__file__)), "..", "lean", "BumpVerif", "Gen")

class ExtractError(Exception):
    pass

def read(rel):
    with open(os.path.join(REPO, rel)) as f:
        return f.read()

def strip_comments(src):
    src = re.sub(r"/\*.*?\*/", "", src, flags=re.S)
    return "\n".join(l.split("//")[0] if not l.strip().startswith("//") else "" for l in src.split("\n"))

def one(pattern, src, what, flags=re.S):
    ms = re.findall(pattern, src, flags)
    if len(ms) != 1:
        raise ExtractError(f"{what}: expected exactly one match, found {len(ms)}")
    return ms[0]

def parse_int(expr, env):
    """tiny const-expression evaluator: literals, names, + - * << and parentheses"""
    e = expr.strip().replace("_", "") if re.fullmatch(r"[0-9a-fA-Fx_]+", expr.strip()) else expr.strip()
    toks = re.findall(r"0x[0-9a-fA-F_]+|\d[\d_]*|[A-Za-z_][A-Za-z0-9_]*|<<|[-+*()]", e)
    py = []
    for t in toks:
        if re.fullmatch(r"0x[0-9a-fA-F_]+|\d[\d_]*", t):
            py.append(str(int(t.replace("_", ""), 0)))
        elif t in ("<<", "+", "-", "*", "(", ")"):
            py.append(t)
        elif t in env:
            py.append(str(env[t]))
        else:
            raise ExtractError(f"unknown name {t!r} in constant expression {expr!r}")
    return int(eval(" ".join(py), {"__builtins__": {}}))

SIZES = {  # 64-bit target layout rules (stated in DESIGN.md §2): (size, align)
    "NonNull<u8>": (8, 8), "Layout": (16, 8), "Cell<NonNull<ChunkFooter>>": (8, 8),
    "Cell<NonNull<u8>>": (8, 8), "usize": (8, 8),
}

def repr_c_layout(fields):
    off, al = 0, 1
    for name, ty in fields:
        if ty not in SIZES:
            raise ExtractError(f"ChunkFooter field {name}: unknown type {ty!r}")
        s, a = SIZES[ty]
        off = (off + a - 1) // a * a
        off += s
        al = max(al, a)
    return (off + al - 1) // al * al, al

def extract_lib():
    raw = read("src/lib.rs")
    src = strip_comments(raw)
    env = {}
    def const(name):
        body = one(r"\bconst\s+%s\s*:\s*usize\s*=\s*([^;]+);" % name, src, f"const {name}")
        return body.strip()
    env["TYPICAL_PAGE_SIZE"] = parse_int(const("TYPICAL_PAGE_SIZE"), env)
    env["SUPPORTED_ITER_ALIGNMENT"] = parse_int(const("SUPPORTED_ITER_ALIGNMENT"), env)
    env["CHUNK_ALIGN"] = parse_int(const("CHUNK_ALIGN"), env)
    env["MALLOC_OVERHEAD"] = parse_int(const("MALLOC_OVERHEAD"), env)
    env["FIRST_ALLOCATION_GOAL"] = parse_int(const("FIRST_ALLOCATION_GOAL"), env)
    # FOOTER_SIZE = size_of::<ChunkFooter>() under repr(C)
    fs = const("FOOTER_SIZE")
    if not re.fullmatch(r"mem::size_of::<ChunkFooter>\(\)", fs):
        raise ExtractError(f"FOOTER_SIZE is no longer size_of::<ChunkFooter>(): {fs}")
    m = one(r"((?:#\[[^\]]*\]\s*)*)struct\s+ChunkFooter\s*\{(.*?)\n\}", src, "struct ChunkFooter")
    attrs, body = m
    if "repr(C)" not in attrs.replace(" ", ""):
        raise ExtractError("ChunkFooter is not #[repr(C)]")
    fields = [(a, b.strip()) for a, b in re.findall(r"(\w+)\s*:\s*([^,\n]+),", body)]
    if [f for f, _ in fields] != ["data", "layout", "prev", "ptr", "allocated_bytes"]:
        raise ExtractError(f"ChunkFooter fields changed: {fields}")
    fsize, falign = repr_c_layout(fields)
    m = re.search(r"repr\(\s*C\s*,\s*align\((\d+)\)\s*\)", attrs)
    if m:
        falign = max(falign, int(m.group(1))); fsize = (fsize + falign - 1) // falign * falign
    env["FOOTER_SIZE"], env["FOOTER_ALIGN"] = fsize, falign
    # OVERHEAD = round_up_to(MALLOC_OVERHEAD + FOOTER_SIZE, CHUNK_ALIGN)
    ov = one(r"\bconst\s+OVERHEAD\s*:\s*usize\s*=\s*match\s+round_up_to\(([^)]*)\)", src, "const OVERHEAD")
    a, d = [x.strip() for x in ov.split(",")]
    n, dv = parse_int(a, env), parse_int(d, env)
    env["OVERHEAD"] = (n + dv - 1) // dv * dv
    env["DEFAULT_CHUNK_SIZE_WITHOUT_FOOTER"] = parse_int(const("DEFAULT_CHUNK_SIZE_WITHOUT_FOOTER"), env)
    # alignment of the static empty chunk
    m = one(r"((?:#\[[^\]]*\]\s*)*)struct\s+EmptyChunkFooter\s*\(\s*ChunkFooter\s*\)\s*;", src, "struct EmptyChunkFooter")
    am = re.search(r"align\((\d+)\)", m)
    env["EMPTY_ALIGN"] = max(falign, int(am.group(1))) if am else falign
    # constructor assertions on MIN_ALIGN: both constructors must assert power of two and <= CHUNK_ALIGN
    n_pow2 = len(re.findall(r"assert!\(\s*MIN_ALIGN\.is_power_of_two\(\)", src))
    n_le = len(re.findall(r"assert!\(\s*MIN_ALIGN\s*<=\s*CHUNK_ALIGN", src))
    n_ctor = len(re.findall(r"pub\s+fn\s+(?:with_min_align|try_with_min_align_and_capacity)\s*\(", src))
    env["CTOR_ASSERTS_OK"] = 1 if (n_pow2 >= n_ctor and n_le >= n_ctor and n_ctor == 2) else 0
    # chunk alignment requested = CHUNK_ALIGN.max(MIN_ALIGN).max(layout.align())
    env["NEW_CHUNK_ALIGN_MAX3"] = 1 if re.search(r"CHUNK_ALIGN\s*\.max\(MIN_ALIGN\)\s*\.max\(requested_layout\.align\(\)\)", src) else 0
    # every store of a chunk's bump finger goes through ChunkFooter::set_ptr, which skips the shared static
    stores = re.findall(r"\.ptr\s*\.set\(", src) + re.findall(r"current_ptr\.set\(", src)
    m = re.search(r"fn\s+set_ptr\s*\(&self[^)]*\)\s*\{(.*?)\n    \}", src, re.S)
    guarded = bool(m) and len(stores) == 1 and ".ptr.set(" in m.group(1).replace(" ", "") and \
        re.search(r"if\s+self\.is_empty\(\)\s*\{[^}]*\}\s*else\s*\{[^}]*ptr\.set\(", m.group(1), re.S) is not None
    env["STATIC_STORE_GUARDED"] = 1 if guarded else 0
    return env

def lean_consts(env):
    lines = ["/-! GENERATED by tools/extract.py from /repo/src/lib.rs — do not edit. -/", "namespace Gen", ""]
    for k in ["TYPICAL_PAGE_SIZE", "SUPPORTED_ITER_ALIGNMENT", "CHUNK_ALIGN", "MALLOC_OVERHEAD",
              "FIRST_ALLOCATION_GOAL", "FOOTER_SIZE", "FOOTER_ALIGN", "OVERHEAD",
              "DEFAULT_CHUNK_SIZE_WITHOUT_FOOTER", "EMPTY_ALIGN", "CTOR_ASSERTS_OK", "NEW_CHUNK_ALIGN_MAX3",
              "STATIC_STORE_GUARDED"]:
        lines.append(f"def {k} : Nat := {env[k]}")
    lines += ["", "end Gen", ""]
    return "\n".join(lines)

def write_if_changed(path, content):
    os.makedirs(os.path.dirname(path), exist_ok=True)
    try:
        if open(path).read() == content:
            return False
    except FileNotFoundError:
        pass
    with open(path, "w") as f:
        f.write(content)
    return True

def main():
    try:
        env = extract_lib()
        changed = write_if_changed(os.path.join(OUT, "Consts.lean"), lean_consts(env))
        extra = {}
        for modname in ("extract_more", "extract_str", "extract_box", "rs2lean", "rs2lean_box", "rs2lean_lossy", "rs2lean_str", "rs2lean_chunks", "rs2lean_typed", "rs2lean_splice", "rs2lean_slices", "rs2lean_splicedrop", "rs2lean_strfwd", "rs2lean_fwd"):
            try:
                mod = __import__(modname)
            except ImportError:
                continue
            try:
                extra.update(mod.run(REPO, OUT, write_if_changed) or {})
            except ExtractError:
                raise
            except Exception as e:  # family translators signal unreadable items with their own error types
                raise ExtractError(f"{modname}: {e}")
        print(json.dumps({"ok": True, "consts": env, "changed": changed, **extra}))
    except ExtractError as e:
        print(json.dumps({"ok": False, "error": str(e)}))
        sys.exit(2)

if __name__ == "__main__":
    sys.path.insert(0, os.path.dirname(os.path.abspath(__file__)))
    main()
