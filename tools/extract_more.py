#!/usr/bin/env python3
"""Translator, part 2 (property C05): regenerates lean/BumpVerif/Gen/Api.lean from
/repo/src/{lib.rs,boxed.rs,collections/{vec,string,raw_vec}.rs} on every run.

Recorded, as a value of type `Bump.Sig.Sigs` (lean/BumpVerif/Model/AutoTraits.lean):
  * for the structs the property is about (Bump, ChunkFooter, EmptyChunkFooter, ChunkIter, ChunkRawIter, Box,
    Vec, vec::{IntoIter,Drain,Splice,DrainFilter}, String, FromUtf8Error, string::Drain, RawVec) and every other
    `pub struct` of these files: lifetime and type parameters, field types (in the type language `Ty`), the
    lifetimes each field mentions, every hand-written `impl Send/Sync` with its bounds, whether there is an
    `impl Drop`;
  * for every `pub fn` of an inherent impl of those structs, and `Iterator::next` / `IntoIterator::into_iter`:
    receiver kind, `unsafe`, whether a parameter is `&'x Bump`, whether another parameter is a reference, and
    which lifetime the return type carries (the receiver borrow's / the arena lifetime / another one), whether it
    is a raw pointer, and the struct it names.

It is a brace/angle-level reader of item headers, not a Rust parser; it raises ApiError (the translator then
exits 2) when an item it needs is missing, ambiguous, or has a shape it cannot read."""
import os, re, sys, json

FILES = ["src/lib.rs", "src/boxed.rs", "src/collections/vec.rs", "src/collections/string.rs", "src/collections/raw_vec.rs"]

# extract.py runs as __main__ and catches *its own* ExtractError class: derive from that one so that its main()
# reports the message and exits 2 (a second `import extract` would create a different class object)
_Base = getattr(sys.modules.get("__main__"), "ExtractError", None)
if not (isinstance(_Base, type) and issubclass(_Base, Exception)):
    try:
        from extract import ExtractError as _Base
    except Exception:  # pragma: no cover
        _Base = Exception


class ApiError(_Base):
    pass


# struct name as written in a file -> name in the table
LOCAL_NAMES = {
    "src/lib.rs": {"Bump": "Bump", "ChunkFooter": "ChunkFooter", "EmptyChunkFooter": "EmptyChunkFooter",
                   "ChunkIter": "ChunkIter", "ChunkRawIter": "ChunkRawIter"},
    "src/boxed.rs": {"Box": "Box"},
    "src/collections/vec.rs": {"Vec": "Vec", "IntoIter": "vec::IntoIter", "Drain": "vec::Drain",
                               "Splice": "vec::Splice", "DrainFilter": "vec::DrainFilter"},
    "src/collections/string.rs": {"String": "String", "FromUtf8Error": "FromUtf8Error", "Drain": "string::Drain"},
    "src/collections/raw_vec.rs": {"RawVec": "RawVec"},
}
GLOBAL_NAMES = {"Bump": "Bump", "ChunkFooter": "ChunkFooter", "ChunkIter": "ChunkIter", "ChunkRawIter": "ChunkRawIter",
                "Box": "Box", "Vec": "Vec", "String": "String", "RawVec": "RawVec"}
# path prefixes that stay inside the crate
CRATE_SEGS = {"crate", "self", "super", "boxed", "vec", "string", "collections", "raw_vec", "bumpalo"}
REQUIRED_STRUCTS = [n for f in FILES for n in LOCAL_NAMES[f].values()]
REQUIRED_METHODS = {
    "Bump": ["new", "alloc", "try_alloc", "alloc_with", "try_alloc_with", "alloc_try_with", "try_alloc_try_with",
             "alloc_slice_copy", "try_alloc_slice_copy", "alloc_slice_clone", "try_alloc_slice_clone", "alloc_str",
             "try_alloc_str", "alloc_slice_fill_with", "alloc_slice_try_fill_with", "try_alloc_slice_fill_with",
             "alloc_slice_fill_copy", "try_alloc_slice_fill_copy", "alloc_slice_fill_clone",
             "try_alloc_slice_fill_clone", "alloc_slice_fill_iter", "alloc_slice_try_fill_iter",
             "try_alloc_slice_fill_iter", "alloc_slice_fill_default", "try_alloc_slice_fill_default", "alloc_layout",
             "try_alloc_layout", "reset", "iter_allocated_chunks", "iter_allocated_chunks_raw",
             "set_allocation_limit", "allocation_limit", "chunk_capacity", "allocated_bytes",
             "allocated_bytes_including_metadata"],
    "Vec": ["new_in", "with_capacity_in", "from_iter_in", "bump", "into_bump_slice", "into_bump_slice_mut", "drain",
            "drain_filter", "splice", "into_boxed_slice", "into_iter", "as_slice"],
    "String": ["new_in", "with_capacity_in", "from_str_in", "from_iter_in", "bump", "into_bytes", "into_bump_str",
               "as_str", "drain"],
    "Box": ["new_in", "pin_in", "from_iter_in", "leak", "into_raw", "into_inner"],
    "RawVec": ["new_in", "with_capacity_in", "bump"],
    "ChunkIter": ["next"],
    "ChunkRawIter": ["next"],
    "vec::IntoIter": ["next", "as_slice"],
    "vec::Drain": ["next"],
    "string::Drain": ["next"],
}
PRIMS = {"usize", "u8", "u16", "u32", "u64", "u128", "isize", "i8", "i16", "i32", "i64", "bool", "char", "Layout",
         "Utf8Error", "Chars", "str"}
WRAPS = {"Option", "MaybeUninit", "ManuallyDrop"}
PEEL = {"Result", "Option", "Pin"}


# ------------------------------------------------------------------------------------------------
# lexical layer
# ------------------------------------------------------------------------------------------------

def strip_source(src):
    """remove comments, string literals and char literals (lifetimes stay), keeping newlines"""
    out, i, n = [], 0, len(src)
    while i < n:
        c = src[i]
        if src.startswith("//", i):
            j = src.find("\n", i)
            i = n if j < 0 else j
        elif src.startswith("/*", i):
            depth, i = 1, i + 2
            while i < n and depth:
                if src.startswith("/*", i):
                    depth += 1; i += 2
                elif src.startswith("*/", i):
                    depth -= 1; i += 2
                else:
                    if src[i] == "\n":
                        out.append("\n")
                    i += 1
        elif c == '"' or (c == "b" and src.startswith('b"', i)) or (c == "r" and re.match(r'r#*"', src[i:])):
            m = re.match(r'b?r(#*)"', src[i:])
            if m:
                end = src.find('"' + m.group(1), i + len(m.group(0)))
                seg = src[i:end + 1 + len(m.group(1))] if end >= 0 else src[i:]
                i += len(seg)
            else:
                j = i + (2 if c == "b" else 1)
                while j < n and src[j] != '"':
                    j += 2 if src[j] == "\\" else 1
                seg = src[i:j + 1]
                i = j + 1
            out.append('""' + "\n" * seg.count("\n"))
        elif c == "'":
            m = re.match(r"'(\\.[^']*|[^'\\])'", src[i:])
            if m:
                out.append("' '")
                i += len(m.group(0))
            else:
                out.append(c); i += 1
        else:
            out.append(c); i += 1
    return "".join(out)


def match_close(s, i, open_ch, close_ch):
    """s[i] == open_ch; index of the matching close (angle brackets: `->` is not a bracket)"""
    depth, n = 0, len(s)
    while i < n:
        c = s[i]
        if open_ch == "<" and s.startswith("->", i):
            i += 2
            continue
        if open_ch == "<" and c in "=!" and s.startswith(">", i + 1):  # `=>`
            i += 2
            continue
        if c == open_ch:
            depth += 1
        elif c == close_ch:
            depth -= 1
            if depth == 0:
                return i
        i += 1
    raise ApiError(f"unbalanced {open_ch}{close_ch}")


def split_top(s, sep=","):
    """split at separators outside <>, (), [], {}"""
    parts, depth, cur, i = [], 0, [], 0
    while i < len(s):
        c = s[i]
        if s.startswith("->", i):
            cur.append("->"); i += 2
            continue
        if c in "<([{":
            depth += 1
        elif c in ">)]}":
            depth -= 1
        if c == sep and depth == 0:
            parts.append("".join(cur)); cur = []
        else:
            cur.append(c)
        i += 1
    if "".join(cur).strip():
        parts.append("".join(cur))
    return [p.strip() for p in parts]


def parse_generics(g):
    """`'a, 'bump: 'a, T: 'a + Send, const N: usize = 1` -> (lifetimes, type params, {param: [bounds]})"""
    lts, tps, bounds = [], [], {}
    for p in split_top(g or ""):
        if not p:
            continue
        if p.startswith("'"):
            lts.append(p.split(":")[0].strip())
        elif p.startswith("const "):
            continue
        else:
            name = re.split(r"[:=]", p)[0].strip()
            tps.append(name)
            if ":" in p:
                bounds[name] = [b.strip() for b in split_top(p.split(":", 1)[1].split("=")[0], "+")]
    return lts, tps, bounds


# ------------------------------------------------------------------------------------------------
# types
# ------------------------------------------------------------------------------------------------

class TyParser:
    def __init__(self, text):
        self.toks = re.findall(r"'\w+|->|::|[A-Za-z_]\w*|\d+|[&*<>()\[\],;+=?!]", text)
        self.i = 0
        self.text = text

    def peek(self):
        return self.toks[self.i] if self.i < len(self.toks) else None

    def eat(self, t=None):
        tok = self.peek()
        if tok is None or (t is not None and tok != t):
            raise ApiError(f"type {self.text!r}: expected {t!r}, found {tok!r}")
        self.i += 1
        return tok

    def parse(self):
        ty = self.ty()
        if self.peek() is not None:
            raise ApiError(f"type {self.text!r}: trailing {self.peek()!r}")
        return ty

    def ty(self):
        t = self.peek()
        if t == "&":
            self.eat()
            lt = None
            if self.peek() and self.peek().startswith("'"):
                lt = self.eat()
            mut = False
            if self.peek() == "mut":
                self.eat(); mut = True
            return ("ref", lt, mut, self.ty())
        if t == "*":
            self.eat()
            k = self.eat()
            if k not in ("const", "mut"):
                raise ApiError(f"type {self.text!r}: bad raw pointer")
            return ("ptr", k == "mut", self.ty())
        if t == "(":
            self.eat()
            items = []
            while self.peek() != ")":
                items.append(self.ty())
                if self.peek() == ",":
                    self.eat()
            self.eat(")")
            return ("tuple", items)
        if t == "[":
            self.eat()
            inner = self.ty()
            if self.peek() == ";":
                self.eat()
                while self.peek() != "]":
                    self.eat()
            self.eat("]")
            return ("slice", inner)
        if t == "!":
            self.eat()
            return ("path", ["!"], [], [])
        if t in ("dyn", "impl"):
            self.eat()
            bounds = [self.ty()]
            while self.peek() == "+":
                self.eat()
                bounds.append(("lt", self.eat()) if self.peek().startswith("'") else self.ty())
            return ("dyn", bounds)
        if t == "fn":
            self.eat(); self.eat("(")
            args = []
            while self.peek() != ")":
                args.append(self.ty())
                if self.peek() == ",":
                    self.eat()
            self.eat(")")
            ret = None
            if self.peek() == "->":
                self.eat(); ret = self.ty()
            return ("fnptr", args, ret)
        if t == "<":  # qualified path `<T as Trait>::X`
            self.eat(); inner = self.ty()
            if self.peek() == "as":
                self.eat(); self.ty()
            self.eat(">")
            segs = ["<q>"]
            while self.peek() == "::":
                self.eat(); segs.append(self.eat())
            return ("path", segs, [], [inner])
        if t is None or not re.match(r"[A-Za-z_]", t):
            raise ApiError(f"type {self.text!r}: unexpected token {t!r}")
        segs = [self.eat()]
        lts, targs = [], []
        while True:
            if self.peek() == "::":
                self.eat()
                if self.peek() == "<":
                    continue
                segs.append(self.eat())
            elif self.peek() == "<":
                self.eat()
                while self.peek() != ">":
                    p = self.peek()
                    if p.startswith("'"):
                        lts.append(self.eat())
                    elif re.fullmatch(r"[A-Z][A-Z0-9_]+|\d+", p) and self.toks[self.i + 1] in (",", ">"):
                        self.eat()  # const generic argument
                    else:
                        # associated type binding `Item = T`
                        if self.i + 1 < len(self.toks) and self.toks[self.i + 1] == "=":
                            self.eat(); self.eat()
                        targs.append(self.ty())
                    if self.peek() == ",":
                        self.eat()
                self.eat(">")
            else:
                break
        return ("path", segs, lts, targs)


def ty_lifetimes(ty, known_lt_arity):
    """-> (set of named lifetimes, elided?) of a parsed type; known_lt_arity: resolver(segs) -> number of lifetime
    parameters of a crate struct named by the path, or None"""
    named, elided = set(), False
    k = ty[0]
    if k == "ref":
        if ty[1] is None or ty[1] == "'_":
            elided = True
        else:
            named.add(ty[1])
        n2, e2 = ty_lifetimes(ty[3], known_lt_arity)
        return named | n2, elided or e2
    if k == "ptr":
        return ty_lifetimes(ty[2], known_lt_arity)
    if k in ("tuple",):
        for t in ty[1]:
            n2, e2 = ty_lifetimes(t, known_lt_arity)
            named |= n2; elided |= e2
        return named, elided
    if k == "slice":
        return ty_lifetimes(ty[1], known_lt_arity)
    if k == "dyn":
        for t in ty[1]:
            if t[0] == "lt":
                named.add(t[1])
            else:
                n2, e2 = ty_lifetimes(t, known_lt_arity)
                named |= n2; elided |= e2
        return named, elided
    if k == "fnptr":
        return named, elided
    if k == "path":
        for lt in ty[2]:
            if lt == "'_":
                elided = True
            else:
                named.add(lt)
        ar = known_lt_arity(ty[1])
        if ar is not None and len(ty[2]) < ar:
            elided = True
        for t in ty[3]:
            n2, e2 = ty_lifetimes(t, known_lt_arity)
            named |= n2; elided |= e2
        return named, elided
    raise ApiError(f"unhandled type node {k}")


# ------------------------------------------------------------------------------------------------
# items
# ------------------------------------------------------------------------------------------------

def depth_map(s):
    """brace depth before each character"""
    d, out = 0, []
    for c in s:
        out.append(d)
        if c == "{":
            d += 1
        elif c == "}":
            d -= 1
    return out


class FileItems:
    def __init__(self, rel, raw):
        self.rel = rel
        self.src = strip_source(raw)
        self.depth = depth_map(self.src)
        self.structs = []   # dict(name, pub, generics, body_kind, body, attrs)
        self.impls = []     # dict(unsafe, generics, trait, selfty, where, body, start)
        self._scan()

    def _header_end(self, i):
        """from i, the index of the first `{` or `;` outside <>, (), []"""
        s, n, depth = self.src, len(self.src), 0
        while i < n:
            c = s[i]
            if s.startswith("->", i) or s.startswith("=>", i):
                i += 2
                continue
            if c in "<([":
                depth += 1
            elif c in ">)]":
                depth -= 1
            elif c in "{;" and depth == 0:
                return i
            i += 1
        raise ApiError(f"{self.rel}: unterminated item header")

    def _scan(self):
        s = self.src
        for m in re.finditer(r"(?<![\w])(?:(pub(?:\([^)]*\))?)\s+)?struct\s+(\w+)", s):
            if self.depth[m.start()] != 0:
                continue
            i = m.end()
            generics = ""
            j = i
            while s[j].isspace():
                j += 1
            if s[j] == "<":
                e = match_close(s, j, "<", ">")
                generics = s[j + 1:e]
                j = e + 1
            while s[j].isspace():
                j += 1
            if s[j] == "(":
                e = match_close(s, j, "(", ")")
                kind, body = "tuple", s[j + 1:e]
            else:
                h = self._header_end(j)
                if s[h] == ";":
                    kind, body = "unit", ""
                else:
                    e = match_close(s, h, "{", "}")
                    kind, body = "named", s[h + 1:e]
            self.structs.append(dict(name=m.group(2), pub=bool(m.group(1)), generics=generics, kind=kind, body=body))
        for m in re.finditer(r"(?<![\w])(unsafe\s+)?impl\b", s):
            if self.depth[m.start()] != 0:
                continue
            j = m.end()
            while s[j].isspace():
                j += 1
            generics = ""
            if s[j] == "<":
                e = match_close(s, j, "<", ">")
                generics = s[j + 1:e]
                j = e + 1
            h = self._header_end(j)
            if s[h] != "{":
                continue
            head = s[j:h]
            e = match_close(s, h, "{", "}")
            where = ""
            wm = re.search(r"\bwhere\b", head)
            if wm:
                where = head[wm.end():]
                head = head[:wm.start()]
            trait, selfty = None, head.strip()
            parts = re.split(r"\bfor\b", head)
            if len(parts) == 2:
                trait, selfty = parts[0].strip(), parts[1].strip()
            elif len(parts) > 2:  # `for<'a>` HRTB somewhere: keep the last split
                trait, selfty = "for".join(parts[:-1]).strip(), parts[-1].strip()
            self.impls.append(dict(unsafe=bool(m.group(1)), generics=generics, trait=trait, selfty=selfty,
                                   where=where, body=s[h + 1:e]))


def fns_of_block(body):
    """functions declared directly in an impl block -> list of dict(pub, unsafe, name, generics, params, ret)"""
    dm = depth_map(body)
    out = []
    for m in re.finditer(r"(?<![\w])((?:pub(?:\([^)]*\))?\s+)?)((?:const\s+)?)((?:unsafe\s+)?)fn\s+(\w+)", body):
        if dm[m.start()] != 0:
            continue
        j = m.end()
        while body[j].isspace():
            j += 1
        generics = ""
        if body[j] == "<":
            e = match_close(body, j, "<", ">")
            generics = body[j + 1:e]
            j = e + 1
        while body[j].isspace():
            j += 1
        if body[j] != "(":
            raise ApiError(f"fn {m.group(4)}: no parameter list")
        e = match_close(body, j, "(", ")")
        params = body[j + 1:e]
        # return type: up to `where` / `{` / `;` outside brackets
        k, depth = e + 1, 0
        while k < len(body):
            c = body[k]
            if body.startswith("->", k):
                k += 2
                continue
            if c in "<([":
                depth += 1
            elif c in ">)]":
                depth -= 1
            elif c in "{;" and depth == 0:
                break
            k += 1
        tail = body[e + 1:k]
        tail = re.split(r"\bwhere\b", tail)[0].strip()
        ret = tail[2:].strip() if tail.startswith("->") else ""
        out.append(dict(pub=bool(m.group(1).strip()), unsafe=bool(m.group(3).strip()), name=m.group(4),
                        generics=generics, params=params, ret=" ".join(ret.split())))
    return out


def assoc_types(body):
    dm = depth_map(body)
    out = {}
    for m in re.finditer(r"(?<![\w])type\s+(\w+)\s*=\s*([^;]+);", body):
        if dm[m.start()] == 0:
            out[m.group(1)] = " ".join(m.group(2).split())
    return out


# ------------------------------------------------------------------------------------------------
# the table
# ------------------------------------------------------------------------------------------------

class Api:
    def __init__(self, repo):
        self.repo = repo
        self.files = {}
        for rel in FILES:
            p = os.path.join(repo, rel)
            if not os.path.exists(p):
                raise ApiError(f"{rel}: file is missing")
            self.files[rel] = FileItems(rel, open(p).read())
        self.structs = []      # table entries (dict)
        self.by_name = {}
        self.methods = []
        self.auto_impls = []   # (struct, trait, bounds, file)
        self.build()

    # -- names -------------------------------------------------------------------------------
    def resolve(self, rel, segs):
        """crate struct named by a path, or None"""
        last = segs[-1]
        prefix = [x for x in segs[:-1]]
        if any(p not in CRATE_SEGS for p in prefix):
            return None
        if prefix:
            # module-qualified inside the crate: `crate::boxed::Box`, `vec::Drain`
            for f, names in LOCAL_NAMES.items():
                mod = os.path.basename(f)[:-3]
                if mod in prefix and last in names:
                    return names[last]
        if last in LOCAL_NAMES.get(rel, {}):
            return LOCAL_NAMES[rel][last]
        for names in self.extra_local.get(rel, {}),:
            if last in names:
                return names[last]
        return GLOBAL_NAMES.get(last)

    def lt_arity(self, rel):
        def f(segs):
            n = self.resolve(rel, segs)
            if n is not None and n in self.by_name:
                return len(self.by_name[n]["lifetimes"])
            return None
        return f

    # -- type -> Lean term ---------------------------------------------------------------------
    def lean_ty(self, rel, ty, tparams, strict, projections):
        k = ty[0]
        rec = lambda t: self.lean_ty(rel, t, tparams, strict, projections)
        if k == "ref":
            return f"(.refMut {rec(ty[3])})" if ty[2] else f"(.ref {rec(ty[3])})"
        if k == "ptr":
            return f"(.rawPtr {rec(ty[2])})"
        if k == "slice":
            return f"(.wrap {rec(ty[1])})"
        if k == "tuple":
            items = ty[1]
            if not items:
                return '(.prim "()")'
            acc = rec(items[-1])
            for t in reversed(items[:-1]):
                acc = f"(.tuple {rec(t)} {acc})"
            return acc
        if k == "fnptr":
            return '(.prim "fn")'
        if k == "path":
            segs, targs = ty[1], ty[3]
            name = "::".join(segs)
            if len(segs) == 1 and segs[0] in tparams:
                return f'(.param "{segs[0]}")'
            if len(segs) == 2 and segs[0] in tparams:  # projection `I::Item`
                projections.add(name)
                return f'(.param "{name}")'
            last = segs[-1]
            crate = self.resolve(rel, segs)
            if crate is not None:
                args = " ".join(rec(t) for t in targs)
                return f'(.adt "{crate}" [{", ".join(rec(t) for t in targs)}])'
            if last == "Cell" and len(targs) == 1:
                return f"(.cell {rec(targs[0])})"
            if last == "NonNull" and len(targs) == 1:
                return f"(.nonNull {rec(targs[0])})"
            if last == "PhantomData" and len(targs) == 1:
                return f"(.phantom {rec(targs[0])})"
            if last in WRAPS and len(targs) == 1:
                return f"(.wrap {rec(targs[0])})"
            if name in ("slice::Iter", "Iter") and len(targs) == 1:   # core::slice::Iter<'a, T> behaves as &'a [T]
                return f"(.ref (.wrap {rec(targs[0])}))"
            if last in PRIMS and not targs:
                return f'(.prim "{last}")'
            if strict:
                raise ApiError(f"{rel}: field type {name}<..> is outside the type language of the auto-trait model")
            return f'(.adt "?{name}" [])'
        if strict:
            raise ApiError(f"{rel}: field type node {k} is outside the type language of the auto-trait model")
        return '(.adt "?" [])'

    # -- build --------------------------------------------------------------------------------------
    def build(self):
        # pass 1: struct names / generics (needed to resolve paths and elided lifetimes)
        self.extra_local = {}
        pend = []
        for rel in FILES:
            fi = self.files[rel]
            for sd in fi.structs:
                if sd["name"] in LOCAL_NAMES[rel]:
                    tname = LOCAL_NAMES[rel][sd["name"]]
                elif sd["pub"]:
                    mod = os.path.basename(rel)[:-3]
                    tname = sd["name"] if mod == "lib" else f"{mod}::{sd['name']}"
                    self.extra_local.setdefault(rel, {})[sd["name"]] = tname
                else:
                    continue
                if tname in self.by_name:
                    raise ApiError(f"{rel}: struct {sd['name']} is declared more than once")
                lts, tps, _ = parse_generics(sd["generics"])
                ent = dict(name=tname, rel=rel, pub=sd["pub"], lifetimes=lts, params=tps, fields=[], fieldLts=[],
                           autoImpls=[], hasDrop=False, required=sd["name"] in LOCAL_NAMES[rel])
                self.by_name[tname] = ent
                self.structs.append(ent)
                pend.append((ent, sd))
        for n in REQUIRED_STRUCTS:
            if n not in self.by_name:
                raise ApiError(f"struct {n} not found in {FILES}")
        # pass 2: fields
        for ent, sd in pend:
            rel = ent["rel"]
            raw_fields = []
            if sd["kind"] == "named":
                for part in split_top(sd["body"]):
                    part = re.sub(r"#\[[^\]]*\]", "", part).strip()
                    if not part:
                        continue
                    m = re.match(r"(?:pub(?:\([^)]*\))?\s+)?(\w+)\s*:\s*(.+)$", part, re.S)
                    if not m:
                        raise ApiError(f"{rel}: struct {ent['name']}: cannot read field {part!r}")
                    raw_fields.append((m.group(1), " ".join(m.group(2).split())))
            elif sd["kind"] == "tuple":
                for i, part in enumerate(split_top(sd["body"])):
                    part = re.sub(r"#\[[^\]]*\]", "", part).strip()
                    part = re.sub(r"^pub(?:\([^)]*\))?\s+", "", part)
                    if part:
                        raw_fields.append((str(i), " ".join(part.split())))
            projections = set()
            for fname, ftxt in raw_fields:
                ty = TyParser(ftxt).parse()
                lean = self.lean_ty(rel, ty, set(ent["params"]), ent["required"], projections)
                named, _ = ty_lifetimes(ty, lambda segs: None)
                ent["fields"].append((fname, lean, ftxt))
                ent["fieldLts"].append((fname, sorted(named)))
            ent["params"] = ent["params"] + sorted(projections)
        # pass 3: impls
        for rel in FILES:
            fi = self.files[rel]
            for im in fi.impls:
                try:
                    sty = TyParser(im["selfty"]).parse()
                except ApiError:
                    continue
                if sty[0] != "path":
                    continue   # impls for `&'a Bump` (Alloc / Allocator): not methods of a table struct
                owner = self.resolve(rel, sty[1])
                if owner is None or owner not in self.by_name:
                    continue
                ilts, itps, ibounds = parse_generics(im["generics"])
                for w in split_top(im["where"]):
                    if ":" in w:
                        a, b = w.split(":", 1)
                        ibounds.setdefault(a.strip(), []).extend(x.strip() for x in split_top(b, "+"))
                tr = im["trait"]
                trl = tr.split("<")[0].split("::")[-1].strip() if tr else None
                if tr and trl in ("Send", "Sync"):
                    if tr.strip().startswith("!"):
                        raise ApiError(f"{rel}: negative impl {tr} for {owner}: not modelled")
                    # map impl-level parameter names to the struct's parameter names by position
                    ent = self.by_name[owner]
                    pos = {}
                    for idx, a in enumerate(sty[3]):
                        if a[0] == "path" and idx < len(ent["params"]):
                            pos["::".join(a[1])] = ent["params"][idx]
                    bounds = []
                    for p, bs in sorted(ibounds.items()):
                        for b in bs:
                            bl = b.split("::")[-1]
                            if bl in ("Send", "Sync"):
                                if p not in pos:
                                    raise ApiError(f"{rel}: impl {tr} for {owner}: bound on {p} which is not a parameter of the struct")
                                bounds.append((pos[p], bl.lower()))
                    if any(a["tr"] == trl.lower() for a in ent["autoImpls"]):
                        raise ApiError(f"{rel}: more than one impl {trl} for {owner}")
                    ent["autoImpls"].append(dict(tr=trl.lower(), bounds=bounds, unsafe=im["unsafe"]))
                    self.auto_impls.append((owner, trl, bounds, rel))
                    continue
                if tr and trl == "Drop":
                    self.by_name[owner]["hasDrop"] = True
                    continue
                owner_lts = [l for l in sty[2] if l != "'_"]
                if tr is None:
                    for fn in fns_of_block(im["body"]):
                        if fn["pub"]:
                            self.add_method(rel, owner, im, sty, owner_lts, fn, {})
                elif trl in ("Iterator", "IntoIterator"):
                    at = assoc_types(im["body"])
                    for fn in fns_of_block(im["body"]):
                        if fn["name"] in ("next", "into_iter"):
                            self.add_method(rel, owner, im, sty, owner_lts, fn, at)
        for owner, names in REQUIRED_METHODS.items():
            for n in names:
                hits = [m for m in self.methods if m["owner"] == owner and m["name"] == n]
                if len(hits) != 1:
                    raise ApiError(f"method {owner}::{n}: expected exactly one public definition, found {len(hits)}")

    def add_method(self, rel, owner, im, sty, owner_lts, fn, assoc):
        selftxt = im["selfty"]
        def subst(txt):
            for k, v in assoc.items():
                txt = re.sub(r"\bSelf::%s\b" % k, v, txt)
            return re.sub(r"\bSelf\b", selftxt, txt)
        params = split_top(fn["params"])
        recv, recv_lt, rest = "none", None, params
        if params:
            p0 = " ".join(params[0].split())
            m = re.fullmatch(r"(&\s*('\w+)?\s*)?(mut\s+)?self", p0)
            m2 = re.fullmatch(r"(mut\s+)?self\s*:\s*(.+)", p0)
            if m:
                rest = params[1:]
                if m.group(1):
                    recv = "refMut" if (m.group(3) or "").strip() == "mut" else "ref"
                    recv_lt = m.group(2)
                else:
                    recv = "val"
            elif m2:
                raise ApiError(f"{owner}::{fn['name']}: typed self receiver is not modelled")
        arena_lt, arena_arg, src_arg, other_in = None, False, False, 0
        src_named = set()     # named lifetimes of the *other* reference parameters (the sources something is copied from)
        first_by_value_owner = False
        arity = self.lt_arity(rel)
        for idx, p in enumerate(rest):
            if ":" not in p:
                continue
            ptxt = subst(p.split(":", 1)[1].strip())
            try:
                pty = TyParser(ptxt).parse()
            except ApiError:
                continue
            if pty[0] == "ref" and pty[3][0] == "path" and self.resolve(rel, pty[3][1]) == "Bump":
                arena_arg = True
                arena_lt = pty[1] if pty[1] not in (None, "'_") else "<elided-arena>"
            elif pty[0] == "ref":
                src_arg = True
                other_in += 1
                src_named |= ty_lifetimes(pty, arity)[0]
            else:
                named, el = ty_lifetimes(pty, arity)
                if named or el:
                    other_in += 1
                if idx == 0 and recv == "none" and pty[0] == "path" and self.resolve(rel, pty[1]) == owner:
                    first_by_value_owner = True
        if first_by_value_owner:
            recv = "val"
        ret_txt = subst(fn["ret"])
        ret_recv = ret_arena = ret_other = ret_raw = False
        ret_adt = None
        if ret_txt:
            rty = TyParser(ret_txt).parse()
            named, elided = ty_lifetimes(rty, arity)
            mlts, _, _ = parse_generics(fn["generics"])
            arena_set = set(owner_lts) | ({arena_lt} if arena_lt else set())
            if recv_lt and recv_lt in named:
                ret_recv = True
            if elided:
                if recv in ("ref", "refMut"):
                    ret_recv = True
                elif arena_arg and other_in == 0:
                    ret_arena = True
                else:
                    ret_other = True
            if (named - ({recv_lt} if recv_lt else set())) & arena_set:
                ret_arena = True
            if named - arena_set - ({recv_lt} if recv_lt else set()):
                ret_other = True
            # a source reference that names a lifetime the result carries ties the result to that source as well, even
            # when the lifetime is the arena's (`fn f(v: &'bump [u8], bump: &'bump Bump) -> String<'bump>`)
            if named & src_named:
                ret_other = True
            # peel Result / Option / Pin, look at the head
            def heads(t):
                if t[0] == "path" and t[1][-1] in PEEL and t[3]:
                    return heads(t[3][0])
                if t[0] == "tuple":
                    return [h for x in t[1] for h in heads(x)]
                return [t]
            for h in heads(rty):
                if h[0] == "ptr" or (h[0] == "path" and h[1][-1] == "NonNull"):
                    ret_raw = True
                if h[0] == "path":
                    r = self.resolve(rel, h[1])
                    if r is not None and r in self.by_name and ret_adt is None:
                        ret_adt = r
        self.methods.append(dict(owner=owner, name=fn["name"], recv=recv, isUnsafe=fn["unsafe"], arenaArg=arena_arg,
                                 srcArg=src_arg, retRecv=ret_recv, retArena=ret_arena, retOther=ret_other,
                                 retRaw=ret_raw, retAdt=ret_adt, ret=ret_txt, rel=rel))

    # -- output ---------------------------------------------------------------------------------
    def lean(self):
        b = lambda x: "true" if x else "false"
        L = ["import BumpVerif.Model.AutoTraits",
             "/-! GENERATED by tools/extract_more.py from /repo/src/{lib.rs,boxed.rs,collections/{vec,string,raw_vec}.rs}",
             "— do not edit.  Field types, explicit auto-trait impls, Drop impls and the borrow shape of every public",
             "method of the arena-carrying types. -/",
             "namespace Gen.Api", "open Bump.Sig", ""]
        names = []
        for i, s in enumerate(self.structs):
            ident = "s_" + re.sub(r"\W+", "_", s["name"])
            names.append(ident)
            L.append(f"/-- `{s['name']}` ({s['rel']}) -/")
            L.append(f"def {ident} : StructDef where")
            L.append(f'  name := "{s["name"]}"')
            L.append(f"  isPub := {b(s['pub'])}")
            L.append("  lifetimes := [" + ", ".join(f'"{l}"' for l in s["lifetimes"]) + "]")
            L.append("  params := [" + ", ".join(f'"{p}"' for p in s["params"]) + "]")
            L.append("  fields := [")
            L.append(",\n".join(f'    ("{fn}", {lt})' for fn, lt, txt in s["fields"]))
            L.append("  ]")
            L.append("  fieldLts := [" + ", ".join('("%s", [%s])' % (fn, ", ".join(f'"{l}"' for l in lts)) for fn, lts in s["fieldLts"]) + "]")
            L.append("  autoImpls := [" + ", ".join(
                "{ tr := .%s, bounds := [%s] }" % (a["tr"], ", ".join(f'("{p}", .{t})' for p, t in a["bounds"]))
                for a in s["autoImpls"]) + "]")
            L.append(f"  hasDrop := {b(s['hasDrop'])}")
            L.append("")
        L.append("def methods : List MethodSig := [")
        rows = []
        for m in self.methods:
            adt = f'(some "{m["retAdt"]}")' if m["retAdt"] else "none"
            rows.append(f'  ⟨"{m["owner"]}", "{m["name"]}", .{m["recv"]}, {b(m["isUnsafe"])}, {b(m["arenaArg"])}, '
                        f'{b(m["srcArg"])}, {b(m["retRecv"])}, {b(m["retArena"])}, {b(m["retOther"])}, {b(m["retRaw"])}, {adt}⟩')
        L.append(",\n".join(rows))
        L.append("]")
        L.append("")
        L.append("def table : Sigs where")
        L.append("  structs := [" + ", ".join(names) + "]")
        L.append("  methods := methods")
        L.append("")
        L.append("end Gen.Api")
        L.append("")
        return "\n".join(L)

    def summary(self):
        return {
            "structs": [s["name"] for s in self.structs],
            "methods": len(self.methods),
            "explicit_auto_impls": [f"{o}: {t}" + (f" where {', '.join(p + ': ' + x for p, x in bs)}" if bs else "") for o, t, bs, _ in self.auto_impls],
            "drop_impls": [s["name"] for s in self.structs if s["hasDrop"]],
            "phantom_markers": [f"{s['name']}.{fn}: {txt}" for s in self.structs for fn, lt, txt in s["fields"] if "PhantomData" in txt],
        }

    def signatures(self):
        """python-side copy of the method table (used by the probe generator)"""
        return [{k: m[k] for k in ("owner", "name", "recv", "isUnsafe", "arenaArg", "srcArg", "retRecv", "retArena",
                                   "retOther", "retRaw", "retAdt", "ret")} for m in self.methods]


def run(repo, outdir, write_if_changed):
    """called by tools/extract.py: regenerate <outdir>/Api.lean; the returned dict is merged into its JSON line"""
    api = Api(repo)
    changed = write_if_changed(os.path.join(outdir, "Api.lean"), api.lean())
    s = api.summary()
    s["changed"] = changed
    return {"api": s}


if __name__ == "__main__":
    # python3 tools/extract_more.py <repo> <outdir>   (scratch regeneration, e.g. against a modified worktree)
    sys.path.insert(0, os.path.dirname(os.path.abspath(__file__)))
    import extract
    repo = sys.argv[1] if len(sys.argv) > 1 else extract.REPO
    out = sys.argv[2] if len(sys.argv) > 2 else extract.OUT
    try:
        print(json.dumps({"ok": True, **run(repo, out, extract.write_if_changed)}))
    except Exception as e:  # ApiError or a reader bug: both are loud
        print(json.dumps({"ok": False, "error": f"{type(e).__name__}: {e}"}))
        sys.exit(2)
