#!/usr/bin/env python3
"""Writes MANIFEST.json from tools/specs.py + tools/claims.py (texts per property)."""
import json, os, sys
sys.path.insert(0, os.path.dirname(os.path.abspath(__file__)))
import specs, claims
ROOT = os.path.dirname(os.path.dirname(os.path.abspath(__file__)))
ALL = [f"C{i:02d}" for i in range(1, 21)]
checks, na = [], []
for p in ALL:
    if p in specs.SPECS and p in claims.CLAIMS and p in claims.READY:
        c = claims.CLAIMS[p]
        checks.append({
            "property_id": p,
            "quick_cmd": f"./check {p} --tier quick",
            "thorough_cmd": f"./check {p} --tier thorough",
            "evidence_file": f"evidence/{p}.json",
            "replay_cmd_template": f"./check {p} --replay {{path}}",
            "engine": c.get("engine", "lean-models+rust-harness"),
            "level_claimed": {"category": c.get("category", "proof"), "text": c["text"], "design_ref": c.get("design_ref", "DESIGN.md §3")},
            "level_note": c["note"],
            "technique": c.get("technique", "Lean 4 theorems about an executable model + differential correspondence with the crate")
            + ("; function bodies of src/lib.rs regenerated as Lean by a translator and proved equal to the model (" +
               ", ".join("GenFn" + g for g in specs.GEN_MODS[p]) + ")" if p in getattr(specs, "GEN_MODS", {}) else ""),
        })
    else:
        na.append({"property_id": p, "reason": claims.NOT_CLAIMED.get(p, "check not built yet in this round; see DESIGN.md §6 order of work")})
m = {
    "version": 1,
    "setup_cmd": "./setup.sh",
    "hooks": {
        "guard": "bumpalo_verif",
        "enable": "RUSTFLAGS='--cfg bumpalo_verif' (set in harness/.cargo/config.toml); no hook is currently needed, the harness uses the public API only",
        "baseline_off_cmd": "cd /repo && cargo test --workspace --no-fail-fast --offline",
        "source_commits": [],
        "add_only": True,
    },
    "engines": [
        {"name": "lean-models", "path": "lean/", "serves_properties": [c["property_id"] for c in checks], "kind_free_text": "Lean 4 executable models (BumpVerif/Model), lemmas (Proofs), property theorems (Props), line-protocol driver (Driver/Main.lean -> bvdrv)"},
        {"name": "rust-harness", "path": "harness/", "serves_properties": [c["property_id"] for c in checks], "kind_free_text": "in-process differential harness with instrumented #[global_allocator], plan generator, model-independent oracles"},
        {"name": "extractor", "path": "tools/extract.py", "serves_properties": [c["property_id"] for c in checks], "kind_free_text": "translator regenerating lean/BumpVerif/Gen/*.lean from /repo/src on every run (constants, tables, signatures, delegating impls)"},
        {"name": "body-translator", "path": "tools/rs2lean.py", "serves_properties": sorted(getattr(specs, "GEN_MODS", {})), "kind_free_text": "Rust-subset parser (tools/rsparse.py) + CPS translator of function bodies (src/lib.rs, collections/raw_vec.rs, collections/vec.rs; tools/rs2lean_box.py for boxed.rs, tools/rs2lean_lossy.py for collections/str/lossy.rs, tools/rs2lean_str.py for collections/string.rs, tools/rs2lean_chunks.py for the chunk-list walkers and tools/rs2lean_typed.py for the typed allocation methods of lib.rs, tools/rs2lean_splice.py for Drain::fill / move_tail, tools/rs2lean_slices.py for Vec::extend_from_slices_copy, tools/rs2lean_splicedrop.py for Drop for Splice, tools/rs2lean_strfwd.py for String's capacity forwards; tools/rs2lean_fwd.py pins the shape (view / forward) or the text fingerprint of every function no translator covers) into Lean definitions (Gen/Fn*.lean), each proved equal to the hand-written model function in Props/GenFn*.lean; model-level witness search lean/Driver/GenDiff.lean"},
    ],
    "checks": checks,
    "not_applicable": na,
    "notes": "See DESIGN.md. fix: commits in /repo repair defects F1-F11 (known_findings.json lists them as fixed; none open).",
}
json.dump(m, open(os.path.join(ROOT, "MANIFEST.json"), "w"), indent=1)
print("claimed:", [c["property_id"] for c in checks])
