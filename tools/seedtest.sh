#!/bin/bash
# usage: tools/seedtest.sh <patch.diff> <prop> [<prop>...]
# Applies a patch to a scratch worktree of /repo's HEAD (never to /repo) and runs the given checks against it.
WT=${WT:-/tmp/wt_lead}
cd "$(dirname "$0")/.."
[ -d $WT ] || git -C /repo worktree add --detach $WT >/dev/null 2>&1
git -C $WT reset -q --hard; git -C $WT checkout -q --detach $(git -C /repo rev-parse HEAD); git -C $WT reset -q --hard
patch=$(realpath "$1"); shift
if ! git -C $WT apply "$patch" 2>/dev/null; then
  echo "PATCH-DOES-NOT-APPLY $patch"; git -C $WT reset -q --hard; exit 2
fi
for p in "$@"; do
  out=$(BV_REPO=$WT timeout 900 ./check $p --tier ${TIER:-quick} 2>/dev/null | grep -E "^VIOLATION|^KNOWN" | sed 's#replay=[^ ]*/replays/##' | tr '\n' ';')
  echo "$p: ${out:-quiet}"
done
git -C $WT reset -q --hard; git -C $WT clean -fdq -e target
# the run above regenerated lean/BumpVerif/Gen/* from the scratch worktree: bring them back to /repo's
python3 tools/extract.py >/dev/null 2>&1
(cd lean && lake build $(ls BumpVerif/Gen/Fn*.lean | sed 's#/#.#g; s#\.lean$##') >/dev/null 2>&1)
