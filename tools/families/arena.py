"""Arena family: runs the Rust harness (`bvh arena|replay`) against /repo's working tree, pipes
the traces through the compiled Lean model (`bvdrv`), collects oracle failures and
model-vs-implementation disagreements projected onto the property's observation fields."""
import os, re, glob, json, subprocess, time, hashlib
from concurrent.futures import ThreadPoolExecutor
import common

ROOT = common.ROOT
ORACLE_RE = re.compile(r"^ORACLE (\S+) (\S+) (.*)$")
DIFF_RE = re.compile(r"^DIFF plan=(\d+) line=(\d+) op=(\S+) field=(\S+) model=(.*) impl=(.*)$")


def parse_trace(path):
    """-> plans: {idx: {'header':..., 'ops':[op line text], 'lines':[full lines]}}, oracle fails, summary"""
    plans, cur, fails = {}, None, []
    if not os.path.exists(path):
        return plans, fails
    for raw in open(path, errors="replace"):
        line = raw.rstrip("\n")
        if line.startswith("PLAN "):
            m = re.search(r"idx=(\d+)", line)
            cur = {"header": line, "ops": [], "lines": []}
            plans[int(m.group(1))] = cur
        elif line.startswith("ORACLE "):
            m = ORACLE_RE.match(line)
            if m:
                pm = re.search(r"plan=(\d+) op=(\d+)", m.group(3))
                fails.append({"prop": m.group(1), "name": m.group(2), "detail": m.group(3),
                              "plan": int(pm.group(1)) if pm else None, "op": int(pm.group(2)) if pm else None,
                              "trace": path})
        elif line.startswith("END") or line.startswith("SUMMARY") or line.startswith("#") or not line.strip():
            continue
        elif cur is not None:
            cur["ops"].append(line.split(" | ")[0])
            cur["lines"].append(line)
    return plans, fails


def crash_reason(err):
    lines = [l for l in err.strip().splitlines() if l.strip()]
    for l in lines:
        if "unsafe precondition" in l or "panicked at" in l or "should be" in l or "assertion" in l:
            return l.strip()[:200]
    return lines[-1][:200] if lines else ""


def crash_props(ctx, rc, err):
    """which properties an abort of the harness process speaks about (the abort message of the
    standard library's debug precondition checks / the crate's own assertions says what went wrong)"""
    if rc in (3, -999):
        return ["C09"]
    e = err
    if "copy_nonoverlapping" in e or "ptr::copy" in e:
        return ["C01", "C02", "C12"]          # overlapping / out-of-block copy: placement and contents
    if "is_aligned" in e or "aligned to" in e or "misaligned" in e:
        return ["C04", "C01"]
    if "from_raw_parts" in e or "offset_from" in e:
        return ["C10", "C01"]
    if "double free" in e or "free():" in e or "invalid pointer" in e or "munmap_chunk" in e:
        return ["C03", "C01"]
    if "malloc():" in e or "corrupted" in e or "invalid size" in e or "invalid next size" in e:
        return ["C01", "C02", "C12"]          # heap metadata overwritten: a write outside a block the arena handed out
    # anything else (segfault, unknown abort): memory safety of the arena is the umbrella property
    return ["C01"]


def run_one(ctx, bvh, drv, args, tag):
    """one harness process + driver; after an abort the job is re-run without the aborting plan so
    that the remaining plans are still explored (at most 4 times)"""
    res = run_once(ctx, bvh, drv, args, tag)
    tries = 0
    skipped = []
    while res["rc"] not in (0,) and res.get("crashed_plan") is not None and args and args[0] == "arena" and tries < 4:
        skipped.append(res["crashed_plan"])
        tries += 1
        more = run_once(ctx, bvh, drv, args + ["skip=" + ",".join(str(k) for k in skipped)], f"{tag}_r{tries}")
        # keep the crash record, take plans/diffs from the completed re-run
        more["fails"] = res["fails"] + [f for f in more["fails"]]
        res = more
    return res


def run_once(ctx, bvh, drv, args, tag):
    """one harness process + one driver process; returns dict"""
    trace = os.path.join(ctx.workdir, f"trace_{tag}.txt")
    cur = os.path.join(ctx.workdir, f"cur_{tag}.plan")
    for p in (trace, cur, trace + ".hangplan"):
        if os.path.exists(p):
            os.remove(p)
    cmd = [bvh] + args + [f"out={trace}", f"curplan={cur}"]
    t = time.time()
    try:
        p = subprocess.run(cmd, stdout=subprocess.PIPE, stderr=subprocess.PIPE, timeout=ctx.spec.get("timeout", 900))
        rc, err = p.returncode, p.stderr.decode("utf-8", "replace")[-6000:]
    except subprocess.TimeoutExpired:
        rc, err = -999, "timeout"
    plans, fails = parse_trace(trace)
    res = {"trace": trace, "rc": rc, "plans": plans, "fails": fails, "diffs": [], "stderr": err, "cmd": " ".join(cmd), "driver_tail": ""}
    if rc != 0:
        # hang (3) or crash: the plan so far is the failing input
        plan_text = open(cur).read() if os.path.exists(cur) else ""
        name = "does-not-terminate" if rc in (3, -999) else "crash"
        m = re.search(r"PLAN idx=(\d+)", plan_text)
        res["crashed_plan"] = int(m.group(1)) if m else None
        props = crash_props(ctx, rc, err)
        ops_so_far = [l for l in plan_text.split("\n") if l.strip() and not l.startswith("PLAN ") and not l.startswith("#")]
        last_op = ops_so_far[-1].split(" ", 1)[0] if ops_so_far else ""
        if rc in (134, -6) and last_op not in ("reset", "drop", "limit", "write", "afree", "") and "C09" not in props:
            # the process *aborted* inside a constructor / allocation method: fallible ones must return, infallible ones must
            # panic (unwind) — C09 says "never abort" of both
            props = props + ["C09"]
        for prop in props:
            res["fails"].append({"prop": prop, "name": name, "detail": f"harness exit={rc} {crash_reason(err)}",
                                 "plan": None, "op": None, "trace": trace, "plan_text": plan_text})
    with open(trace, "rb") as fh:
        try:
            d = subprocess.run([drv], stdin=fh, stdout=subprocess.PIPE, stderr=subprocess.PIPE, timeout=600)
            out = d.stdout.decode("utf-8", "replace")
        except subprocess.TimeoutExpired:
            out = "DRIVER timeout"
    for line in out.split("\n"):
        m = DIFF_RE.match(line)
        if m:
            res["diffs"].append({"plan": int(m.group(1)), "line": int(m.group(2)), "op": m.group(3), "field": m.group(4),
                                 "model": m.group(5), "impl": m.group(6), "text": line, "trace": trace})
        elif line.startswith("DRIVER"):
            res["driver_tail"] = line
    if res["diffs"]:
        # attach the limit in force on the diverging line (from the implementation's OBS of the previous line)
        try:
            lines = open(trace, errors="replace").read().split("\n")
            for d in res["diffs"]:
                lim = "none"
                for j in range(d["line"] - 2, -1, -1):
                    if lines[j].startswith("PLAN "):
                        break
                    mm = re.search(r" lim=(\S+)", lines[j])
                    if mm:
                        lim = mm.group(1)
                        break
                d["lim"] = lim
        except Exception:
            pass
    return res


def _ptrs(chunks_field):
    """data -> ptr from a chunks= field"""
    out = {}
    if chunks_field in ("-", "?", ""):
        return out
    for c in chunks_field.split(","):
        q = c.split(":")
        if len(q) == 4:
            try:
                out[q[0]] = (int(q[3], 16), q[1], q[2])
            except ValueError:
                pass
    return out


def project(ctx, diffs):
    """Keep the disagreements that bear on this property (see DESIGN.md §1.3/§10):
    - only the fields (and op kinds) the property is about;
    - `placement`: a result/state disagreement on a line where the allocator interaction itself
      differed is a consequence of a *policy* difference (limit, growth), not of placement;
    - `upward_only`: a finger that is lower (more conservative) than the model's is not a C01 matter;
    - `frees_only`: only the free events of an event disagreement;
    - `impl_failure_only`: result kinds matter only where the implementation failed or the model says `bad`;
    - `cap_overstate_only`: chunk_capacity matters only where the implementation reports more than the model;
    - `no_limit_only`: only lines executed with no allocation limit set."""
    spec = ctx.spec
    fields = set(spec.get("fields", []))
    ops = spec.get("ops")
    by_line = {}
    for d in diffs:
        by_line.setdefault((d["trace"], d["plan"], d["line"]), []).append(d)
    out = []
    for key, ds in by_line.items():
        has_evt = any(d["field"] == "evt" for d in ds)
        for d in ds:
            f = d["field"]
            if f == "parse":
                out.append(d)
                continue
            if f not in fields:
                continue
            if ops and d["op"] not in ops:
                continue
            if spec.get("placement") and has_evt and f != "evt":
                continue
            if spec.get("upward_only") and f == "chunks":
                m, i = _ptrs(d["model"]), _ptrs(d["impl"])
                if set(m) == set(i) and all(i[k][0] <= m[k][0] and i[k][1:] == m[k][1:] for k in m):
                    continue
            if spec.get("frees_only") and f == "evt":
                fm = [e for e in d["model"].split(" ")[0].split(",") if e.startswith("f:")]
                fi = [e for e in d["impl"].split(" ")[0].split(",") if e.startswith("f:")]
                if fm == fi:
                    continue
            if spec.get("impl_failure_only") and f == "res":
                ik = d["impl"].split(" ")[0]
                if ik not in ("err", "panic") and not d["model"].startswith("bad") and not d["model"].startswith("envbad"):
                    continue
            if spec.get("impl_failure_only") and f == "evt":
                continue
            if spec.get("cap_overstate_only") and f == "cap":
                try:
                    if int(d["impl"]) <= int(d["model"]):
                        continue
                except ValueError:
                    pass
            if spec.get("no_limit_only") and d.get("lim", "none") != "none":
                continue
            out.append(d)
    return out


def jobs_for(ctx, mult=1, seed_shift=0):
    """list of (args, tag)"""
    spec = ctx.spec
    scale = (spec.get("thorough_scale", 80) if ctx.tier == "thorough" else 1) * mult
    jobs = []
    k = 0
    for (prof, plans, ops, faults) in spec["profiles"]:
        total = plans * scale
        per = max(1, min(total, max(50, total // 14)))
        n = 0
        while n < total:
            cnt = min(per, total - n)
            seed = (ctx.seed * 1000003 + seed_shift * 7919 + k * 101) % (2 ** 62)
            shape = "mix" if ctx.tier == "thorough" or spec.get("shape") else "0"
            jobs.append(([
                "arena", f"seed={seed}", f"plans={cnt}", f"ops={ops}", f"profile={prof}", f"faults={faults}", f"shape={shape}",
                f"ms={spec.get('ms', '1,2,4,8,16')}"], f"{prof}_{k}"))
            n += cnt
            k += 1
    return jobs


def run(ctx, mult=1, seed_shift=0, corpus=True, release=False):
    bvh, err = common.build_harness(ctx)
    if bvh is None:
        return {"infra_error": "harness does not build against /repo: " + err[-800:], "oracle_fails": [], "diffs": []}
    drv, err = common.build_driver(ctx)
    if drv is None:
        return {"infra_error": "driver does not build: " + err[-800:], "oracle_fails": [], "diffs": []}
    bins = [("dev", bvh)]
    if ctx.tier == "thorough" or release:
        # the crate's own debug assertions turn some wrong results into panics: the optimised build shows the result itself
        rel, err = common.build_harness(ctx, release=True)
        if rel:
            bins.append(("rel", rel))
    jobs = []
    if corpus:
        for i, f in enumerate(sorted(glob.glob(os.path.join(ROOT, "corpus", "arena", "*.plan")))):
            jobs.append((bins[0][1], ["replay", f], f"corpus{i}"))
    for name, b in bins:
        for args, tag in jobs_for(ctx, mult, seed_shift):
            jobs.append((b, args, f"{name}_{tag}"))
        if ctx.spec.get("ctor_probe"):
            # every constructor (incl. Default) instantiated for supported and unsupported MIN_ALIGN values
            jobs.append((b, ["ctor"], f"{name}_ctor"))
    t = time.time()
    with ThreadPoolExecutor(max_workers=14) as ex:
        results = list(ex.map(lambda j: run_one(ctx, j[0], drv, j[1], j[2]), jobs))
    ctx.log(f"{len(jobs)} harness+driver jobs in {time.time() - t:.1f}s")
    return summarize(ctx, results)


def summarize(ctx, results):
    fails, diffs, hist, samples = [], [], {}, []
    evaluations, traces = 0, 0
    distinct = set()
    relevant_ops = set(ctx.spec.get("nontrivial_ops", []))
    for r in results:
        fails += r["fails"]
        diffs += project(ctx, r["diffs"])
        for idx, p in r["plans"].items():
            traces += 1
            for line in p["lines"]:
                evaluations += 1
                op = line.split(" ", 1)[0]
                m = re.search(r"\| RES (\S+)", line)
                kind = f"{op}:{m.group(1) if m else '?'}"
                hist[kind] = hist.get(kind, 0) + 1
                if not relevant_ops or op in relevant_ops:
                    # distinct = op text with addresses removed + result kind
                    norm = re.sub(r"0x[0-9a-f]+", "@", line.split(" | ")[0]) + "|" + (m.group(1) if m else "")
                    distinct.add(hashlib.md5(norm.encode()).hexdigest()[:12])
            if len(samples) < 3 and p["lines"]:
                samples.append({"plan": p["header"], "first_ops": [l[:200] for l in p["lines"][:6]]})
    return {
        "oracle_fails": fails, "diffs": diffs, "evaluations": evaluations, "traces": traces,
        "distinct_nontrivial": len(distinct), "histogram": dict(sorted(hist.items())), "samples": samples,
        "rule": "cases = operations executed on the real crate inside generated plans (structured generator, one splitmix64 stream per plan); "
                "distinct = distinct (operation text without addresses, result kind); non-trivial = operation kinds relevant to this property: "
                + (",".join(sorted(relevant_ops)) if relevant_ops else "all"),
        "results": results,
        "extra": {"jobs": len(results), "nonzero_exits": [r["cmd"] for r in results if r["rc"] != 0][:5],
                  "fields_compared": ctx.spec.get("fields", []), "driver": [r["driver_tail"][:120] for r in results[:3]]},
    }


def plan_text_for(fail, run):
    if fail.get("plan_text"):
        return fail["plan_text"]
    if fail.get("name", "").startswith("ctor-"):
        return "CTOR\n"
    for r in run.get("results", []):
        if r["trace"] == fail.get("trace") and fail.get("plan") in r["plans"]:
            p = r["plans"][fail["plan"]]
            upto = (fail["op"] + 1) if fail.get("op") is not None else len(p["ops"])
            return p["header"] + "\n" + "\n".join(p["ops"][:upto]) + "\n"
    return ""


def still_fails(ctx, bvh, plan_text, fail, tag="shrink"):
    path = os.path.join(ctx.workdir, f"{tag}.plan")
    open(path, "w").write(plan_text)
    out = os.path.join(ctx.workdir, f"{tag}.trace")
    try:
        p = subprocess.run([bvh, "replay", path, f"out={out}"], stdout=subprocess.PIPE, stderr=subprocess.PIPE, timeout=60)
        rc = p.returncode
    except subprocess.TimeoutExpired:
        rc = -999
    if fail["name"] in ("does-not-terminate",):
        return rc in (3, -999)
    if fail["name"] == "crash":
        return rc not in (0, 3)
    _, fails = parse_trace(out)
    return any(f["prop"] == fail["prop"] and f["name"] == fail["name"] for f in fails)


def shrink(ctx, plan_text, fail):
    """greedy one-op-at-a-time removal (keeps the header and the constructor)"""
    bvh = os.path.join(common.harness_dir(), "target", "debug", "bvh")
    rel = os.path.join(common.harness_dir(), "target", "release", "bvh")
    lines = [l for l in plan_text.split("\n") if l.strip()]
    if len(lines) < 3:
        return plan_text, False
    if not still_fails(ctx, bvh, plan_text, fail):
        # found by the optimised build only (a debug assertion of the crate fires first in the other one)
        if "trace_rel_" in fail.get("trace", "") and os.path.exists(rel) and still_fails(ctx, rel, plan_text, fail):
            bvh = rel
        else:
            return plan_text, False
    header, ops = lines[0], lines[1:]
    budget = 150
    changed = True
    while changed and budget > 0:
        changed = False
        i = len(ops) - 2
        while i >= 1 and budget > 0:
            cand = ops[:i] + ops[i + 1:]
            budget -= 1
            if still_fails(ctx, bvh, header + "\n" + "\n".join(cand) + "\n", fail):
                ops = cand
                changed = True
            i -= 1
    return header + "\n" + "\n".join(ops) + "\n", True


def make_replay(ctx, fail, run):
    text = plan_text_for(fail, run)
    confirmed = False
    if text:
        try:
            text, confirmed = shrink(ctx, text, fail)
        except Exception as e:  # shrinking is best effort
            text += f"# shrink failed: {e}\n"
    head = (f"# property {ctx.prop}: oracle {fail['prop']}/{fail['name']} failed on the real crate\n"
            f"# {fail['detail']}\n# replay: ./check {ctx.prop} --replay <this file>   (reproduced on replay: {confirmed})\n")
    return head + text


def diff_context(ctx, d, run):
    for r in run.get("results", []):
        if r["trace"] == d["trace"] and d["plan"] in r["plans"]:
            p = r["plans"][d["plan"]]
            return "# first diverging plan (model vs implementation):\n" + p["header"] + "\n" + "\n".join(p["ops"]) + "\n"
    return ""


def search(ctx, run, proof):
    """more seeds, same generator, looking for an oracle failure of this property"""
    for shift in range(1, 4):
        r = globals()["run"](ctx, mult=4, seed_shift=shift, corpus=False, release=True)
        mine = [f for f in r.get("oracle_fails", []) if f["prop"] == ctx.prop and not common.match_known(ctx.prop, f)]
        if mine:
            f = dict(mine[0])
            f["run"] = r
            return f
    return None


def replay(ctx, path):
    bvh, err = common.build_harness(ctx)
    drv, _ = common.build_driver(ctx)
    if bvh is None:
        print("harness does not build:", err)
        return 2
    r = run_one(ctx, bvh, drv, ["replay", path], "replay")
    bad = 0
    for f in r["fails"]:
        print(f"ORACLE {f['prop']} {f['name']} {f['detail']}")
        if f["prop"] == ctx.prop:
            bad = 1
    for d in project(ctx, r["diffs"]):
        print(d["text"])
        bad = 1
    print(r["driver_tail"])
    if not bad:
        # the optimised build (no debug assertions in the crate)
        rel, _ = common.build_harness(ctx, release=True)
        if rel:
            r = run_one(ctx, rel, drv, ["replay", path], "replay_rel")
            for f in r["fails"]:
                print(f"ORACLE(release build) {f['prop']} {f['name']} {f['detail']}")
                if f["prop"] == ctx.prop:
                    bad = 1
    if bad:
        print(f"VIOLATION property={ctx.prop} replay={path}")
    return bad
