"""C20 family: isolation of arenas.  (1) two arenas interleaved on one thread and (2) one arena per
thread running concurrently: each arena's trace is replayed on its own model instance (so any
cross-arena influence shows up as a DIFF or an oracle failure); (3) Miri on small multi-threaded
programs: `plain` (must be race-free) and `zst` (known finding F8: stores to the shared static)."""
import os, re, subprocess, time, hashlib
from concurrent.futures import ThreadPoolExecutor
import common
from families import arena as A

ROOT = common.ROOT
MIRI = os.path.join(ROOT, "harness_miri")


def miri_dir():
    if common.REPO == "/repo":
        return MIRI
    tag = hashlib.md5(common.REPO.encode()).hexdigest()[:8]
    dst = os.path.join(ROOT, "work", f"shadow_harness_miri_{tag}")
    os.makedirs(dst, exist_ok=True)
    subprocess.run(["rsync", "-a", "--delete", "--exclude", "target", MIRI + "/", dst + "/"], check=True)
    ct = open(os.path.join(dst, "Cargo.toml")).read().replace('path = "/repo"', f'path = "{common.REPO}"')
    open(os.path.join(dst, "Cargo.toml"), "w").write(ct)
    return dst


def run_miri(ctx, mode, seeds):
    """returns list of oracle-fail dicts"""
    fails, runs = [], []
    d = miri_dir()
    for seed in seeds:
        env = dict(os.environ)
        env.update({"CARGO_NET_OFFLINE": "true", "MIRIFLAGS": f"-Zmiri-seed={seed}"})
        t = time.time()
        try:
            p = subprocess.run(["cargo", "+nightly", "miri", "run", "--offline", "--", mode], cwd=d, env=env,
                               stdout=subprocess.PIPE, stderr=subprocess.STDOUT, timeout=600)
            out = p.stdout.decode("utf-8", "replace")
            rc = p.returncode
        except subprocess.TimeoutExpired:
            out, rc = "timeout", -999
        runs.append({"mode": mode, "seed": seed, "rc": rc, "s": round(time.time() - t, 1)})
        if "Data race detected" in out:
            frames = re.findall(r"src/(lib\.rs|collections/\w+\.rs|boxed\.rs):(\d+)", out)
            inside = [f"{f}:{l}" for f, l in frames][:6]
            first = re.search(r"Data race detected[^\n]*", out).group(0)
            fails.append({"prop": "C20", "name": "miri-data-race", "plan": None, "op": None, "trace": None,
                          "detail": f"mode={mode} seed={seed} {first[:160]} frames={','.join(inside)}",
                          "plan_text": f"# cargo +nightly miri run --offline -- {mode}   (MIRIFLAGS=-Zmiri-seed={seed}) in harness_miri/\n" + out[-3000:]})
        elif rc != 0 and "Undefined Behavior" in out:
            first = re.search(r"Undefined Behavior[^\n]*", out).group(0)
            # other UB classes are not this property's business unless they involve two arenas; report as diff-like note
            runs[-1]["ub"] = first[:200]
        elif rc != 0:
            runs[-1]["error"] = out[-300:]
    return fails, runs


def send_probes(ctx):
    """the hand-over clause as the compiler sees it: for every minimum alignment, an idle arena may be moved into another
    thread, used and dropped there (`Bump<M>: Send`), and may not be shared by reference (`Bump<M>: !Sync`).  Returns
    (oracle fails, number of programs compiled) or (None, error text) when the crate itself does not build."""
    from families import borrow as B
    rlib, deps = B.build_rlib(ctx)
    if rlib is None:
        return None, deps
    wd = os.path.join(ctx.workdir, "send_probes")
    os.makedirs(wd, exist_ok=True)
    progs = []
    for al in (1, 2, 4, 8, 16):
        progs.append((f"move{al}", True, B.PRELUDE + f"pub fn probe() {{\n    let b: Bump<{al}> = Bump::with_min_align();\n    touch(b.alloc(1u32));\n"
                      f"    let t = std::thread::spawn(move || {{ let mut b = b; touch(b.alloc(2u64)); b.reset(); drop(b); }});\n    t.join().unwrap();\n}}\n"))
        progs.append((f"send{al}", True, B.PRELUDE + f"fn req<T: Send>() {{}}\npub fn probe() {{ req::<Bump<{al}>>(); }}\n"))
        progs.append((f"sync{al}", False, B.PRELUDE + f"fn req<T: Sync>() {{}}\npub fn probe() {{ req::<Bump<{al}>>(); }}\n"))
        progs.append((f"share{al}", False, B.PRELUDE + f"pub fn probe() {{\n    let b: Bump<{al}> = Bump::with_min_align();\n    std::thread::scope(|s| {{\n        s.spawn(|| {{ touch(b.alloc(1u32)); }});\n        touch(b.alloc(2u32));\n    }});\n}}\n"))
    fails = []
    for name, accept, rust in progs:
        path = os.path.join(wd, name + ".rs")
        open(path, "w").write(rust)
        ok, codes, txt, cmd = B.compile_one((path, rlib, deps))
        if ok != accept:
            what = "idle-arena-cannot-be-moved-to-another-thread" if accept else "arena-shareable-between-threads"
            fails.append({"prop": "C20", "name": what, "plan": None, "op": None, "trace": None,
                          "detail": f"program {name}: rustc {'accepts' if ok else 'rejects ' + '+'.join(codes)}; " + txt.strip().split("\n")[0][:200],
                          "plan_text": f"SENDPROBE {name}\n# {cmd}\n" + "".join("# " + l + "\n" for l in rust.split("\n"))})
    return fails, len(progs)


def run(ctx, mult=1, seed_shift=0, corpus=True):
    sp, nsp = send_probes(ctx)
    if sp is None:
        return {"infra_error": "the crate does not build: " + nsp[-800:], "oracle_fails": [], "diffs": []}
    if sp:
        # the harness itself moves arenas between threads and cannot be built against such a crate: the programs are the input
        return {"oracle_fails": sp, "diffs": [], "evaluations": nsp, "traces": 0, "distinct_nontrivial": nsp, "histogram": {"send-probe-programs": nsp},
                "samples": [], "rule": "hand-over programs compiled against the crate", "results": [], "extra": {}}
    bvh, err = common.build_harness(ctx)
    if bvh is None:
        return {"infra_error": "harness does not build against /repo: " + err[-800:], "oracle_fails": [], "diffs": []}
    drv, err = common.build_driver(ctx)
    if drv is None:
        return {"infra_error": "driver does not build: " + err[-800:], "oracle_fails": [], "diffs": []}
    scale = (8 if ctx.tier == "thorough" else 1) * mult
    base = (ctx.seed * 1000003 + seed_shift * 7919) % (2 ** 62)
    jobs = []
    for k in range(4 * scale):
        jobs.append((bvh, ["pair", f"seed={base + k}", "plans=40", "ops=30", f"profile={['general', 'allocapi', 'resets', 'init'][k % 4]}"], f"pair{k}"))
    for k in range(2 * scale):
        jobs.append((bvh, ["threads", f"seed={base + 100 + k}", "plans=5", "threads=6", "ops=40", f"profile={['general', 'resets'][k % 2]}"], f"thr{k}"))
    t = time.time()
    with ThreadPoolExecutor(max_workers=8) as ex:
        results = list(ex.map(lambda j: A.run_one(ctx, j[0], drv, j[1], j[2]), jobs))
    ctx.log(f"{len(jobs)} pair/threads jobs in {time.time() - t:.1f}s")
    out = A.summarize(ctx, results)
    # any oracle failure in an interleaved / concurrent run is attributed to C20 as well as to its own property
    extra = []
    for f in out["oracle_fails"]:
        if f["prop"] != "C20":
            g = dict(f)
            g["prop"] = "C20"
            g["name"] = "interference-" + f["name"]
            extra.append(g)
    out["oracle_fails"] += extra
    t = time.time()
    nseeds = 16 if ctx.tier == "thorough" else 1
    f1, r1 = run_miri(ctx, "plain", [base % 1000 + i for i in range(nseeds)])
    f2, r2 = run_miri(ctx, "zst", [base % 1000])
    ctx.log(f"miri runs in {time.time() - t:.1f}s: {r1 + r2}")
    out["oracle_fails"] += f1 + f2
    out["extra"]["send_probe_programs"] = nsp
    out["extra"]["miri_runs"] = r1 + r2
    out["rule"] += "; plus Miri executions of harness_miri (modes plain, zst) counted in extra.miri_runs"
    return out


def search(ctx, run_, proof):
    for shift in range(1, 3):
        r = run(ctx, mult=3, seed_shift=shift, corpus=False)
        mine = [f for f in r.get("oracle_fails", []) if f["prop"] == ctx.prop and not common.match_known(ctx.prop, f)]
        if mine:
            f = dict(mine[0])
            f["run"] = r
            return f
    return None


make_replay = A.make_replay
diff_context = A.diff_context


def replay(ctx, path):
    if open(path).read().lstrip().startswith("SENDPROBE"):
        sp, nsp = send_probes(ctx)
        if sp is None:
            print("the crate does not build:", nsp)
            return 2
        for f in sp:
            print(f"ORACLE {f['prop']} {f['name']} {f['detail']}")
        if sp:
            print(f"VIOLATION property={ctx.prop} replay={path}")
        return 1 if sp else 0
    return A.replay(ctx, path)
