"""Vec family: runs the Rust harness `bvh_vec` (bumpalo::collections::Vec and std::vec::Vec side by
side, model-independent oracles) against /repo's working tree, pipes the traces through the
compiled Lean slot-machine model (`bvdrv_vec`), collects oracle failures and
model-vs-implementation disagreements projected onto the property's observation fields."""
import os, re, glob, subprocess, time, hashlib, resource
from concurrent.futures import ThreadPoolExecutor
import common
from families.arena import ORACLE_RE, DIFF_RE  # read-only reuse of the line formats

ROOT = common.ROOT
HARNESS = os.environ.get("BV_VEC_HARNESS", os.path.join(ROOT, "harness_vec"))  # override: validation against a scratch worktree
CORPUS = os.path.join(ROOT, "corpus", "vec")


def _limit_mem():
    # the model is given whatever numbers the plan contains: never let a driver eat the machine
    resource.setrlimit(resource.RLIMIT_AS, (6 << 30, 6 << 30))


def build_harness(ctx, release=False):
    global HARNESS
    if "BV_VEC_HARNESS" not in os.environ:
        HARNESS = common.harness_dir("harness_vec")   # shadow copy when BV_REPO points at a scratch worktree
    with common.Lock("cargo_vec"):
        t = time.time()
        cmd = "cargo build --offline" + (" --release" if release else "")
        rc, txt = common.sh(cmd, cwd=HARNESS, timeout=3000)
        ctx.log(f"harness_vec: {cmd}: rc={rc} in {time.time() - t:.1f}s")
        if rc != 0:
            return None, txt[-2000:]
    return os.path.join(HARNESS, "target", "release" if release else "debug", "bvh_vec"), ""


def build_driver(ctx):
    with common.Lock("lean"):
        rc, txt = common.sh("lake build bvdrv_vec", cwd=common.LEAN, timeout=3000)
        if rc != 0:
            return None, txt[-1500:]
    return os.path.join(common.LEAN, ".lake", "build", "bin", "bvdrv_vec"), ""


def parse_trace(path):
    """-> plans {idx: {header, ops:[op text], lines:[full lines]}}, oracle fails"""
    plans, cur, fails = {}, None, []
    boundary = False
    if not os.path.exists(path):
        return plans, fails
    for raw in open(path, errors="replace"):
        line = raw.rstrip("\n")
        if line.strip() == "# BOUNDARY":
            boundary = True
        if line.startswith("PLAN "):
            m = re.search(r"idx=(\d+)", line)
            cur = {"header": line, "ops": [], "lines": []}
            plans[int(m.group(1))] = cur
        elif line.startswith("ORACLE "):
            m = ORACLE_RE.match(line)
            if m:
                pm = re.search(r"plan=(\d+) op=(\d+)", m.group(3))
                fails.append({"prop": m.group(1), "name": m.group(2), "detail": m.group(3),
                              "plan": int(pm.group(1)) if pm else None, "op": int(pm.group(2)) if pm else None,
                              "trace": path})
                if boundary and pm is None:
                    fails[-1]["plan_text"] = "BOUNDARY\n"      # the fixed boundary scenarios: the replay re-runs them all
        elif line.startswith("END") or line.startswith("SUMMARY") or line.startswith("#") or not line.strip():
            continue
        elif cur is not None:
            op = re.sub(r" (id0|env)=\S+", "", line.split(" | ")[0])
            cur["ops"].append(op)
            cur["lines"].append(line)
    return plans, fails


def run_one(ctx, bvh, drv, args, tag):
    trace = os.path.join(ctx.workdir, f"trace_{tag}.txt")
    cur = os.path.join(ctx.workdir, f"cur_{tag}.plan")
    for p in (trace, cur):
        if os.path.exists(p):
            os.remove(p)
    cmd = [bvh] + args + [f"out={trace}", f"curplan={cur}"]
    try:
        p = subprocess.run(cmd, stdout=subprocess.PIPE, stderr=subprocess.PIPE, timeout=ctx.spec.get("timeout", 600))
        rc, err = p.returncode, p.stderr.decode("utf-8", "replace")[-600:]
    except subprocess.TimeoutExpired:
        rc, err = -999, "timeout"
    plans, fails = parse_trace(trace)
    res = {"trace": trace, "rc": rc, "plans": plans, "fails": fails, "diffs": [], "stderr": err, "cmd": " ".join(cmd), "driver_tail": ""}
    if rc != 0:
        # crash (abort in a destructor, segfault, ...) or hang: the plan so far is the failing input
        plan_text = open(cur).read() if os.path.exists(cur) else ""
        name = "does-not-terminate" if rc in (3, -999) else "crash"
        last = err.strip().splitlines()[-1] if err.strip() else ""
        res["fails"].append({"prop": ctx.prop, "name": name, "detail": f"harness exit={rc} {last}", "plan": None, "op": None,
                             "trace": trace, "plan_text": plan_text})
    out = ""
    if os.path.exists(trace):
        with open(trace, "rb") as fh:
            try:
                d = subprocess.run([drv], stdin=fh, stdout=subprocess.PIPE, stderr=subprocess.PIPE, timeout=600, preexec_fn=_limit_mem)
                out = d.stdout.decode("utf-8", "replace")
                if d.returncode != 0:
                    out += f"\nDIFF plan=0 line=0 op=driver field=parse model=driver-exit-{d.returncode} impl=-\n"
            except subprocess.TimeoutExpired:
                out = "DIFF plan=0 line=0 op=driver field=parse model=driver-timeout impl=-\n"
    for line in out.split("\n"):
        m = DIFF_RE.match(line)
        if m:
            res["diffs"].append({"plan": int(m.group(1)), "line": int(m.group(2)), "op": m.group(3), "field": m.group(4),
                                 "model": m.group(5), "impl": m.group(6), "text": line, "trace": trace})
        elif line.startswith("DRIVER"):
            res["driver_tail"] = line
    if os.path.exists(trace) and not res["driver_tail"] and not res["diffs"]:
        res["diffs"].append({"plan": 0, "line": 0, "op": "driver", "field": "parse", "model": "no-driver-summary", "impl": "-",
                             "text": "DIFF plan=0 line=0 op=driver field=parse model=no-driver-summary impl=-", "trace": trace})
    return res


def project(ctx, diffs):
    fields = set(ctx.spec.get("fields", []))
    ops = ctx.spec.get("ops")
    out = []
    for d in diffs:
        if d["field"] not in fields and d["field"] not in ("parse", "bad"):
            continue
        if ops and d["op"] not in ops and d["op"] not in ("driver", "end"):
            continue
        out.append(d)
    return out


def jobs_for(ctx, mult=1, seed_shift=0, profiles=None):
    spec = ctx.spec
    scale = (spec.get("thorough_scale", 25) if ctx.tier == "thorough" else 1) * mult
    jobs, k = [], 0
    for (prof, plans, ops) in (profiles or spec["profiles"]):
        total = plans * scale
        per = max(1, min(total, max(60, total // 6)))
        n = 0
        while n < total:
            cnt = min(per, total - n)
            seed = (ctx.seed * 1000003 + seed_shift * 7919 + k * 101) % (2 ** 62)
            jobs.append((["vec", f"seed={seed}", f"plans={cnt}", f"ops={ops}", f"profile={prof}"], f"{prof}_{k}"))
            n += cnt
            k += 1
    return jobs


def run(ctx, mult=1, seed_shift=0, corpus=True):
    bvh, err = build_harness(ctx)
    if bvh is None:
        return {"infra_error": "harness_vec does not build against /repo: " + err[-800:], "oracle_fails": [], "diffs": []}
    drv, err = build_driver(ctx)
    if drv is None:
        return {"infra_error": "bvdrv_vec does not build: " + err[-800:], "oracle_fails": [], "diffs": []}
    bins = [("dev", bvh, None)]
    # release profile (no overflow checks, no debug assertions): everything in thorough, a
    # smaller batch in quick where the spec asks for one
    rel_profiles = None if ctx.tier == "thorough" else ctx.spec.get("quick_release")
    if ctx.tier == "thorough" or rel_profiles:
        rel, err = build_harness(ctx, release=True)
        if rel:
            bins.append(("rel", rel, rel_profiles))
        else:
            return {"infra_error": "harness_vec (release) does not build: " + err[-800:], "oracle_fails": [], "diffs": []}
    jobs = []
    if ctx.spec.get("boundary"):
        # fixed scenarios around usize::MAX (zero-sized elements), in both build profiles: wrapping arithmetic only shows
        # where overflow checks are off
        rel, err = build_harness(ctx, release=True)
        if not rel:
            return {"infra_error": "harness_vec (release) does not build: " + err[-800:], "oracle_fails": [], "diffs": []}
        jobs.append((bvh, ["boundary"], "dev_boundary"))
        jobs.append((rel, ["boundary"], "rel_boundary"))
    if corpus:
        for i, f in enumerate(sorted(glob.glob(os.path.join(CORPUS, "*.plan")))):
            for name, b, _ in bins:
                jobs.append((b, ["replay", f], f"{name}_corpus{i}"))
    for name, b, profs in bins:
        for args, tag in jobs_for(ctx, mult, seed_shift, profs):
            jobs.append((b, args, f"{name}_{tag}"))
    t = time.time()
    with ThreadPoolExecutor(max_workers=14) as ex:
        results = list(ex.map(lambda j: run_one(ctx, j[0], drv, j[1], j[2]), jobs))
    ctx.log(f"{len(jobs)} harness+driver jobs in {time.time() - t:.1f}s")
    return summarize(ctx, results)


def summarize(ctx, results):
    fails, diffs, hist, samples = [], [], {}, []
    evaluations, traces = 0, 0
    distinct = set()
    relevant_ops = set(ctx.spec.get("nontrivial_ops", []))
    for r in results:
        fails += r["fails"]
        diffs += project(ctx, r["diffs"])
        for idx, p in r["plans"].items():
            traces += 1
            for line in p["lines"]:
                evaluations += 1
                op = line.split(" ", 1)[0]
                m = re.search(r"\| RES (\S+)", line)
                kind = f"{op}:{m.group(1) if m else '?'}"
                hist[kind] = hist.get(kind, 0) + 1
                if m and m.group(1) != "skip" and (not relevant_ops or op in relevant_ops):
                    norm = re.sub(r" id0=\d+", "", line.split(" | ")[0]) + "|" + m.group(1)
                    distinct.add(hashlib.md5(norm.encode()).hexdigest()[:12])
            if len(samples) < 3 and p["lines"]:
                samples.append({"plan": p["header"], "first_ops": [l[:200] for l in p["lines"][:6]]})
    return {
        "oracle_fails": fails, "diffs": diffs, "evaluations": evaluations, "traces": traces,
        "distinct_nontrivial": len(distinct), "histogram": dict(sorted(hist.items())), "samples": samples,
        "rule": "cases = operations executed on bumpalo::collections::Vec (and on std::vec::Vec side by side) inside generated plans "
                "(structured generator, one splitmix64 stream per plan); distinct = distinct (operation text incl. arguments and panic point, "
                "result kind); non-trivial = operation kinds relevant to this property: "
                + (",".join(sorted(relevant_ops)) if relevant_ops else "all"),
        "results": results,
        "extra": {"jobs": len(results), "nonzero_exits": [r["cmd"] for r in results if r["rc"] != 0][:5],
                  "fields_compared": ctx.spec.get("fields", []), "driver": [r["driver_tail"][:120] for r in results[:3]]},
    }


def plan_text_for(fail, run):
    if fail.get("plan_text"):
        return fail["plan_text"]
    for r in run.get("results", []):
        if r["trace"] == fail.get("trace") and fail.get("plan") in r["plans"]:
            p = r["plans"][fail["plan"]]
            upto = (fail["op"] + 1) if fail.get("op") is not None else len(p["ops"])
            return p["header"] + "\n" + "\n".join(p["ops"][:upto]) + "\n"
    return ""


def _bin_for(fail):
    rel = "/trace_rel_" in (fail.get("trace") or "")
    return os.path.join(HARNESS, "target", "release" if rel else "debug", "bvh_vec")


def still_fails(ctx, bvh, plan_text, fail, tag="shrink"):
    path = os.path.join(ctx.workdir, f"{tag}.plan")
    open(path, "w").write(plan_text)
    out = os.path.join(ctx.workdir, f"{tag}.trace")
    try:
        p = subprocess.run([bvh, "replay", path, f"out={out}"], stdout=subprocess.PIPE, stderr=subprocess.PIPE, timeout=60)
        rc = p.returncode
    except subprocess.TimeoutExpired:
        rc = -999
    if fail["name"] == "does-not-terminate":
        return rc in (3, -999)
    if fail["name"] == "crash":
        return rc not in (0, 3)
    _, fails = parse_trace(out)
    return any(f["prop"] == fail["prop"] and f["name"] == fail["name"] and not common.match_known(f["prop"], f) for f in fails)


def shrink(ctx, plan_text, fail):
    """greedy removal of single operations (the header stays); operations whose variable no
    longer exists are skipped by the harness, so every subsequence is a valid plan"""
    bvh = _bin_for(fail)
    lines = [l for l in plan_text.split("\n") if l.strip()]
    ok = still_fails(ctx, bvh, plan_text, fail)
    if len(lines) < 2 or not ok:
        return plan_text, ok
    header, ops = lines[0], lines[1:]
    budget = 200
    changed = True
    while changed and budget > 0:
        changed = False
        i = len(ops) - 2
        while i >= 0 and budget > 0:
            cand = ops[:i] + ops[i + 1:]
            budget -= 1
            if still_fails(ctx, bvh, header + "\n" + "\n".join(cand) + "\n", fail):
                ops = cand
                changed = True
            i -= 1
    return header + "\n" + "\n".join(ops) + "\n", True


def make_replay(ctx, fail, run):
    text = plan_text_for(fail, run)
    confirmed = False
    if text:
        try:
            text, confirmed = shrink(ctx, text, fail)
        except Exception as e:  # shrinking is best effort
            text += f"# shrink failed: {e}\n"
    prof = "release" if "/trace_rel_" in (fail.get("trace") or "") else "dev"
    head = (f"# property {ctx.prop}: oracle {fail['prop']}/{fail['name']} failed on the real crate ({prof} profile)\n"
            f"# {fail['detail']}\n# replay: ./check {ctx.prop} --replay <this file>   (reproduced on replay: {confirmed})\n"
            f"# profile={prof}\n")
    return head + text


def diff_context(ctx, d, run):
    for r in run.get("results", []):
        if r["trace"] == d["trace"] and d["plan"] in r["plans"]:
            p = r["plans"][d["plan"]]
            return "# first diverging plan (model vs implementation):\n" + p["header"] + "\n" + "\n".join(p["ops"]) + "\n"
    return ""


def search(ctx, run, proof):
    """more seeds, same generators, looking for an oracle failure of this property"""
    for shift in range(1, 4):
        r = globals()["run"](ctx, mult=3, seed_shift=shift, corpus=False)
        mine = [f for f in r.get("oracle_fails", []) if f["prop"] == ctx.prop and not common.match_known(ctx.prop, f)]
        if mine:
            f = dict(mine[0])
            f["run"] = r
            return f
    return None


def replay(ctx, path):
    text = open(path).read()
    release = "# profile=release" in text
    bvh, err = build_harness(ctx, release=release)
    drv, _ = build_driver(ctx)
    if bvh is None or drv is None:
        print("harness or driver does not build:", err)
        return 2
    r = run_one(ctx, bvh, drv, ["replay", path], "rel_replay" if release else "replay")
    bad = 0
    for f in r["fails"]:
        k = common.match_known(f["prop"], f)
        print(f"ORACLE {f['prop']} {f['name']} {f['detail']}" + (f"   [known finding {k['id']}]" if k else ""))
        if f["prop"] == ctx.prop and not k:
            bad = 1
    for d in project(ctx, r["diffs"]):
        print(d["text"])
        bad = 1
    print(r["driver_tail"])
    if bad:
        print(f"VIOLATION property={ctx.prop} replay={path}")
    return bad
