"""Composite properties: one property decided by several families (e.g. C16 = Vec part + String
part + Box part + arena part).  Each part runs with its own family module and spec; results are
merged and relabelled with the parent property id."""
import importlib, os, re
import common


def _parts(ctx):
    import specs
    out = []
    for key in ctx.spec["parts"]:
        sp = specs.PARTS[key]
        fam = importlib.import_module("families." + sp["family"])
        # the part is run under the parent's property id (that is how the families label their oracle
        # lines) but in its own work directory
        sub = common.Ctx(ctx.prop, ctx.tier, ctx.seed, sp)
        sub.workdir = os.path.join(common.ROOT, "work", key)
        os.makedirs(sub.workdir, exist_ok=True)
        sub.t0 = ctx.t0
        out.append((key, fam, sub))
    return out


def _relabel(ctx, key, fam_name, fails):
    out = []
    for f in fails:
        g = dict(f)
        if g.get("prop") in (key, ctx.prop, key.upper()):
            g["prop"] = ctx.prop
        g["family"] = fam_name
        g["part"] = key
        out.append(g)
    return out


def run(ctx):
    merged = {"oracle_fails": [], "diffs": [], "evaluations": 0, "traces": 0, "distinct_nontrivial": 0, "histogram": {},
              "samples": [], "rule": "", "extra": {"parts": {}}, "part_runs": {}}
    rules = []
    for key, fam, sub in _parts(ctx):
        r = fam.run(sub)
        merged["part_runs"][key] = (fam, sub, r)
        if r.get("infra_error"):
            merged["infra_error"] = f"{key}: {r['infra_error']}"
        merged["oracle_fails"] += _relabel(ctx, key, sub.spec["family"], r.get("oracle_fails", []))
        for d in r.get("diffs", []):
            d = dict(d); d["part"] = key; d["family"] = sub.spec["family"]
            merged["diffs"].append(d)
        for k in ("evaluations", "traces", "distinct_nontrivial"):
            merged[k] += r.get(k, 0)
        for k, v in r.get("histogram", {}).items():
            merged["histogram"][f"{key}:{k}"] = v
        merged["samples"] += [{"part": key, **s} if isinstance(s, dict) else {"part": key, "sample": s} for s in r.get("samples", [])[:2]]
        rules.append(f"[{key}] " + r.get("rule", ""))
        merged["extra"]["parts"][key] = {"family": sub.spec["family"], "evaluations": r.get("evaluations", 0),
                                        "traces": r.get("traces", 0), "extra": r.get("extra", {})}
    merged["rule"] = " ".join(rules)[:3000]
    return merged


def search(ctx, run_, proof):
    for key, (fam, sub, r) in run_.get("part_runs", {}).items():
        try:
            found = fam.search(sub, r, proof)
        except Exception as e:  # a part's search must not take the whole verdict down
            ctx.log(f"search in part {key} failed: {e}")
            found = None
        if found:
            g = _relabel(ctx, key, sub.spec["family"], [found])[0]
            if g["prop"] == ctx.prop:
                g["run"] = found.get("run", r)
                return g
    return None


def make_replay(ctx, fail, run_):
    key = fail.get("part")
    fam, sub, r = run_["part_runs"][key] if key in run_.get("part_runs", {}) else (None, None, None)
    if fam is None:
        for k, (f2, s2, r2) in run_.get("part_runs", {}).items():
            if s2.spec["family"] == fail.get("family"):
                fam, sub, r, key = f2, s2, r2, k
    inner = dict(fail)
    inner["prop"] = fail.get("orig_prop", fail["prop"])
    text = fam.make_replay(sub, inner, fail.get("run", r))
    return f"# part={key} family={sub.spec['family']}\n" + text


def diff_context(ctx, d, run_):
    key = d.get("part")
    if key in run_.get("part_runs", {}):
        fam, sub, r = run_["part_runs"][key]
        return f"# part={key} family={sub.spec['family']}\n" + fam.diff_context(sub, d, r)
    return ""


def replay(ctx, path):
    head = open(path).read(400)
    m = re.search(r"# part=(\S+) family=(\S+)", head)
    if not m:
        print("replay file does not name its part")
        return 2
    import specs
    key = m.group(1)
    sp = specs.PARTS[key]
    fam = importlib.import_module("families." + sp["family"])
    sub = common.Ctx(ctx.prop, ctx.tier, ctx.seed, sp)
    sub.workdir = os.path.join(common.ROOT, "work", key)
    rc = fam.replay(sub, path)
    if rc == 1:
        print(f"VIOLATION property={ctx.prop} replay={path}")
    return rc
