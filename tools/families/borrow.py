"""Borrow family (property C05): compile-time probes of the borrow / auto-trait rules.

Generates client programs over one arena in the language of lean/BumpVerif/Model/Borrow.lean (each misuse with a
twin that differs by exactly one edit), renders them as Rust, compiles each with

    rustc --edition 2021 --crate-type lib --emit=metadata -L dependency=<deps> --extern bumpalo=<rlib> --error-format=short

against the rlib built from the working tree of the crate (tiny crate harness_borrow/), asks the Lean model for its
verdict on the same programs (`lake env lean --run Driver/BorrowMain.lean`, evaluated on the generated table
Gen/Api.lean) and requires verdict and error-code class to be equal.

* rustc ACCEPTS a program that is a misuse by construction      -> oracle failure C05/accepts-misuse (the program
  file is the concrete failing input: it compiles against the crate);
* rustc REJECTS, with a borrow/auto-trait error, a program that is an ordinary pattern by construction
                                                                -> oracle failure C05/rejects-ordinary-pattern;
* any other disagreement between rustc and the model            -> diffs entry (model vs compiler).

Environment overrides (used for scratch runs against a modified worktree, never by ./check itself):
BV_REPO (crate to build against), BV_LEAN_DIR (lake project holding the generated Api.lean)."""
import time, os, re, sys, json, time, glob, shutil, hashlib, subprocess
from concurrent.futures import ThreadPoolExecutor

sys.path.insert(0, os.path.dirname(os.path.dirname(os.path.abspath(__file__))))
import common  # noqa: E402

ROOT = common.ROOT
HB = os.path.join(ROOT, "harness_borrow")
WORK = os.path.join(ROOT, "work", "borrow")
LEAN_DIR = os.environ.get("BV_LEAN_DIR", common.LEAN)
BORROW_CODES = {"E0499", "E0502", "E0505", "E0506", "E0597", "E0716", "E0277", "E0515", "E0382", "E0373", "E0596",
                "E0503", "E0521", "E0713"}
MASK = (1 << 64) - 1


class Rng:
    """splitmix64"""
    def __init__(self, seed):
        self.s = seed & MASK

    def next(self):
        self.s = (self.s + 0x9E3779B97F4A7C15) & MASK
        z = self.s
        z = ((z ^ (z >> 30)) * 0xBF58476D1CE4E5B9) & MASK
        z = ((z ^ (z >> 27)) * 0x94D049BB133111EB) & MASK
        return z ^ (z >> 31)

    def below(self, n):
        return self.next() % n

    def pick(self, xs):
        return xs[self.below(len(xs))]


# --------------------------------------------------------------------------------------------------
# Rust templates: method id -> (expression, type tag of the result); {b} arena, {s} source, {x} receiver value
# --------------------------------------------------------------------------------------------------
ALLOC = {   # Bump methods handing out a reference (model: allocNames)
    "alloc": ("{b}.alloc(7u32)", "ref"),
    "try_alloc": ("{b}.try_alloc(7u32).unwrap()", "ref"),
    "alloc_with": ("{b}.alloc_with(|| 7u32)", "ref"),
    "try_alloc_with": ("{b}.try_alloc_with(|| 7u32).unwrap()", "ref"),
    "alloc_try_with": ("{b}.alloc_try_with(|| Ok::<u32, ()>(7)).unwrap()", "ref"),
    "try_alloc_try_with": ("{b}.try_alloc_try_with(|| Ok::<u32, ()>(7)).ok().unwrap()", "ref"),
    "alloc_slice_copy": ("{b}.alloc_slice_copy(&[1u8, 2, 3][..])", "slice8"),
    "try_alloc_slice_copy": ("{b}.try_alloc_slice_copy(&[1u8, 2, 3][..]).unwrap()", "slice8"),
    "alloc_slice_clone": ("{b}.alloc_slice_clone(&[1u8, 2, 3][..])", "slice8"),
    "try_alloc_slice_clone": ("{b}.try_alloc_slice_clone(&[1u8, 2, 3][..]).unwrap()", "slice8"),
    "alloc_str": ("{b}.alloc_str(\"hi\")", "str"),
    "try_alloc_str": ("{b}.try_alloc_str(\"hi\").unwrap()", "str"),
    "alloc_slice_fill_with": ("{b}.alloc_slice_fill_with(3, |i| i as u32)", "slice"),
    "alloc_slice_try_fill_with": ("{b}.alloc_slice_try_fill_with(3, |i| Ok::<u32, ()>(i as u32)).unwrap()", "slice"),
    "try_alloc_slice_fill_with": ("{b}.try_alloc_slice_fill_with(3, |i| i as u32).unwrap()", "slice"),
    "alloc_slice_fill_copy": ("{b}.alloc_slice_fill_copy(3, 0u32)", "slice"),
    "try_alloc_slice_fill_copy": ("{b}.try_alloc_slice_fill_copy(3, 0u32).unwrap()", "slice"),
    "alloc_slice_fill_clone": ("{b}.alloc_slice_fill_clone(3, &0u32)", "slice"),
    "try_alloc_slice_fill_clone": ("{b}.try_alloc_slice_fill_clone(3, &0u32).unwrap()", "slice"),
    "alloc_slice_fill_iter": ("{b}.alloc_slice_fill_iter(0..3u32)", "slice"),
    "alloc_slice_try_fill_iter": ("{b}.alloc_slice_try_fill_iter([Ok::<u32, ()>(1), Ok(2)]).unwrap()", "slice"),
    "try_alloc_slice_fill_iter": ("{b}.try_alloc_slice_fill_iter(0..3u32).unwrap()", "slice"),
    "alloc_slice_fill_default": ("{b}.alloc_slice_fill_default::<u32>(3)", "slice"),
    "try_alloc_slice_fill_default": ("{b}.try_alloc_slice_fill_default::<u32>(3).unwrap()", "slice"),
}
ALLOC_SRC = {   # the same methods copying from a borrowed source {s}: std String
    "alloc_slice_copy": ("{b}.alloc_slice_copy({s}.as_bytes())", "slice8"),
    "try_alloc_slice_copy": ("{b}.try_alloc_slice_copy({s}.as_bytes()).unwrap()", "slice8"),
    "alloc_slice_clone": ("{b}.alloc_slice_clone({s}.as_bytes())", "slice8"),
    "try_alloc_slice_clone": ("{b}.try_alloc_slice_clone({s}.as_bytes()).unwrap()", "slice8"),
    "alloc_str": ("{b}.alloc_str(&{s})", "str"),
    "try_alloc_str": ("{b}.try_alloc_str(&{s}).unwrap()", "str"),
    "alloc_slice_fill_clone": ("{b}.alloc_slice_fill_clone(2, &{s})", "slicestring"),
    "try_alloc_slice_fill_clone": ("{b}.try_alloc_slice_fill_clone(2, &{s}).unwrap()", "slicestring"),
}
CTOR = {    # model: ctorIds (RawVec lives in a private module and cannot be named by a client)
    "Vec#new_in": ("Vec::<u32>::new_in(&{b})", "vec"),
    "Vec#with_capacity_in": ("Vec::<u32>::with_capacity_in(4, &{b})", "vec"),
    "Vec#from_iter_in": ("Vec::from_iter_in(0..3u32, &{b})", "vec"),
    "String#new_in": ("String::new_in(&{b})", "string"),
    "String#with_capacity_in": ("String::with_capacity_in(4, &{b})", "string"),
    "String#from_str_in": ("String::from_str_in(\"hi\", &{b})", "string"),
    "String#from_iter_in": ("String::from_iter_in(\"hi\".chars(), &{b})", "string"),
    "Box#new_in": ("Box::new_in(7u32, &{b})", "box"),
    "Box#from_iter_in": ("Box::from_iter_in(0..3u32, &{b})", "boxslice"),
}
CTOR_SRC = {"String#from_str_in": ("String::from_str_in(&{s}, &{b})", "string"),
            "String#from_utf8_lossy_in": ("String::from_utf8_lossy_in({s}.as_bytes(), &{b})", "string")}
PLAIN = {
    "chunk_capacity": "{b}.chunk_capacity()", "allocated_bytes": "{b}.allocated_bytes()",
    "allocated_bytes_including_metadata": "{b}.allocated_bytes_including_metadata()",
    "allocation_limit": "{b}.allocation_limit()", "set_allocation_limit": "{b}.set_allocation_limit(None)",
}
EXCL = {"reset": ("{b}.reset()", "unit"), "iter_allocated_chunks": ("{b}.iter_allocated_chunks()", "chunkiter")}
# derive: method id -> (required tag of x, expression, tag of result, result has drop glue, receiver by value)
DERIVE = {
    "Vec#into_bump_slice": ("vec", "{x}.into_bump_slice()", "sliceshared", False, True),
    "Vec#into_bump_slice_mut": ("vec", "{x}.into_bump_slice_mut()", "slice", False, True),
    "Vec#into_boxed_slice": ("vec", "{x}.into_boxed_slice()", "boxslice", True, True),
    "Vec#into_iter": ("vec", "{x}.into_iter()", "intoiter", True, True),
    "Vec#drain": ("vec", "{x}.drain(..)", "drain", True, False),
    "Vec#drain_filter": ("vec", "{x}.drain_filter(|e| *e > 1)", "drainfilter", True, False),
    "Vec#splice": ("vec", "{x}.splice(.., [9u32])", "splice", True, False),
    "Vec#as_slice": ("vec", "{x}.as_slice()", "sliceshared", False, False),
    "Vec#bump": ("vec", "{x}.bump()", "bumpref", False, False),
    "String#into_bump_str": ("string", "{x}.into_bump_str()", "strshared", False, True),
    "String#into_bytes": ("string", "{x}.into_bytes()", "vec8", True, True),
    "String#as_str": ("string", "{x}.as_str()", "strshared", False, False),
    "String#drain": ("string", "{x}.drain(..)", "sdrain", True, False),
    "String#bump": ("string", "{x}.bump()", "bumpref", False, False),
    "Box#leak": ("box", "Box::leak({x})", "ref", False, True),
    "ChunkIter#next": ("chunkiter", "{x}.next()", "chunk", False, False),
    "vec::IntoIter#as_slice": ("intoiter", "{x}.as_slice()", "sliceshared", False, False),
}
GLUE_TAGS = {"vec", "vec8", "string", "box", "boxslice", "intoiter", "drain", "drainfilter", "splice", "sdrain"}
RET_TY = {"ref": "&'static mut u32", "slice": "&'static mut [u32]", "slice8": "&'static mut [u8]",
          "str": "&'static mut str", "vec": "Vec<'static, u32>", "string": "String<'static>",
          "box": "Box<'static, u32>", "boxslice": "Box<'static, [u32]>", "chunkiter": "bumpalo::ChunkIter<'static>",
          "usize": "usize", "sliceshared": "&'static [u32]", "strshared": "&'static str"}
PRELUDE = ("#![allow(warnings)]\nuse bumpalo::Bump;\nuse bumpalo::collections::{Vec, String};\nuse bumpalo::boxed::Box;\n"
           "fn touch<T: ?Sized>(_: &T) {}\n")


def method_template(mid, src):
    owner, name = mid.split("#")
    if owner == "Bump":
        if src is not None:
            return ALLOC_SRC[name]
        if name in ALLOC:
            return ALLOC[name]
        if name in EXCL:
            return EXCL[name]
        return (PLAIN[name], "usize")
    return CTOR_SRC[mid] if src is not None else CTOR[mid]


class Probe:
    def __init__(self, pid, family, kind, misuse, stmts=None, rust=None, model=None, note="", twin=None, bit=None):
        self.id, self.family, self.kind, self.misuse = pid, family, kind, misuse
        self.stmts, self.rust, self.model, self.note, self.twin, self.bit = stmts, rust, model, note, twin, bit
        self.rustc = None   # (accepted: bool, codes: sorted list, text)
        self.mv = None      # model verdict: ("accept"|"reject", code|None)


def model_line(pid, stmts):
    out = []
    for s in stmts:
        if s[0] == "call":
            out.append(f"call {s[1] if s[1] is not None else '-'} {s[2]} {s[3] if s[3] is not None else '-'}")
        elif s[0] == "derive":
            out.append(f"derive {s[1]} {s[2]} {s[3]}")
        elif s[0] in ("use", "drop", "src", "ret"):
            out.append(f"{s[0]} {s[1]}")
        elif s[0] == "move":
            out.append("move")
        elif s[0] == "end":
            out.append(f"end {s[1]}")
    return f"PROG {pid} " + " ; ".join(out)


def render(stmts):
    """Rust source of a program of the model language"""
    tags, lines_in, lines_out = {}, [], []
    scope_end = any(s == ("end", "scope") for s in stmts)
    ret = [s for s in stmts if s[0] == "ret"]
    cur = lines_in
    declared = []
    outer = set()   # variables mentioned after the end of the arena's block: declared before the block
    if scope_end:
        k = stmts.index(("end", "scope"))
        for s in stmts[k + 1:]:
            if s[0] in ("use", "drop", "ret"):
                outer.add(s[1])
            elif s[0] == "derive":
                outer.add(s[3])
            elif s[0] == "call" and s[3] is not None:
                outer.add(s[3])

    def let(v, e):
        return f"x{v} = {e};" if v in outer else f"let mut x{v} = {e};"
    for s in stmts:
        k = s[0]
        if k == "call":
            expr, tag = method_template(s[2], s[3])
            expr = expr.format(b="b", s=f"x{s[3]}")
            if s[1] is None:
                cur.append(f"{expr};")
            else:
                tags[s[1]] = tag
                declared.append(s[1])
                cur.append(let(s[1], expr))
        elif k == "derive":
            need, expr, tag, _, _ = DERIVE[s[2]]
            tags[s[1]] = tag
            declared.append(s[1])
            e = expr.format(x=f"x{s[3]}")
            cur.append(let(s[1], e))
        elif k == "use":
            cur.append(f"touch(&x{s[1]});")
        elif k == "drop":
            cur.append(f"drop(x{s[1]});")
        elif k == "src":
            tags[s[1]] = "src"
            declared.append(s[1])
            e = 'std::string::String::from("source text")'
            cur.append(let(s[1], e))
        elif k == "move":
            cur.append("let mut b = b;")
        elif k == "end" and s[1] == "drop":
            cur.append("drop(b);")
        elif k == "end" and s[1] == "scope":
            cur = lines_out
        elif k == "ret":
            cur.append(f"return x{s[1]};")
    rty = ""
    if ret:
        rty = " -> " + RET_TY.get(tags.get(ret[0][1], "usize"), "usize")
    body = []
    if scope_end:
        for v in declared:
            if v in outer:
                body.append(f"    let mut x{v};")
        body.append("    {")
        body.append("        let mut b = Bump::new();")
        body += ["        " + l for l in lines_in]
        body.append("    }")
        body += ["    " + l for l in lines_out]
    else:
        body.append("    let mut b = Bump::new();")
        body += ["    " + l for l in lines_in]
    return PRELUDE + f"pub fn probe(){rty} {{\n" + "\n".join(body) + "\n}\n"


# --------------------------------------------------------------------------------------------------
# generator
# --------------------------------------------------------------------------------------------------
class Gen:
    def __init__(self, seed):
        self.r = Rng(seed)
        self.v = 0
        self.probes = []
        self.n = 0
        self.cycle = {}

    def fresh(self):
        self.v += 1
        return self.v

    def rot(self, key, xs):
        """round-robin over xs (so that every public type / method is covered), offset by the seed"""
        i = self.cycle.get(key)
        if i is None:
            i = self.r.below(len(xs))
        self.cycle[key] = i + 1
        return xs[i % len(xs)]

    def filler(self, n, pool, arena=True, bind=True):
        """n benign statements: non-glue allocations binding fresh variables (added to pool), uses of pool
        variables, plain queries"""
        out = []
        for _ in range(n):
            c = self.r.below(3)
            if c == 0 and arena and bind:
                x = self.fresh()
                out.append(("call", x, "Bump#" + self.r.pick(sorted(ALLOC)), None))
                pool.append(x)
            elif c == 1 and pool:
                out.append(("use", self.r.pick(pool)))
            elif arena:
                out.append(("call", None, "Bump#" + self.r.pick(sorted(PLAIN)), None))
        return out

    def add_pair(self, family, misuse, twin, note):
        self.n += 1
        a = Probe(f"p{self.n}m", family, "prog", True, stmts=misuse, note=note)
        b = Probe(f"p{self.n}t", family, "prog", False, stmts=twin, note=note + " [twin]")
        a.twin, b.twin = b.id, a.id
        self.probes += [a, b]

    def holder(self, glue=None):
        """(method id, has glue)"""
        if glue is None:
            glue = self.r.below(3) == 0
        if glue:
            return self.rot("ctor", sorted(CTOR)), True
        return "Bump#" + self.rot("alloc", sorted(ALLOC)), False

    def invalidator(self, kinds):
        k = self.rot("inv" + "".join(kinds), kinds)
        if k == "reset":
            return ("call", None, "Bump#reset", None), True
        if k == "iter":
            return ("call", self.fresh(), "Bump#iter_allocated_chunks", None), True
        if k == "drop":
            return ("end", "drop"), False
        if k == "scope":
            return ("end", "scope"), False
        return ("move",), True

    # each family appends one (misuse, twin) pair ------------------------------------------------------
    def fam_use_after_reset(self):
        self.v = 0
        m, _ = self.holder(glue=False)
        pool = []
        pre = self.filler(self.r.below(3), pool)
        x = self.fresh()
        mid = self.filler(self.r.below(3), pool)
        c, alive = self.invalidator(["reset", "iter"])
        post = self.filler(self.r.below(3), [], arena=alive)
        post2 = self.filler(self.r.below(2), [], arena=alive)
        core = ("call", x, m, None)
        self.add_pair("use-after-reset", pre + [core] + mid + [c] + post + [("use", x)] + post2,
                      pre + [core] + mid + [("use", x)] + [c] + post + post2, f"holder={m} invalidator={c[2]}")

    def fam_use_after_drop(self):
        self.v = 0
        c, _ = self.invalidator(["drop", "scope"])
        # a container may escape the block too (its twin is block-local); after drop(b) only plain references
        m, _ = self.holder(glue=None if c[1] == "scope" else False)
        pool = []
        pre = self.filler(self.r.below(3), pool)
        x = self.fresh()
        mid = self.filler(self.r.below(3), pool)
        core = ("call", x, m, None)
        fam = "use-after-drop" if c[1] == "drop" else "escape-scope"
        self.add_pair(fam, pre + [core] + mid + [c, ("use", x)], pre + [core] + mid + [("use", x), c],
                      f"holder={m} end={c[1]}")

    def fam_move_while_borrowed(self):
        self.v = 0
        m, _ = self.holder(glue=False)
        pool = []
        pre = self.filler(self.r.below(3), pool)
        x = self.fresh()
        mid = self.filler(self.r.below(3), pool)
        post = self.filler(self.r.below(3), [])
        core = ("call", x, m, None)
        self.add_pair("move-while-borrowed", pre + [core] + mid + [("move",)] + post + [("use", x)],
                      pre + [core] + mid + [("use", x), ("move",)] + post, f"holder={m}")

    def fam_container_alive(self):
        self.v = 0
        m, _ = self.holder(glue=True)
        pool = []
        pre = self.filler(self.r.below(3), pool)
        x = self.fresh()
        mid = self.filler(self.r.below(2), pool)
        c, alive = self.invalidator(["reset", "drop", "iter", "move"])
        post = self.filler(self.r.below(2), [], arena=alive, bind=alive)
        core = ("call", x, m, None)
        cn = c[2] if c[0] == "call" else " ".join(c)
        self.add_pair("container-alive-across-invalidation", pre + [core] + mid + [c] + post,
                      pre + [core] + mid + [("drop", x), c] + post, f"holder={m} invalidator={cn}")

    def fam_container_use_after_reset(self):
        self.v = 0
        m, _ = self.holder(glue=True)
        pool = []
        pre = self.filler(self.r.below(2), pool)
        x = self.fresh()
        mid = self.filler(self.r.below(2), pool)
        c, _ = self.invalidator(["reset", "iter"])
        c = ("call", None, c[2], None)
        plain = ("call", None, "Bump#" + self.r.pick(sorted(PLAIN)), None)
        core = ("call", x, m, None)
        self.add_pair("container-use-after-reset", pre + [core] + mid + [c, ("use", x)],
                      pre + [core] + mid + [plain, ("use", x)], f"holder={m} invalidator={c[2]}")

    def fam_alloc_during_iteration(self):
        self.v = 0
        pool = []
        pre = self.filler(self.r.below(3), pool)
        it = self.fresh()
        k = self.r.below(3)
        if k == 0:
            c = ("call", self.fresh(), "Bump#" + self.rot("alloc2", sorted(ALLOC)), None)
        elif k == 1:
            c = ("call", None, "Bump#" + self.rot("plain", sorted(PLAIN)), None)
        else:
            c = ("call", self.fresh(), self.rot("ctor2", sorted(CTOR)), None)
        post = self.filler(self.r.below(2), [])
        core = ("call", it, "Bump#iter_allocated_chunks", None)
        self.add_pair("allocate-during-iteration", pre + [core, c, ("use", it)] + post,
                      pre + [core, ("use", it), c] + post, f"touch={c[2]}")

    def fam_chunk(self):
        self.v = 0
        it, ch = self.fresh(), self.fresh()
        c = ("call", self.fresh(), "Bump#" + self.rot("alloc3", sorted(ALLOC)), None)
        core = [("call", it, "Bump#iter_allocated_chunks", None), ("derive", ch, "ChunkIter#next", it)]
        self.add_pair("chunk-after-allocation", core + [c, ("use", ch)], core + [("use", ch), c], f"touch={c[2]}")

    def fam_derived(self):
        self.v = 0
        d = self.rot("derive", sorted(k for k in DERIVE if k not in ("ChunkIter#next", "vec::IntoIter#as_slice")) + ["vec::IntoIter#as_slice"])
        need, _, tag, glue, byval = DERIVE[d]
        pre_chain = []
        x = self.fresh()
        if need == "intoiter":
            v0 = x
            pre_chain.append(("call", v0, self.r.pick(["Vec#new_in", "Vec#from_iter_in"]), None))
            x = self.fresh()
            pre_chain.append(("derive", x, "Vec#into_iter", v0))
        else:
            ctor = self.r.pick([k for k, v in CTOR.items() if v[1] == need])
            pre_chain.append(("call", x, ctor, None))
        y = self.fresh()
        c, alive = self.invalidator(["reset", "drop", "move", "iter"])
        core = pre_chain + [("derive", y, d, x)]
        cn = c[2] if c[0] == "call" else " ".join(c)
        if not glue and byval and need != "intoiter":
            # x is consumed, y is a plain reference: the twin uses y before the invalidation
            self.add_pair("derived-use-after-invalidation", core + [c, ("use", y)], core + [("use", y), c],
                          f"derive={d} invalidator={cn}")
        else:
            # something with a destructor stays alive: the twin replaces the invalidation by a plain query
            plain = ("call", None, "Bump#" + self.r.pick(sorted(PLAIN)), None)
            self.add_pair("derived-use-after-invalidation", core + [c, ("use", y)], core + [plain, ("use", y)],
                          f"derive={d} invalidator={cn}")

    def fam_return(self):
        self.v = 0
        m, _ = self.holder()
        pool = []
        pre = self.filler(self.r.below(2), pool)
        x = self.fresh()
        self.add_pair("escape-by-return", pre + [("call", x, m, None), ("ret", x)],
                      pre + [("call", x, "Bump#chunk_capacity", None), ("ret", x)], f"holder={m}")

    def fam_many_alive(self):
        self.v = 0
        stmts, pool = [], []
        for _ in range(3 + self.r.below(6)):
            c = self.r.below(4)
            if c <= 1 or not pool:
                m, _ = self.holder()
                x = self.fresh()
                stmts.append(("call", x, m, None))
                pool.append(x)
            elif c == 2:
                stmts.append(("use", self.r.pick(pool)))
            else:
                stmts.append(("call", None, "Bump#" + self.r.pick(sorted(PLAIN)), None))
        x = self.r.pick(pool)
        stmts.append(("use", x))
        bad = stmts[:-1] + [("call", None, "Bump#reset", None), stmts[-1]]
        self.add_pair("many-alive", bad, stmts, "accepted family; the misuse inserts a reset before the last use")

    def fam_idle_move(self):
        self.v = 0
        pool = []
        p1 = []
        for _ in range(2 + self.r.below(4)):
            if self.r.below(2) == 0 or not pool:
                x = self.fresh()
                p1.append(("call", x, "Bump#" + self.rot("alloc4", sorted(ALLOC)), None))
                pool.append(x)
            else:
                p1.append(("use", self.r.pick(pool)))
        pool2 = []
        p2 = []
        for _ in range(1 + self.r.below(4)):
            if self.r.below(2) == 0 or not pool2:
                m, _ = self.holder()
                x = self.fresh()
                p2.append(("call", x, m, None))
                pool2.append(x)
            else:
                p2.append(("use", self.r.pick(pool2)))
        ok = p1 + [("move",)] + p2
        self.add_pair("idle-move", ok + [("use", self.r.pick(pool))], ok,
                      "accepted family; the misuse uses an old reference after the move")

    def fam_outlives_source(self):
        self.v = 0
        pool = []
        pre = self.filler(self.r.below(3), pool)
        s, x = self.fresh(), self.fresh()
        ms = sorted("Bump#" + k for k in ALLOC_SRC) + sorted(CTOR_SRC)
        m = self.rot("srcm", ms)
        core = [("src", s), ("call", x, m, s)]
        ok = pre + core + [("drop", s), ("use", x)]
        glue = m in CTOR_SRC
        bad = pre + core + [("end", "drop"), ("use", x)]
        if glue:
            bad = pre + core + [("call", None, "Bump#reset", None), ("use", x)]
            ok = pre + core + [("drop", s), ("use", x)]
            # two edits would be needed for a drop twin; keep the pair as (misuse: reset before use) / (accepted)
        self.add_pair("outlives-source", bad, ok, f"copier={m}; accepted family; the misuse ends the arena instead of the source")

    # auto-trait probes --------------------------------------------------------------------------------
    def trait_probes(self, thorough):
        P = {(1, 1): "u32", (1, 0): "std::cell::Cell<u32>", (0, 0): "std::rc::Rc<u32>",
             (0, 1): "std::sync::MutexGuard<'static, u32>"}
        types = {
            "Bump": lambda p: "Bump", "ChunkIter": lambda p: "bumpalo::ChunkIter<'a>",
            "ChunkRawIter": lambda p: "bumpalo::ChunkRawIter<'a>", "Box": lambda p: f"Box<'a, {p}>",
            "Vec": lambda p: f"Vec<'a, {p}>", "String": lambda p: "String<'a>",
            "vec::IntoIter": lambda p: f"bumpalo::collections::vec::IntoIter<'a, {p}>",
            "vec::Drain": lambda p: f"bumpalo::collections::vec::Drain<'a, 'a, {p}>",
            "vec::Splice": lambda p: f"bumpalo::collections::vec::Splice<'a, 'a, std::vec::IntoIter<{p}>>",
            "vec::DrainFilter": lambda p: f"bumpalo::collections::vec::DrainFilter<'a, 'a, {p}, fn(&mut {p}) -> bool>",
            "FromUtf8Error": lambda p: "bumpalo::collections::string::FromUtf8Error<'a>",
            "string::Drain": lambda p: "bumpalo::collections::string::Drain<'a, 'a>",
        }
        generic = {"Box", "Vec", "vec::IntoIter", "vec::Drain", "vec::Splice", "vec::DrainFilter"}
        pairs = [(1, 1), (0, 0), (1, 0), (0, 1)] if thorough else [(1, 1), (0, 0)]
        k = 0
        for name in types:
            for pr in (pairs if name in generic else [(1, 1)]):
                if not thorough and name in generic and pr != (1, 1) and name not in ("Box", "vec::IntoIter", "Vec"):
                    continue
                ty = types[name](P[pr])
                pid = []
                for bit, tr in ((0, "Send"), (1, "Sync")):
                    k += 1
                    rust = (PRELUDE + f"fn req<T: ?Sized + {tr}>() {{}}\npub fn probe<'a>() {{ req::<{ty}>(); }}\n")
                    p = Probe(f"t{k}", "auto-trait", "trait", None, rust=rust, model=f"TRAIT t{k} S {name} {pr[0]} {pr[1]}",
                              note=f"{ty}: {tr}", bit=bit)
                    self.probes.append(p)
                    pid.append(p)
                pid[0].twin, pid[1].twin = pid[1].id, pid[0].id
        for kind, ty in (("REF", "&'a Bump"), ("REFMUT", "&'a mut Bump")):
            pid = []
            for bit, tr in ((0, "Send"), (1, "Sync")):
                k += 1
                rust = PRELUDE + f"fn req<T: ?Sized + {tr}>() {{}}\npub fn probe<'a>() {{ req::<{ty}>(); }}\n"
                p = Probe(f"t{k}", "auto-trait", "trait", None, rust=rust, model=f"TRAIT t{k} {kind} Bump", note=f"{ty}: {tr}", bit=bit)
                self.probes.append(p)
                pid.append(p)
            pid[0].twin, pid[1].twin = pid[1].id, pid[0].id

    def thread_probes(self):
        """whole programs that share / send across threads; verdict derives from the auto-trait model"""
        def add(pid, misuse, body, model, bit, note, twin=None):
            rust = PRELUDE + "pub fn probe() {\n" + body + "}\n"
            p = Probe(pid, "threads", "thread", misuse, rust=rust, model=model.replace("ID", pid), note=note, bit=bit, twin=twin)
            self.probes.append(p)
        add("h1m", True, "    let b = Bump::new();\n    std::thread::scope(|s| {\n        s.spawn(|| { touch(b.alloc(1u32)); });\n        touch(b.alloc(2u32));\n    });\n",
            "TRAIT ID REF Bump", 0, "thread/share-ref: two threads allocate from one arena through &Bump", "h1t")
        add("h1t", False, "    let b = Bump::new();\n    std::thread::scope(|s| {\n        s.spawn(move || { let b = b; touch(b.alloc(1u32)); });\n    });\n",
            "TRAIT ID S Bump 1 1", 0, "thread/move-arena: an idle arena moved into another thread", "h1m")
        for al in (2, 8, 16):
            add(f"h8t{al}", False, f"    let b: Bump<{al}> = Bump::with_min_align();\n    touch(b.alloc(1u32));\n    let t = std::thread::spawn(move || {{ let mut b = b; touch(b.alloc(2u64)); b.reset(); }});\n    t.join().unwrap();\n",
                "TRAIT ID S Bump 1 1", 0, f"thread/move-arena-min-align-{al}: an idle Bump<{al}> moved into another thread, used and dropped there", "h1m")
        add("h2m", True, "    let b = std::sync::Arc::new(Bump::new());\n    let b2 = b.clone();\n    let t = std::thread::spawn(move || { touch(b2.alloc(1u32)); });\n    touch(b.alloc(2u32));\n    t.join().unwrap();\n",
            "TRAIT ID S Bump 1 1", 1, "thread/arc-share: Arc<Bump> in two threads needs Bump: Sync", "h2t")
        add("h2t", False, "    let b = std::sync::Arc::new(std::sync::Mutex::new(Bump::new()));\n    let b2 = b.clone();\n    let t = std::thread::spawn(move || { touch(b2.lock().unwrap().alloc(1u32)); });\n    touch(b.lock().unwrap().alloc(2u32));\n    t.join().unwrap();\n",
            "TRAIT ID S Bump 1 1", 0, "thread/mutex-share: Arc<Mutex<Bump>> needs only Bump: Send", "h2m")
        add("h3m", True, "    let b = Bump::new();\n    let mut v = Vec::<u32>::new_in(&b);\n    std::thread::scope(|s| {\n        s.spawn(move || { let mut v = v; v.push(1); });\n        touch(b.alloc(2u32));\n    });\n",
            "TRAIT ID S Vec 1 1", 0, "thread/send-vec: a Vec pushed to on another thread while this one allocates", "h3t")
        add("h3t", False, "    let b = Bump::new();\n    let mut x = Box::new_in(7u32, &b);\n    std::thread::scope(|s| {\n        s.spawn(move || { let mut x = x; *x += 1; });\n        touch(b.alloc(2u32));\n    });\n",
            "TRAIT ID S Box 1 1", 0, "thread/send-box: a Box<u32> (exclusive pointer into the arena) sent to another thread", "h3m")
        add("h4m", True, "    let b = Bump::new();\n    let mut s0 = String::from_str_in(\"hi\", &b);\n    std::thread::scope(|s| {\n        s.spawn(move || { let mut s0 = s0; s0.push('x'); });\n        touch(b.alloc(2u32));\n    });\n",
            "TRAIT ID S String 1 1", 0, "thread/send-string: a String grown on another thread while this one allocates", "h3t")
        add("h5m", True, "    let b = Bump::new();\n    let mut v = Vec::<u64>::new_in(&b);\n    v.extend([1u64, 2, 3]);\n    let src: std::vec::Vec<u64> = (0..64).collect();\n    let sp = v.splice(1..2, src.into_iter());\n    std::thread::scope(|s| {\n        s.spawn(move || { drop(sp); });   // Splice::drop -> Vec::extend / reserve: allocates from `b` on that thread\n        for i in 0..64u64 { touch(b.alloc(i)); }   // this thread allocates from `b` at the same time\n    });\n",
            "TRAIT ID S vec::Splice 1 1", 0, "thread/splice-send: a Splice dropped on another thread allocates from the shared arena", "h3t")
        # sharing a container by reference hands the other thread the arena itself (`bump()`): must need `Sync`
        add("h6m", True, "    let b = Bump::new();\n    let v = Vec::<u32>::new_in(&b);\n    std::thread::scope(|s| {\n        s.spawn(|| { touch(v.bump().alloc(1u32)); });\n        touch(b.alloc(2u32));\n    });\n",
            "TRAIT ID S Vec 1 1", 1, "thread/share-vec: &Vec in another thread reaches the arena through Vec::bump", "h6t")
        add("h6t", False, "    let b = Bump::new();\n    let x = Box::new_in(7u32, &b);\n    std::thread::scope(|s| {\n        s.spawn(|| { touch(&*x); });\n        touch(b.alloc(2u32));\n    });\n",
            "TRAIT ID S Box 1 1", 1, "thread/share-box: &Box<u32> read on another thread (a Box holds no arena reference)", "h6m")
        # the error of `String::from_utf8` carries the rejected *arena-backed* byte vector: handing it to another thread hands that
        # thread the arena (`into_bytes().push(..)` grows it there); sharing it by reference reaches `Vec::bump` through `as_bytes`' owner
        add("h9m", True, "    let b = Bump::new();\n    let mut v = Vec::<u8>::new_in(&b);\n    v.extend([0xffu8, 0x41]);\n    let e = String::from_utf8(v).unwrap_err();\n    std::thread::scope(|s| {\n        s.spawn(move || { let mut bytes = e.into_bytes(); for i in 0..64u8 { bytes.push(i); } });\n        for i in 0..64u64 { touch(b.alloc(i)); }\n    });\n",
            "TRAIT ID S FromUtf8Error 1 1", 0, "thread/send-utf8-error: a FromUtf8Error taken apart on another thread grows its arena-backed Vec there", "h3t")
        add("h7m", True, "    let b = Bump::new();\n    let s0 = String::from_str_in(\"hi\", &b);\n    std::thread::scope(|s| {\n        s.spawn(|| { touch(s0.bump().alloc(1u32)); });\n        touch(b.alloc(2u32));\n    });\n",
            "TRAIT ID S String 1 1", 1, "thread/share-string: &String in another thread reaches the arena through String::bump", "h6t")


def generate(seed, tier):
    g = Gen(seed)
    fams = [g.fam_use_after_reset, g.fam_use_after_drop, g.fam_move_while_borrowed, g.fam_container_alive,
            g.fam_container_use_after_reset, g.fam_alloc_during_iteration, g.fam_chunk, g.fam_derived, g.fam_return,
            g.fam_many_alive, g.fam_idle_move, g.fam_outlives_source]
    weights = [5, 6, 3, 6, 3, 4, 2, 8, 3, 3, 3, 4] if tier == "quick" else [55, 60, 30, 60, 40, 45, 24, 110, 30, 35, 30, 40]
    for f, w in zip(fams, weights):
        for _ in range(w):
            f()
    for p in g.probes:
        p.model = model_line(p.id, p.stmts)
        p.rust = render(p.stmts)
    g.trait_probes(tier == "thorough")
    g.thread_probes()
    return g.probes


# --------------------------------------------------------------------------------------------------
# build + compile + evaluate
# --------------------------------------------------------------------------------------------------
def build_rlib(ctx):
    """cargo-build harness_borrow against the working tree -> (rlib path, deps dir) or (None, error text)"""
    crate = HB
    if common.REPO != "/repo":   # scratch run against a modified worktree: private copy of the crate
        tag = hashlib.md5(common.REPO.encode()).hexdigest()[:8]
        crate = os.path.join(WORK, f"hmut_{tag}")
        os.makedirs(os.path.join(crate, ".cargo"), exist_ok=True)
        os.makedirs(os.path.join(crate, "src"), exist_ok=True)
        shutil.copy(os.path.join(HB, "src", "lib.rs"), os.path.join(crate, "src", "lib.rs"))
        shutil.copy(os.path.join(HB, "Cargo.lock"), os.path.join(crate, "Cargo.lock"))
        open(os.path.join(crate, "Cargo.toml"), "w").write(
            open(os.path.join(HB, "Cargo.toml")).read().replace('path = "/repo"', f'path = "{common.REPO}"'))
        open(os.path.join(crate, ".cargo", "config.toml"), "w").write(
            open(os.path.join(HB, ".cargo", "config.toml")).read().replace("/verif/work/borrow/target", os.path.join(crate, "target")))
    with common.Lock("cargo_borrow"):
        t = time.time()
        rc, txt = common.sh("cargo build --offline --message-format=json", cwd=crate, timeout=1800)
        ctx.log(f"cargo build (harness_borrow against {common.REPO}): rc={rc} in {time.time() - t:.1f}s")
        if rc != 0:
            msgs = []
            for line in txt.split("\n"):
                try:
                    j = json.loads(line)
                    if j.get("reason") == "compiler-message" and j["message"].get("level") == "error":
                        msgs.append(j["message"].get("rendered", "")[:400])
                except Exception:
                    if line.strip() and not line.startswith("{"):
                        msgs.append(line[:300])
            return None, "\n".join(msgs)[-1500:]
        rlib = None
        for line in txt.split("\n"):
            try:
                j = json.loads(line)
            except Exception:
                continue
            if j.get("reason") == "compiler-artifact" and j.get("target", {}).get("name") == "bumpalo":
                for f in j.get("filenames", []):
                    if f.endswith(".rlib"):
                        rlib = f
        if rlib is None:
            return None, "cargo did not report the bumpalo rlib"
        return rlib, os.path.dirname(rlib)


def compile_one(args):
    path, rlib, deps = args
    out = path[:-3] + ".rmeta"
    cmd = ["rustc", "--edition", "2021", "--crate-type", "lib", "--emit=metadata", "-L", f"dependency={deps}",
           "--extern", f"bumpalo={rlib}", "--error-format=short", "-o", out, path]
    try:
        p = subprocess.run(cmd, stdout=subprocess.PIPE, stderr=subprocess.STDOUT, timeout=120)
        txt = p.stdout.decode("utf-8", "replace")
        rc = p.returncode
    except subprocess.TimeoutExpired:
        txt, rc = "timeout", -1
    codes = sorted(set(re.findall(r"error\[(E\d+)\]", txt)))
    if rc != 0 and not codes:
        codes = ["E????"]
    return rc == 0, codes, txt[-800:], " ".join(cmd)


def evaluate_model(ctx, probes, workdir):
    """model verdicts through the Lean evaluator"""
    inp = os.path.join(workdir, "model_in.txt")
    with open(inp, "w") as f:
        f.write("TABLE\n")
        for p in probes:
            f.write(p.model + "\n")
    with common.Lock("lean"):
        t = time.time()
        # the evaluator imports the compiled table: make sure it is the one generated from the current source
        rc, txt = common.sh("lake build BumpVerif.Gen.Api BumpVerif.Model.Borrow", cwd=LEAN_DIR, timeout=1200)
        if rc != 0:
            return None, "lake build BumpVerif.Gen.Api BumpVerif.Model.Borrow failed: " + txt[-600:]
        with open(inp, "rb") as fh:
            rc, txt = common.sh(["lake", "env", "lean", "--run", "Driver/BorrowMain.lean"], cwd=LEAN_DIR, timeout=1200, stdin=fh)
        ctx.log(f"model evaluator (lean --run Driver/BorrowMain.lean, {len(probes)} probes): rc={rc} in {time.time() - t:.1f}s")
    open(os.path.join(workdir, "model_out.txt"), "w").write(txt)
    if rc != 0:
        return None, txt[-800:]
    table = {"good": None, "structs": {}}
    res = {}
    for line in txt.split("\n"):
        tk = line.split()
        if not tk:
            continue
        if tk[0] == "GOOD":
            table["good"] = tk[1] == "true"
        elif tk[0] == "STRUCT":
            table["structs"][tk[1]] = dict(x.split("=") for x in tk[2:])
        elif tk[0] == "PROG" and len(tk) >= 3:
            res[tk[1]] = (tk[2], tk[3] if len(tk) > 3 else None)
        elif tk[0] == "TRAIT" and len(tk) >= 4:
            res[tk[1]] = ("bits", dict(x.split("=") for x in tk[2:]))
        elif tk[0] == "TRAIT":
            res[tk[1]] = ("parse-error", None)
    return (table, res), ""


def run_probes(ctx, seed, tier, tag="main"):
    workdir = os.path.join(ctx.workdir, f"probes_{tag}")
    shutil.rmtree(workdir, ignore_errors=True)
    os.makedirs(workdir, exist_ok=True)
    rlib, deps = build_rlib(ctx)
    if rlib is None:
        return {"infra_error": "the crate does not build (harness_borrow): " + deps, "oracle_fails": [], "diffs": []}
    probes = generate(seed, tier)
    for p in probes:
        p.path = os.path.join(workdir, p.id + ".rs")
        open(p.path, "w").write(f"// C05 probe {p.id} family={p.family} misuse={p.misuse} {p.note}\n// model: {p.model}\n" + p.rust)
    t = time.time()
    with ThreadPoolExecutor(max_workers=16) as ex:
        outs = list(ex.map(compile_one, [(p.path, rlib, deps) for p in probes]))
    ctx.log(f"rustc: {len(probes)} probes in {time.time() - t:.1f}s")
    for p, o in zip(probes, outs):
        p.rustc = o
    ev, err = evaluate_model(ctx, probes, workdir)
    if ev is None:
        return {"infra_error": "the Lean evaluator failed: " + err, "oracle_fails": [], "diffs": []}
    table, res = ev
    return judge(ctx, probes, table, res, rlib)


def judge(ctx, probes, table, res, rlib):
    fails, diffs, hist, samples = [], [], {}, []
    agree, distinct = 0, set()
    for p in probes:
        ok, codes, txt, cmd = p.rustc
        mv = res.get(p.id)
        if mv is None or mv[0] in ("parse-error", "unknown-struct"):
            diffs.append({"text": f"probe {p.id} ({p.family}): the model evaluator could not read `{p.model}`", "probe": p.id, "path": p.path})
            continue
        if mv[0] == "bits":
            bit = mv[1]["send" if p.bit == 0 else "sync"] == "1"
            m_accept, m_code = bit, (None if bit else "E0277")
        else:
            m_accept, m_code = mv[0] == "accept", mv[1]
        p.mv = ("accept" if m_accept else "reject", m_code)
        rv = "accept" if ok else "reject:" + "+".join(codes)
        key = f"{p.family}|rustc={rv}|model={p.mv[0]}{':' + m_code if m_code else ''}"
        hist[key] = hist.get(key, 0) + 1
        distinct.add(hashlib.md5(re.sub(r"^\S+ \S+ ", "", p.model).encode()).hexdigest()[:12] if p.kind == "prog" else p.note)
        detail = (f"probe={p.family}/{p.note} id={p.id} rustc={rv} model={p.mv[0]}{':' + m_code if m_code else ''} "
                  f"file={p.path}")
        same = (ok == m_accept) and (ok or codes == [m_code])
        if same:
            agree += 1
        # the property itself, judged on the compiler's verdict alone
        if p.misuse is True and ok:
            fails.append({"prop": "C05", "name": "accepts-misuse", "detail": detail, "plan": None, "op": None,
                          "trace": p.path, "probe": p.id, "cmd": cmd})
        elif p.misuse is False and not ok and set(codes) <= BORROW_CODES:
            fails.append({"prop": "C05", "name": "rejects-ordinary-pattern", "detail": detail + " :: " + txt.strip().split("\n")[0][:200],
                          "plan": None, "op": None, "trace": p.path, "probe": p.id, "cmd": cmd})
        elif not same:
            first = txt.strip().split("\n")[0][:200] if txt.strip() else ""
            diffs.append({"text": f"model vs rustc: {detail} :: {first}", "probe": p.id, "path": p.path})
        elif p.misuse is True and m_accept:
            diffs.append({"text": f"the model accepts a misuse program: {detail}", "probe": p.id, "path": p.path})
        if len(samples) < 4 and p.kind == "prog" and p.id.endswith("m") and p.family not in [s["family"] for s in samples]:
            samples.append({"family": p.family, "id": p.id, "model": p.model, "misuse": p.misuse,
                            "rustc": rv, "model_verdict": p.mv, "rust": p.rust.split("pub fn probe")[1][:600]})
    if table["good"] is False:
        diffs.append({"text": "goodSigs Gen.Api.table = false (evaluated): the generated signatures do not satisfy GoodSigs", "probe": None, "path": None})
    fams = sorted({p.family for p in probes})
    return {
        "oracle_fails": fails, "diffs": diffs, "evaluations": len(probes), "traces": agree,
        "distinct_nontrivial": len(distinct), "histogram": dict(sorted(hist.items())), "samples": samples,
        "rule": "cases = generated client programs (model language of Model/Borrow.lean rendered as Rust, plus auto-trait and thread "
                "probes), each compiled by rustc against the rlib built from the working tree and evaluated by the Lean model on "
                "the generated API table; distinct = distinct statement sequences / (type, trait) pairs; every case is non-trivial: "
                "it contains at least one value obtained from the arena or one auto-trait obligation on an arena type",
        "probes": probes,
        "extra": {"programs": len(probes), "families": fams, "rlib": rlib, "model_table": table,
                  "pairs": len([p for p in probes if p.misuse is True]),
                  "probe_agreement": f"{agree}/{len(probes)} probes: rustc verdict and error-code class equal the model's"},
    }


# --------------------------------------------------------------------------------------------------
# family interface
# --------------------------------------------------------------------------------------------------
def run(ctx, seed_shift=0, tier=None):
    seed = (ctx.seed * 1000003 + seed_shift * 7919) & MASK
    out = run_probes(ctx, seed, tier or ctx.tier, tag=f"s{seed_shift}")
    # support for the auto-trait clause: a program that moves every `Send` value type of the crate to another thread
    # while the owner keeps allocating is *accepted* by rustc; under Miri it must be race-free (it is exactly when those
    # values never reach the arena from their destructors)
    try:
        from families import threads as T
        t = time.time()
        nseeds = 4 if (tier or ctx.tier) == "thorough" else 1
        fails, runs = T.run_miri(ctx, "send", [seed % 1000 + i for i in range(nseeds)])
        for f in fails:
            f["prop"] = "C05"
            f["name"] = "miri-data-race-in-accepted-program"
        out["oracle_fails"] = out.get("oracle_fails", []) + fails
        out.setdefault("extra", {})["miri_runs"] = runs
        ctx.log(f"miri send-mode runs in {time.time() - t:.1f}s: {runs}")
    except Exception as e:  # Miri is support, not the deciding method
        ctx.log(f"miri send-mode skipped: {e}")
    return out


def search(ctx, run_, proof):
    """an obligation broke or model and compiler disagree, and no probe of the run is a failing input:
    generate the thorough set under other seeds and look for a misuse that compiles"""
    for shift in (1, 2):
        r = run(ctx, seed_shift=shift, tier="thorough")
        mine = [f for f in r.get("oracle_fails", []) if f["prop"] == ctx.prop and not common.match_known(ctx.prop, f)]
        if mine:
            f = dict(mine[0])
            f["run"] = r
            return f
    return None


def make_replay(ctx, fail, run_):
    src = open(fail["trace"]).read() if fail.get("trace") and os.path.exists(fail["trace"]) else ""
    what = ("compiles although it is a misuse" if fail["name"] == "accepts-misuse" else "is rejected although it is an ordinary pattern")
    return (f"// property C05: oracle {fail['prop']}/{fail['name']}: this client program {what}\n"
            f"// {fail['detail']}\n// compile: {fail.get('cmd', '')}\n"
            f"// replay: ./check C05 --replay <this file>\n" + src)


def diff_context(ctx, d, run_):
    if d.get("path") and os.path.exists(d["path"]):
        return "# first disagreeing probe:\n" + "".join("# " + l for l in open(d["path"]).read().splitlines(True))
    return ""


def replay(ctx, path):
    """recompile a stored probe against the current working tree; 1 when it still violates the property"""
    rlib, deps = build_rlib(ctx)
    if rlib is None:
        print("the crate does not build:", deps)
        return 2
    src = open(path).read()
    m = re.search(r"oracle C05/(\S+?):", src)
    name = m.group(1) if m else "accepts-misuse"
    tmp = os.path.join(ctx.workdir, "replay_probe.rs")
    os.makedirs(ctx.workdir, exist_ok=True)
    open(tmp, "w").write(src)
    ok, codes, txt, cmd = compile_one((tmp, rlib, deps))
    print(cmd)
    print(f"rustc: {'accepted' if ok else 'rejected ' + '+'.join(codes)}")
    bad = ok if name == "accepts-misuse" else (not ok)
    if bad:
        print(f"VIOLATION property={ctx.prop} replay={path}")
    return 1 if bad else 0


if __name__ == "__main__":
    # stand-alone run (scratch validation): python3 tools/families/borrow.py [quick|thorough] [seed]
    import specs
    tier = sys.argv[1] if len(sys.argv) > 1 else "quick"
    seed = int(sys.argv[2]) if len(sys.argv) > 2 else 1
    c = common.Ctx("C05", tier, seed, specs.SPECS.get("C05", {}))
    c.workdir = os.path.join(WORK, "standalone")
    os.makedirs(c.workdir, exist_ok=True)
    r = run(c)
    print(json.dumps({k: r.get(k) for k in ("evaluations", "traces", "distinct_nontrivial", "histogram", "infra_error")}, indent=1))
    for f in r.get("oracle_fails", []):
        print("ORACLE", f["prop"], f["name"], f["detail"])
    for d in r.get("diffs", []):
        print("DIFF", d["text"])
