"""`str` family: runs the Rust harness `bvh_str` (harness_str/, bumpalo::collections::String side
by side with std::string::String, and the three decoders side by side with std's) against
/repo's working tree, pipes every trace through the compiled Lean model (`bvdrv_str`), collects
the oracle failures and the model-vs-implementation disagreements."""
import os, re, glob, json, subprocess, time, hashlib, sys
from concurrent.futures import ThreadPoolExecutor
import common

ROOT = common.ROOT
HARNESS = os.path.join(ROOT, "harness_str")
ORACLE_RE = re.compile(r"^ORACLE (\S+) (\S+) (.*)$")
DIFF_RE = re.compile(r"^DIFF plan=(\d+) line=(\d+) op=(\S+) field=(\S+) model=(.*) impl=(.*)$")

# (profile, plans, ops per plan) of the quick tier; thorough multiplies the plan counts
STR_JOBS = [("general", 160, 50), ("index", 100, 50), ("range", 110, 50), ("retain", 100, 50), ("build", 60, 50), ("sweep", 10, 0)]


# --------------------------------------------------------------------------------------
# builds
# --------------------------------------------------------------------------------------

def regenerate(ctx):
    """Gen/Utf8Table.lean from /repo/src (tools/extract_str.py).  -> (info dict, error or None)"""
    sys.path.insert(0, os.path.join(ROOT, "tools"))
    import extract_str
    out = os.path.join(common.LEAN, "BumpVerif", "Gen")
    try:
        with common.Lock("lean"):
            return extract_str.run(common.REPO, out, extract_str._write_if_changed), None
    except (extract_str.ExtractError, OSError) as e:
        return {}, str(e)


def build_harness(ctx, release=False):
    global HARNESS
    HARNESS = common.harness_dir("harness_str")   # shadow copy when BV_REPO points at a scratch worktree
    with common.Lock("cargo_str"):
        if not os.path.exists(os.path.join(HARNESS, "Cargo.lock")):
            common.sh("cp /repo/Cargo.lock .", cwd=HARNESS)
        t = time.time()
        cmd = "cargo build --offline" + (" --release" if release else "")
        rc, txt = common.sh(cmd, cwd=HARNESS, timeout=3000)
        ctx.log(f"harness_str {cmd}: rc={rc} in {time.time() - t:.1f}s")
        if rc != 0:
            return None, txt[-2000:]
    return os.path.join(HARNESS, "target", "release" if release else "debug", "bvh_str"), ""


def build_driver(ctx):
    with common.Lock("lean"):
        rc, txt = common.sh("lake build bvdrv_str", cwd=common.LEAN, timeout=3000)
        if rc != 0:
            return None, txt[-1500:]
    return os.path.join(common.LEAN, ".lake", "build", "bin", "bvdrv_str"), ""


# --------------------------------------------------------------------------------------
# one harness process + one driver process
# --------------------------------------------------------------------------------------

def parse_trace(path):
    """-> plans {idx: {header, ops, lines}}, oracle fails, summary dict"""
    plans, cur, fails, summary = {}, None, [], {}
    if not os.path.exists(path):
        return plans, fails, summary
    for raw in open(path, errors="replace"):
        line = raw.rstrip("\n")
        if line.startswith("PLAN "):
            m = re.search(r"idx=(\d+)", line)
            cur = {"header": line, "ops": [], "lines": []}
            plans[int(m.group(1)) if m else len(plans)] = cur
        elif line.startswith("ORACLE "):
            m = ORACLE_RE.match(line)
            if m:
                pm = re.search(r"plan=(\d+) op=(\d+)", m.group(3))
                fails.append({"prop": m.group(1), "name": m.group(2), "detail": m.group(3),
                              "plan": int(pm.group(1)) if pm else None, "op": int(pm.group(2)) if pm else None,
                              "trace": path})
        elif line.startswith("SUMMARY"):
            for k in ("plans", "ops", "checked", "oracle_fails"):
                m = re.search(rf"\b{k}=(\d+)", line)
                if m:
                    summary[k] = int(m.group(1))
        elif line.startswith("END") or line.startswith("#") or not line.strip():
            continue
        elif cur is not None:
            cur["ops"].append(line.split(" | ")[0])
            cur["lines"].append(line)
    return plans, fails, summary


def run_one(ctx, bvh, drv, args, tag):
    trace = os.path.join(ctx.workdir, f"trace_{tag}.txt")
    cur = os.path.join(ctx.workdir, f"cur_{tag}.plan")
    for p in (trace, cur):
        if os.path.exists(p):
            os.remove(p)
    cmd = [bvh] + args + [f"out={trace}", f"curplan={cur}"]
    try:
        p = subprocess.run(cmd, stdout=subprocess.PIPE, stderr=subprocess.PIPE, timeout=ctx.spec.get("timeout", 900))
        rc, err = p.returncode, p.stderr.decode("utf-8", "replace")[-600:]
    except subprocess.TimeoutExpired:
        rc, err = -999, "timeout"
    plans, fails, summary = parse_trace(trace)
    res = {"trace": trace, "rc": rc, "plans": plans, "fails": fails, "diffs": [], "stderr": err, "cmd": " ".join(cmd),
           "driver_tail": "", "summary": summary}
    if rc != 0:
        # crash / abort / hang: the plan written so far is the failing input
        plan_text = open(cur).read() if os.path.exists(cur) else ""
        name = "does-not-terminate" if rc == -999 else "crash"
        last = err.strip().splitlines()[-1] if err.strip() else ""
        res["fails"].append({"prop": ctx.spec.get("oracle_prop", ctx.prop), "name": name, "detail": f"harness exit={rc} {last}",
                             "plan": None, "op": None, "trace": trace, "plan_text": plan_text})
    if drv and os.path.exists(trace):
        with open(trace, "rb") as fh:
            try:
                d = subprocess.run([drv], stdin=fh, stdout=subprocess.PIPE, stderr=subprocess.PIPE, timeout=900)
                out = d.stdout.decode("utf-8", "replace")
                if d.returncode != 0:
                    out += f"\nDIFF plan=0 line=0 op=driver field=parse model=driver-exit-{d.returncode} impl=-"
            except subprocess.TimeoutExpired:
                out = "DIFF plan=0 line=0 op=driver field=parse model=driver-timeout impl=-"
        for line in out.split("\n"):
            m = DIFF_RE.match(line)
            if m:
                res["diffs"].append({"plan": int(m.group(1)), "line": int(m.group(2)), "op": m.group(3), "field": m.group(4),
                                     "model": m.group(5), "impl": m.group(6), "text": line, "trace": trace})
            elif line.startswith("DRIVER"):
                res["driver_tail"] = line
    return res


def project(ctx, diffs):
    fields = set(ctx.spec.get("fields", []))
    ops = ctx.spec.get("ops")
    out = []
    for d in diffs:
        if fields and d["field"] not in fields and d["field"] != "parse":
            continue
        if ops and d["op"] not in ops and d["op"] != "driver":
            continue
        out.append(d)
    return out


# --------------------------------------------------------------------------------------
# job list
# --------------------------------------------------------------------------------------

def jobs_for(ctx, mult=1, seed_shift=0):
    spec = ctx.spec
    thorough = ctx.tier == "thorough"
    scale = (spec.get("thorough_scale", 20) if thorough else 1) * mult
    jobs, k = [], 0

    def seed():
        return (ctx.seed * 1000003 + seed_shift * 7919 + k * 101) % (2 ** 62)

    for (prof, plans, ops) in spec.get("str_jobs", STR_JOBS):
        total = plans * scale
        per = max(1, min(total, max(40, total // 12)))
        n = 0
        while n < total:
            cnt = min(per, total - n)
            jobs.append((["str", f"seed={seed()}", f"plans={cnt}", f"ops={ops}", f"profile={prof}"], f"{prof}_{k}"))
            n += cnt
            k += 1
    if spec.get("decoders", True):
        parts = 16
        for i in range(parts):   # every byte string of length <= 3 against std (in-process comparison)
            jobs.append((["lossy", "mode=exh", "maxlen=3", f"part={i}/{parts}", f"seed={seed()}"], f"exh_{i}"))
            k += 1
        jobs.append((["lossy", "mode=short", f"seed={seed()}"], "short")); k += 1
        jobs.append((["lossy", "mode=glue", f"seed={seed()}"], "glue")); k += 1
        jobs.append((["lossy", "mode=alpha", f"maxlen={4 if thorough else 3}", f"seed={seed()}"], "alpha")); k += 1
        for j in range(4 if thorough else 1):
            jobs.append((["lossy", "mode=struct", f"n={50000 * mult if thorough else 4000 * mult}", f"seed={seed()}"], f"struct_{j}")); k += 1
        jobs.append((["lossy", "mode=utf16", f"maxlen={5 if thorough else 4}", f"n={20000 if thorough else 3000}", f"seed={seed()}"], "utf16")); k += 1
    return jobs


def run(ctx, mult=1, seed_shift=0, corpus=True, release=False):
    info, xerr = regenerate(ctx)
    pre_diffs = []
    if xerr:
        pre_diffs.append({"text": f"extract_str: cannot read the UTF-8 width table / range arithmetic from /repo/src: {xerr}",
                          "plan": 0, "line": 0, "op": "extract", "field": "parse", "trace": ""})
    elif info.get("utf8_table_changed") and ctx.spec.get("lean_module"):
        # the generated table changed after the proof obligations were checked: re-check them now
        with common.Lock("lean"):
            rc, txt = common.sh(f"lake build {ctx.spec['lean_module']}", cwd=common.LEAN, timeout=3000)
        if rc != 0:
            errs = re.findall(r"error: ([^\n]*\.lean:\d+:\d+): ([^\n]*)", txt)
            pre_diffs.append({"text": "obligations no longer check against the regenerated Gen/Utf8Table.lean: "
                              + "; ".join(f"{common.theorem_at(l)}: {m}" for l, m in errs[:3]),
                              "plan": 0, "line": 0, "op": "extract", "field": "parse", "trace": ""})
    bvh, err = build_harness(ctx)
    if bvh is None:
        return {"infra_error": "harness_str does not build against /repo: " + err[-800:], "oracle_fails": [], "diffs": pre_diffs}
    drv, err = build_driver(ctx)
    if drv is None:
        return {"infra_error": "bvdrv_str does not build: " + err[-800:], "oracle_fails": [], "diffs": pre_diffs}
    bins = [("dev", bvh)]
    if ctx.tier == "thorough" or release:
        rel, err = build_harness(ctx, release=True)
        if rel:
            bins.append(("rel", rel))
    jobs = []
    if corpus:
        for i, f in enumerate(sorted(glob.glob(os.path.join(ROOT, "corpus", "str", "*.plan")))):
            for name, b in bins:
                jobs.append((b, ["replay", f], f"{name}_corpus{i}"))
    for name, b in bins:
        for args, tag in jobs_for(ctx, mult, seed_shift):
            if name == "rel" and args[0] == "lossy" and args[1] == "mode=exh":
                continue
            jobs.append((b, args, f"{name}_{tag}"))
    t = time.time()
    with ThreadPoolExecutor(max_workers=14) as ex:
        results = list(ex.map(lambda j: run_one(ctx, j[0], drv, j[1], j[2]), jobs))
    ctx.log(f"{len(jobs)} harness+driver jobs in {time.time() - t:.1f}s")
    out = summarize(ctx, results)
    out["diffs"] = pre_diffs + out["diffs"]
    out["extra"]["extract_str"] = info
    return out


def summarize(ctx, results):
    fails, diffs, hist, samples = [], [], {}, []
    evaluations, traces, checked = 0, 0, 0
    distinct = set()
    relevant = set(ctx.spec.get("nontrivial_ops", []))
    alias = ctx.spec.get("oracle_prop")
    for r in results:
        for f in r["fails"]:
            # the String part of C16: oracle lines are labelled C16; stand-alone runs (./check C16S) re-label them
            if alias and f["prop"] in (alias, alias + "S") and ctx.prop in (alias, alias + "S") and f["prop"] != ctx.prop:
                f = dict(f)
                f["prop"] = ctx.prop
            fails.append(f)
        diffs += project(ctx, r["diffs"])
        checked += r["summary"].get("checked", 0)
        for idx, p in r["plans"].items():
            traces += 1
            for line in p["lines"]:
                evaluations += 1
                op = line.split(" ", 1)[0]
                m = re.search(r"\| RES ([^ :=|]+)", line)
                kind = f"{op}:{m.group(1) if m else '?'}"
                hist[kind] = hist.get(kind, 0) + 1
                if not relevant or op in relevant:
                    distinct.add(hashlib.md5((line.split(" | OBS")[0]).encode()).hexdigest()[:12])
            if len(samples) < 3 and p["lines"] and "dec-" not in p["header"]:
                samples.append({"plan": p["header"], "first_ops": [l[:200] for l in p["lines"][:6]]})
    return {
        "oracle_fails": fails, "diffs": diffs, "evaluations": evaluations + checked, "traces": traces,
        "distinct_nontrivial": len(distinct), "histogram": dict(sorted(hist.items())), "samples": samples,
        "rule": "cases = operations executed on bumpalo::collections::String and std::string::String side by side inside generated plans "
                "(one splitmix64 stream per plan; every trace line also recomputed by the Lean model) + decoder inputs compared with std in-process "
                f"(all byte strings of length <= 3: {checked} comparisons without trace lines); distinct = distinct (operation text, result) pairs; "
                "non-trivial = operation kinds relevant to this property: " + (",".join(sorted(relevant)) if relevant else "all"),
        "results": results,
        "extra": {"jobs": len(results), "nonzero_exits": [r["cmd"] for r in results if r["rc"] != 0][:5],
                  "fields_compared": ctx.spec.get("fields", []), "driver": [r["driver_tail"][:160] for r in results[:3]],
                  "std_comparisons_without_trace_line": checked, "model_recomputed_lines": evaluations},
    }


# --------------------------------------------------------------------------------------
# replays, shrinking, search
# --------------------------------------------------------------------------------------

def plan_text_for(fail, run):
    if fail.get("plan_text"):
        return fail["plan_text"]
    for r in run.get("results", []):
        if r["trace"] == fail.get("trace") and fail.get("plan") in r["plans"]:
            p = r["plans"][fail["plan"]]
            upto = (fail["op"] + 1) if fail.get("op") is not None else len(p["ops"])
            return p["header"] + "\n" + "\n".join(p["ops"][:upto]) + "\n"
    return ""


def harness_for(fail):
    rel = "profile=release" in (fail.get("detail") or "")
    return os.path.join(HARNESS, "target", "release" if rel else "debug", "bvh_str")


def still_fails(ctx, bvh, plan_text, fail, tag="shrink"):
    path = os.path.join(ctx.workdir, f"{tag}.plan")
    open(path, "w").write(plan_text)
    out = os.path.join(ctx.workdir, f"{tag}.trace")
    try:
        p = subprocess.run([bvh, "replay", path, f"out={out}"], stdout=subprocess.PIPE, stderr=subprocess.PIPE, timeout=60)
        rc = p.returncode
    except subprocess.TimeoutExpired:
        rc = -999
    if fail["name"] == "does-not-terminate":
        return rc == -999
    if fail["name"] == "crash":
        return rc not in (0, -999)
    _, fails, _ = parse_trace(out)
    return any(f["name"] == fail["name"] for f in fails)


def shrink(ctx, plan_text, fail):
    """keep the failing (last) operation, drop earlier ones greedily, then try to replace the
    whole prefix by a single `s_from_str` of the text the failing operation started from"""
    bvh = harness_for(fail)
    lines = [l for l in plan_text.split("\n") if l.strip() and not l.startswith("#")]
    if len(lines) < 2 or not os.path.exists(bvh) or not still_fails(ctx, bvh, plan_text, fail):
        return plan_text, False
    header, ops = lines[0], lines[1:]
    m = re.search(r"before=([0-9a-f-]+)", fail.get("detail") or "")
    if m and len(ops) > 2:
        cand = [f"s_from_str t={m.group(1)}", ops[-1]]
        if still_fails(ctx, bvh, header + "\n" + "\n".join(cand) + "\n", fail):
            return header + "\n" + "\n".join(cand) + "\n", True
    budget, changed = 150, True
    while changed and budget > 0:
        changed = False
        i = len(ops) - 2
        while i >= 0 and budget > 0:
            cand = ops[:i] + ops[i + 1:]
            budget -= 1
            if still_fails(ctx, bvh, header + "\n" + "\n".join(cand) + "\n", fail):
                ops, changed = cand, True
            i -= 1
    return header + "\n" + "\n".join(ops) + "\n", True


def make_replay(ctx, fail, run):
    text = plan_text_for(fail, run)
    confirmed = False
    if text:
        try:
            text, confirmed = shrink(ctx, text, fail)
        except Exception as e:  # shrinking is best effort
            text += f"# shrink failed: {e}\n"
    head = (f"# property {ctx.prop}: oracle {fail['prop']}/{fail['name']} failed on the real crate (bumpalo::collections::String vs std)\n"
            f"# {fail['detail']}\n# replay: ./check {ctx.prop} --replay <this file>   (reproduced on replay: {confirmed})\n")
    return head + text


def diff_context(ctx, d, run):
    for r in run.get("results", []):
        if r["trace"] == d.get("trace") and d.get("plan") in r["plans"]:
            p = r["plans"][d["plan"]]
            return "# first diverging plan (model vs implementation):\n" + p["header"] + "\n" + "\n".join(p["ops"][:400]) + "\n"
    return ""


def search(ctx, run, proof):
    """more seeds, same generators, both build profiles (overflow checks / debug assertions on and
    off: F7-like defects only show in release), looking for an oracle failure of this property"""
    for shift in range(1, 4):
        r = globals()["run"](ctx, mult=3, seed_shift=shift, corpus=True, release=True)
        mine = [f for f in r.get("oracle_fails", []) if f["prop"] == ctx.prop and not common.match_known(ctx.prop, f)]
        if mine:
            f = dict(mine[0])
            f["run"] = r
            return f
    return None


def replay(ctx, path):
    regenerate(ctx)
    text = open(path, errors="replace").read()
    release = "profile=release" in text
    bvh, err = build_harness(ctx, release=release)
    if bvh is None:
        print("harness_str does not build:", err)
        return 2
    drv, _ = build_driver(ctx)
    r = run_one(ctx, bvh, drv, ["replay", path], "replay")
    alias = ctx.spec.get("oracle_prop")
    bad = 0
    for f in r["fails"]:
        print(f"ORACLE {f['prop']} {f['name']} {f['detail']}")
        if f["prop"] == ctx.prop or (alias and f["prop"] in (alias, alias + "S")):
            bad = 1
    for d in project(ctx, r["diffs"]):
        print(d["text"])
        bad = 1
    print(r["driver_tail"])
    if bad:
        print(f"VIOLATION property={ctx.prop} replay={path}")
    return bad
