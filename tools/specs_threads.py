SPECS = {
    "C20": dict(family="threads", lean_module="BumpVerif.Props.C20", level="proof",
                fields=["res", "evt", "cap", "ab", "abm", "lim", "chunks", "it", "obs"], nontrivial_ops=[],
                partial=["data-race clause: the model proves value-invariance of the shared static and isolates the store (storesToStatic); the race itself is exhibited by Miri (support, not proof)"],
                trusted_extra=["Miri (nightly) as the detector of data races in harness_miri programs; schedules sampled via -Zmiri-seed"]),
}
