"""Vec family (bumpalo::collections::Vec): configuration of ./check C13 | C15 | C16 (Vec parts).
The lead may wrap / compose these with the String, Box and arena parts."""

VEC_OPS = ["new", "with_cap", "push", "pop", "insert", "remove", "swap_remove", "truncate", "clear", "resize", "extend",
           "extend_from_slice", "extend_copy", "extend_refs", "extend_slices", "append", "split_off", "drain", "splice", "drain_filter", "retain",
           "dedup", "dedup_by", "dedup_by_lt", "dedup_by_key", "reserve", "reserve_exact", "try_reserve", "try_reserve_exact", "shrink", "clone",
           "into_iter", "into_iter_nth", "into_bump_slice", "into_boxed", "from_iter", "collect_in", "vmacro_n", "vmacro_list", "drop"]


def vec(module, profiles, fields, nontrivial, **kw):
    d = dict(family="vec", lean_module=module, profiles=profiles, fields=fields, nontrivial_ops=nontrivial, level="proof")
    d.update(kw)
    return d


SPECS = {
    # contents / returned values / panic-no-panic / capacity of every call: model vs crate (all fields), crate vs std (oracle)
    "C13": vec("BumpVerif.Props.C13",
               [("general", 900, 45), ("bounds", 700, 45), ("iters", 500, 45), ("growth", 400, 45), ("zst", 400, 40), ("copy", 300, 40), ("panics", 500, 45)],
               ["res", "len", "cap", "ids", "moved"], VEC_OPS,
               quick_release=[("bounds", 300, 45), ("general", 200, 45)], thorough_scale=100, boundary=True,
               partial=["per-method refinement theorems are proved for every method of the list: push, pop, insert, remove, swap_remove, "
                        "truncate, clear, append, split_off, drain (all range forms), retain, drain_filter, into_iter (front/back), reserve "
                        "family, and (Proofs/VecRefine2.lean, Proofs/VecSplice.lean) splice (every path incl. lying size_hint, refused "
                        "growth, panics: C13_splice_any), extend / from_iter_in / collect_in, extend_from_slice, clone, resize, "
                        "extend_from_slice_copy, extend_from_slices_copy, io::Write, dedup / dedup_by / dedup_by_key, shrink_to_fit, "
                        "into_boxed_slice, vec! (both forms). Restrictions of these theorems: 'the call returns' is proved under a "
                        "sufficient condition (GrowOK c N: the arena serves every buffer of up to 2N elements, N >= final length + the "
                        "iterator's claimed size_hint), not under the exact refusal condition of each reservation; dedup* contents only "
                        "for a comparison that is a function of the two elements (index-dependent or panicking comparisons: permutation + "
                        "no-leak theorems of C15/C16 only); truncate / resize-shrink contents only for destructors that do not panic "
                        "(panicking ones: C16); clone 'returns' assumes with_capacity_in(len) is served",
                        "not modelled, hence neither proved nor compared: Splice::next_back (only next() on a Splice is exercised); the "
                        "temporary `collected` vector inside Splice::drop is a plain list in the model (its own growth cannot fail there); "
                        "io::Write is a model function (= extend_from_slice_copy, as in the source) checked against std::vec::Vec by the "
                        "harness oracle but not replayed by the model driver",
                        "the buffer address is not compared here (arena model); capacity values are compared with the model of RawVec"],
               assumptions=["callbacks do not mutate the elements they are shown (&mut T predicates are modelled as pure answers)"]),
    # drop ledger: which destructors ran, in which order, what was handed to the caller
    "C15": vec("BumpVerif.Props.C15",
               [("general", 900, 45), ("iters", 800, 45), ("zst", 500, 40), ("growth", 200, 40)],
               ["drops", "moved", "ids", "len", "res"],
               ["pop", "remove", "swap_remove", "truncate", "clear", "resize", "drain", "splice", "drain_filter", "retain", "dedup",
                "dedup_by", "dedup_by_key", "into_iter", "into_iter_nth", "into_bump_slice", "into_boxed", "drop", "append", "split_off", "extend",
                "clone", "insert", "push"], thorough_scale=100,
               partial=["Own preservation is proved for every method of the list: push, pop, insert, remove, swap_remove, truncate/clear, "
                        "append, split_off, drain, into_iter, into_iter().nth (Proofs/VecNth.lean), retain, drain_filter, dedup(_by/_by_key), extend (caller's iterator), drop, "
                        "into_bump_slice, splice (every path), into_boxed_slice (+ drop of the box), vec! (both forms, every path) (and, in "
                        "Props/C16, resize, extend_from_slice, clone, from_iter_in); not modelled: Splice::next_back; a second panic while "
                        "unwinding aborts the process and is outside the statement"]),
    # unwinding paths: every callback index as panic point
    "C16": vec("BumpVerif.Props.C16",
               [("panics", 2400, 45), ("iters", 200, 40)],
               ["res", "drops", "moved", "ids", "len"],
               ["retain", "drain_filter", "dedup_by", "dedup_by_key", "resize", "extend", "extend_from_slice", "clone", "splice",
                "from_iter", "collect_in", "vmacro_n", "truncate", "clear", "drop", "into_iter", "into_iter_nth", "drain", "into_boxed"],
               quick_release=[("panics", 400, 45)], thorough_scale=100,
               partial=["full theorems (every callback answer function / panic index): drain_filter, retain, dedup_by(_key), truncate, clear, "
                        "drop, into_iter and drain dropped with panicking destructors, resize / extend_from_slice / clone / vec![elem; n] "
                        "with a panicking Clone, extend / from_iter_in / splice with an iterator panicking at any next() call (splice: also "
                        "with a panicking destructor of a drained element and any size_hint; where the elements are afterwards: "
                        "C16_splice_contents); one panic per call: a second panic while unwinding aborts the process and is outside the "
                        "statement; not modelled: Splice::next_back"]),
}
