"""Vec family (bumpalo::collections::Vec): configuration of ./check C13 | C15 | C16 (Vec parts).
The lead may wrap / compose these with the String, Box and arena parts."""

VEC_OPS = ["new", "with_cap", "push", "pop", "insert", "remove", "swap_remove", "truncate", "clear", "resize", "extend",
           "extend_from_slice", "extend_copy", "extend_slices", "append", "split_off", "drain", "splice", "drain_filter", "retain",
           "dedup", "dedup_by", "dedup_by_key", "reserve", "reserve_exact", "try_reserve", "try_reserve_exact", "shrink", "clone",
           "into_iter", "into_bump_slice", "into_boxed", "from_iter", "collect_in", "vmacro_n", "vmacro_list", "drop"]


def vec(module, profiles, fields, nontrivial, **kw):
    d = dict(family="vec", lean_module=module, profiles=profiles, fields=fields, nontrivial_ops=nontrivial, level="proof")
    d.update(kw)
    return d


SPECS = {
    # contents / returned values / panic-no-panic / capacity of every call: model vs crate (all fields), crate vs std (oracle)
    "C13": vec("BumpVerif.Props.C13",
               [("general", 900, 45), ("bounds", 700, 45), ("iters", 500, 45), ("growth", 400, 45), ("zst", 400, 40), ("copy", 300, 40)],
               ["res", "len", "cap", "ids", "moved"], VEC_OPS,
               quick_release=[("bounds", 300, 45), ("general", 200, 45)], thorough_scale=40,
               partial=["per-method refinement theorems are proved for: push, pop, insert, remove, swap_remove, truncate, clear, append, "
                        "split_off, drain (all range forms), retain, drain_filter, into_iter (front/back), reserve family; NOT proved (covered by "
                        "the correspondence + std side-by-side run only): resize, extend, extend_from_slice(_copy), extend_from_slices_copy, "
                        "splice, dedup(_by/_by_key), shrink_to_fit, clone, into_boxed_slice, from_iter_in/collect_in, vec!, io::Write",
                        "the buffer address is not compared here (arena model); capacity values are compared with the model of RawVec"],
               assumptions=["callbacks do not mutate the elements they are shown (&mut T predicates are modelled as pure answers)"]),
    # drop ledger: which destructors ran, in which order, what was handed to the caller
    "C15": vec("BumpVerif.Props.C15",
               [("general", 900, 45), ("iters", 800, 45), ("zst", 500, 40), ("growth", 200, 40)],
               ["drops", "moved", "ids", "len", "res"],
               ["pop", "remove", "swap_remove", "truncate", "clear", "resize", "drain", "splice", "drain_filter", "retain", "dedup",
                "dedup_by", "dedup_by_key", "into_iter", "into_bump_slice", "into_boxed", "drop", "append", "split_off", "extend",
                "clone", "insert", "push"], thorough_scale=40,
               partial=["Own preservation is proved for: push, pop, insert, remove, swap_remove, truncate/clear, append, split_off, drain, "
                        "into_iter, retain, drain_filter, dedup(_by/_by_key), extend (caller's iterator), drop, into_bump_slice (and, in "
                        "Props/C16, resize, extend_from_slice, clone, from_iter_in); NOT proved (drop-ledger oracle + model comparison of the "
                        "drops/moved sequences only): splice, into_boxed_slice, vec!"]),
    # unwinding paths: every callback index as panic point
    "C16": vec("BumpVerif.Props.C16",
               [("panics", 2400, 45), ("iters", 200, 40)],
               ["res", "drops", "moved", "ids", "len"],
               ["retain", "drain_filter", "dedup_by", "dedup_by_key", "resize", "extend", "extend_from_slice", "clone", "splice",
                "from_iter", "collect_in", "vmacro_n", "truncate", "clear", "drop", "into_iter", "drain", "into_boxed"],
               quick_release=[("panics", 400, 45)], thorough_scale=40,
               partial=["full theorems (every callback answer function / panic index): drain_filter, retain, dedup_by(_key), truncate, clear, "
                        "drop, into_iter and drain dropped with panicking destructors, resize / extend_from_slice / clone with a panicking "
                        "Clone, extend / from_iter_in with a panicking iterator; NOT proved (panic-injection run only): splice with a "
                        "panicking iterator, vec!"]),
}
