#!/usr/bin/env python3
"""Translator, part 4 (property C17, delegation clause): regenerates lean/BumpVerif/Gen/BoxImpls.lean from
/repo/src/boxed.rs on every run.

For every trait impl of `Box<'a, T>` that the property says must behave "as the pointee" (comparison, hashing,
formatting, iteration, polling, Borrow/AsRef/Deref views) it reads each method body and records whether the body is
*literally a forward to the pointee*: one expression that calls the same method of the same trait on `**self`
(and `**other`), passing every parameter through unchanged and in order, and returning the result.

  forms accepted as a forward                                 kind
    Trait::m(&**self, &**other)   Trait::m(&**self, p…)        ufcs
    (**self).m(p…)                                            method
    **self == **other  (and != < <= > >= in eq ne lt le gt ge)   operator
    &**self   &mut **self   &*self.0   self.0   &mut *self.0   view
    F::poll(Pin::new(&mut *self), cx)                          poll
    Iterator::last: self.fold(None, some) with some(_, x) = Some(x)   fold-last

Anything else (another method name, swapped or re-wrapped arguments, extra statements, a negation, a constant)
is recorded as `forwards := false`; the Lean obligation `Bump.C17.delegating_impls_forward` then fails and the
check looks for a failing input with the side-by-side run against `std::boxed::Box`.
It is a brace-level reader, not a Rust parser; an impl it expects and cannot find is an error (exit 2)."""
import os, re, sys, json

_Base = getattr(sys.modules.get("__main__"), "ExtractError", None)
if not (isinstance(_Base, type) and issubclass(_Base, Exception)):
    try:
        from extract import ExtractError as _Base
    except Exception:  # pragma: no cover
        _Base = Exception


class BoxImplError(_Base):
    pass


# (trait as written after `impl<…>`, methods that must be present; others found are recorded as well)
EXPECTED = [
    ("PartialEq", ["eq", "ne"]),
    ("PartialOrd", ["partial_cmp", "lt", "le", "ge", "gt"]),
    ("Ord", ["cmp"]),
    ("Hash", ["hash"]),
    ("Hasher", ["finish", "write"]),
    ("fmt::Display", ["fmt"]),
    ("fmt::Debug", ["fmt"]),
    ("Deref", ["deref"]),
    ("DerefMut", ["deref_mut"]),
    ("Iterator", ["next", "size_hint", "nth", "last"]),
    ("DoubleEndedIterator", ["next_back", "nth_back"]),
    ("ExactSizeIterator", ["len"]),
    ("borrow::Borrow", ["borrow"]),
    ("borrow::BorrowMut", ["borrow_mut"]),
    ("AsRef", ["as_ref"]),
    ("AsMut", ["as_mut"]),
    ("Future", ["poll"]),
]


def strip_comments(src):
    src = re.sub(r"//[^\n]*", "", src)
    src = re.sub(r"/\*.*?\*/", "", src, flags=re.S)
    return src


def match_brace(s, i):
    """s[i] == '{' -> index just after the matching '}'"""
    depth = 0
    j = i
    while j < len(s):
        c = s[j]
        if c == "{":
            depth += 1
        elif c == "}":
            depth -= 1
            if depth == 0:
                return j + 1
        j += 1
    raise BoxImplError("unbalanced braces in boxed.rs")


def find_impl(src, trait):
    # impl<...> Trait[<...>] for Box<'a, X> {
    pat = re.compile(r"\bimpl\s*<[^{};]*?>\s*" + re.escape(trait) + r"\s*(?:<[^{};]*?>)?\s+for\s+Box\s*<\s*'a\s*,\s*\w+\s*>\s*\{")
    ms = list(pat.finditer(src))
    if len(ms) != 1:
        raise BoxImplError(f"expected exactly one `impl {trait} for Box<'a, _>` in src/boxed.rs, found {len(ms)}")
    m = ms[0]
    start = m.end() - 1
    return src[start + 1: match_brace(src, start) - 1]


FN = re.compile(r"\bfn\s+(\w+)\s*(?:<[^()]*?>)?\s*\(([^)]*)\)\s*(?:->\s*([^{]+?))?\s*\{")


def methods(body):
    out = []
    i = 0
    while True:
        m = FN.search(body, i)
        if not m:
            break
        start = m.end() - 1
        end = match_brace(body, start)
        out.append((m.group(1), m.group(2), body[start + 1:end - 1]))
        i = end
    return out


def param_names(params):
    names = []
    parts, depth, cur = [], 0, ""
    for ch in params:
        if ch in "<([":
            depth += 1
        elif ch in ">)]":
            depth -= 1
        if ch == "," and depth == 0:
            parts.append(cur)
            cur = ""
        else:
            cur += ch
    parts.append(cur)
    for p in parts:
        p = p.strip()
        if not p or re.match(r"^(&\s*)?(mut\s+)?self\b", p) or p.startswith("&mut self") or p.startswith("mut self"):
            continue
        n = p.split(":")[0].strip()
        n = re.sub(r"^mut\s+", "", n)
        names.append(n)
    return names


def norm(s):
    s = re.sub(r"#\[[^\]]*\]", "", s)
    return re.sub(r"\s+", "", s)


def classify(trait, name, params, body):
    b = norm(body)
    if b.endswith(";") and b.count(";") == 1:
        b = b[:-1]  # `(**self).hash(state);` in a unit method
    ps = param_names(params)
    short = trait.split("::")[-1]
    # ufcs: Trait::m(&**self, args) with `other` passed as &**other
    args_ufcs = ",".join(["&**self"] + [("&**other" if p == "other" else p) for p in ps])
    for t in {trait, short}:
        if b == f"{t}::{name}({args_ufcs})":
            return True, "ufcs"
    OPS = {"eq": "==", "ne": "!=", "lt": "<", "le": "<=", "gt": ">", "ge": ">="}
    if name in OPS and ps == ["other"] and b in (f"**self{OPS[name]}**other", f"(**self){OPS[name]}(**other)"):
        return True, "operator"   # the operator desugars to the same trait method on the same operands
    args_m = ",".join([("&**other" if p == "other" else p) for p in ps])
    if b == f"(**self).{name}({args_m})":
        return True, "method"
    if name in ("deref", "borrow", "as_ref") and b in ("&**self", "&*self.0", "self.0"):
        return True, "view"
    if name in ("deref_mut", "borrow_mut", "as_mut") and b in ("&mut**self", "self.0", "&mut*self.0"):
        return True, "view"
    if name == "poll" and b == "F::poll(Pin::new(&mut*self),cx)":
        return True, "poll"
    if name == "last" and b == "fnsome<T>(_:Option<T>,x:T)->Option<T>{Some(x)}self.fold(None,some)":
        return True, "fold-last"
    return False, "other"


def extract(repo):
    path = os.path.join(repo, "src", "boxed.rs")
    try:
        src = strip_comments(open(path).read())
    except OSError as e:
        raise BoxImplError(str(e))
    rows = []
    for trait, must in EXPECTED:
        body = find_impl(src, trait)
        found = {n: (p, b) for n, p, b in methods(body)}
        for n in must:
            if n not in found:
                raise BoxImplError(f"impl {trait} for Box: method `{n}` not found")
        for n, (p, b) in found.items():
            if n == "some":   # the helper nested in Iterator::last
                continue
            ok, kind = classify(trait, n, p, b)
            rows.append({"trait": trait, "method": n, "params": len(param_names(p)), "forwards": ok, "kind": kind,
                         "body": norm(b)[:120]})
    return rows


def lean(rows):
    L = ["/-! GENERATED by tools/extract_box.py from /repo/src/boxed.rs — do not edit.",
         "Every method of the trait impls through which a `Box` must behave as its pointee, with whether its body is",
         "literally a forward to the pointee (see the translator for the accepted forms). -/",
         "namespace Bump.Gen", "",
         "structure BoxImpl where", "  trait : String", "  method : String", "  params : Nat", "  forwards : Bool", "  kind : String", "",
         "def boxImpls : List BoxImpl := ["]
    L += ["  " + ",\n  ".join(
        f'⟨"{r["trait"]}", "{r["method"]}", {r["params"]}, {"true" if r["forwards"] else "false"}, "{r["kind"]}"⟩' for r in rows)]
    L += ["]", "",
          f"def boxImplCount : Nat := {len(rows)}",
          f"def boxImplForwarding : Nat := {sum(1 for r in rows if r['forwards'])}",
          "", "end Bump.Gen", ""]
    return "\n".join(L)


def run(repo, outdir, write_if_changed):
    rows = extract(repo)
    changed = write_if_changed(os.path.join(outdir, "BoxImpls.lean"), lean(rows))
    bad = [f'{r["trait"]}::{r["method"]}: {r["body"]}' for r in rows if not r["forwards"]]
    return {"box_impls_changed": changed, "box_impls": len(rows), "box_impls_not_forwarding": bad}


if __name__ == "__main__":
    repo = os.environ.get("BV_REPO", "/repo")
    out = os.path.join(os.path.dirname(os.path.abspath(__file__)), "..", "lean", "BumpVerif", "Gen")

    def _w(path, content):
        try:
            if open(path).read() == content:
                return False
        except FileNotFoundError:
            pass
        open(path, "w").write(content)
        return True
    try:
        print(json.dumps({"ok": True, **run(repo, out, _w)}))
    except (BoxImplError, OSError) as e:
        print(json.dumps({"ok": False, "error": str(e)}))
        sys.exit(2)
