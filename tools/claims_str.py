"""MANIFEST texts of the `str` family."""
STR_NOTE = ("Trusted: Lean kernel + axioms {propext, Classical.choice, Quot.sound}; the hand-written model of string.rs / str/lossy.rs is tied "
            "to the code by the differential run (sampling) and by tools/extract_str.py (UTF8_CHAR_WIDTH, TAG_CONT_U8, the form of `n + 1` in "
            "drain/replace_range, whether retain has its unwind guard, are regenerated from the source on every run); Lean's String.utf8EncodeChar is taken as the definition of "
            "UTF-8 and Lean's Char as Rust's char; core::str, char::encode_utf8, decode_utf16 are modelled from their documented contracts; "
            "Vec<u8> growth and Splice belong to the vec family (capacity is only checked as capacity >= len here); 64-bit only.")
CLAIMS = {
    "C14": dict(
        text="Theorems (Lean, for all strings and arguments, by induction): every String method of the model preserves well-formed UTF-8 and "
             "refines the obvious List Char function (push, push_str, pop, insert, insert_str, remove, truncate, clear, retain with a "
             "non-panicking closure = filter, drain, replace_range, split_off, extend, clone, into_bump_str); a method panics iff its index is "
             "not on a char boundary or out of range, and range bounds at usize::MAX panic in every build profile; the lossy decoder (transcribed from Utf8LossyChunksIter::next over the regenerated width "
             "table) always outputs valid UTF-8, is the identity on valid input and equals the reference decoder 'U+FFFD per maximal subpart' defined "
             "from Unicode Table 3-7 without the table; from_utf8 accepts iff the bytes are valid; from_utf16 fails "
             "iff a lone surrogate occurs; the regenerated width table agrees with the RFC 3629 lead-byte classes wherever the decoder depends on it; validity "
             "is an invariant of every program (induction over operation lists). Correspondence: generated "
             "programs run on bumpalo String, std String and the model (same results, text, panics; valid UTF-8 after every operation; every "
             "byte index and range form incl. ..=usize::MAX), decoders against std on all byte strings of length <= 3 and structured longer "
             "ones, UTF-16 around the surrogate boundaries.",
        note=STR_NOTE,
        technique="proof (Lean 4) + differential correspondence with std and the model"),
}
NOT_CLAIMED = {}
