#!/usr/bin/env python3
"""A small parser for the subset of Rust in which bumpalo's arithmetic kernels are written.

Used by tools/rs2lean.py (the function-body translator).  It parses one `fn` item at a time:
signature (parameter names and types as text) and body (statements and expressions) into a
tuple AST.  Anything outside the subset raises ParseError -- the translator then reports the
function as untranslatable (an obligation that no longer checks), it never guesses.

AST (tuples):
  expressions  ('int', n) ('bool', b) ('path', [seg...]) ('field', e, name) ('mcall', e, name, [args])
               ('call', f, [args]) ('un', op, e) ('bin', op, a, b) ('cast', e, ty) ('if', c, blk, else|None)
               ('iflet', pat, e, blk, else|None) ('match', e, [(pat, guard|None, e)]) ('block', [stmts], tail|None)
               ('closure', [pats], body) ('try', e) ('return', e|None) ('macro', name, [args]) ('struct', path, [(f, e)])
               ('tuple', [e]) ('ref', e) ('deref', e) ('unsafe', blk)
  statements   ('let', pat, e|None) ('expr', e) ('assign', op, lhs, rhs)
  patterns     ('pid', name) ('pwild',) ('pts', path, [pats]) ('pstruct', path, [(f, pat)]) ('ppath', path)
               ('plit', n) ('ptuple', [pats]) ('pref', pat)
"""
import re


class ParseError(Exception):
    pass


KEYWORDS = {"let", "mut", "if", "else", "match", "return", "unsafe", "as", "fn", "true", "false", "ref", "move",
            "while", "loop", "for", "in", "break", "continue", "const", "pub", "crate", "self", "Self", "where", "impl", "dyn"}

PUNCT = ["..=", "<<=", ">>=", "::", "->", "=>", "==", "!=", "<=", ">=", "&&", "||", "<<", ">>", "+=", "-=", "*=", "/=", "%=",
         "|=", "&=", "^=", ".."]


def strip_comments(src):
    out, i, n = [], 0, len(src)
    while i < n:
        c = src[i]
        if src.startswith("//", i):
            j = src.find("\n", i)
            i = n if j < 0 else j
        elif src.startswith("/*", i):
            j = src.find("*/", i + 2)
            i = n if j < 0 else j + 2
        elif c == '"':
            j = i + 1
            while j < n and src[j] != '"':
                j += 2 if src[j] == "\\" else 1
            out.append(src[i:j + 1]); i = j + 1
        else:
            out.append(c); i += 1
    return "".join(out)


def tokenize(src):
    toks, i, n = [], 0, len(src)
    while i < n:
        c = src[i]
        if c.isspace():
            i += 1; continue
        if c == '"':
            j = i + 1
            while j < n and src[j] != '"':
                j += 2 if src[j] == "\\" else 1
            toks.append(("str", src[i + 1:j])); i = j + 1; continue
        if c == "'":
            m = re.match(r"'[A-Za-z_][A-Za-z0-9_]*(?!')", src[i:])
            if m:
                toks.append(("lt", m.group(0))); i += len(m.group(0)); continue
            m = re.match(r"'(\\.|[^\\'])'", src[i:])
            if m:
                toks.append(("chr", m.group(0))); i += len(m.group(0)); continue
            raise ParseError("bad quote")
        m = re.match(r"0x[0-9a-fA-F_]+|0b[01_]+|\d[\d_]*", src[i:])
        if m:
            lit = m.group(0); i += len(lit)
            m2 = re.match(r"(usize|isize|u8|u16|u32|u64|i32|i64|u128)", src[i:])
            if m2:
                i += len(m2.group(0))
            toks.append(("int", int(lit.replace("_", ""), 0))); continue
        m = re.match(r"[A-Za-z_][A-Za-z0-9_]*", src[i:])
        if m:
            toks.append(("id", m.group(0))); i += len(m.group(0)); continue
        for p in PUNCT:
            if src.startswith(p, i):
                toks.append(("p", p)); i += len(p); break
        else:
            toks.append(("p", c)); i += 1
    return toks


class P:
    def __init__(self, toks):
        self.t, self.i = toks, 0

    # -- helpers
    def peek(self, k=0):
        return self.t[self.i + k] if self.i + k < len(self.t) else ("eof", None)

    def at(self, val, k=0):
        t = self.peek(k)
        return t[0] in ("p", "id") and t[1] == val

    def eat(self, val):
        if self.at(val):
            self.i += 1; return True
        return False

    def expect(self, val):
        if not self.eat(val):
            raise ParseError(f"expected {val!r}, found {self.peek()} at token {self.i}")

    def ident(self):
        t = self.peek()
        if t[0] != "id":
            raise ParseError(f"expected identifier, found {t}")
        self.i += 1
        return t[1]

    # -- types: returned as text; generic arguments balanced
    def ty(self, stops):
        depth, out = 0, []
        while True:
            t = self.peek()
            if t[0] == "eof":
                break
            if depth == 0 and t[0] in ("p", "id") and t[1] in stops:
                break
            if t[0] == "p" and t[1] in ("<", "(", "["):
                depth += 1
            elif t[0] == "p" and t[1] in (">", ")", "]"):
                if depth == 0:
                    break
                depth -= 1
            elif t[0] == "p" and t[1] == ">>":
                if depth < 2:
                    break
                depth -= 2
            elif t[0] == "p" and t[1] == "->" and depth == 0:
                break
            out.append(str(t[1])); self.i += 1
        return " ".join(out)

    def generic_args(self):
        """after `::<` or `<` in type position: skip to the matching `>`"""
        depth = 1
        while depth > 0:
            t = self.peek()
            if t[0] == "eof":
                raise ParseError("unterminated generic arguments")
            if t == ("p", "<"):
                depth += 1
            elif t == ("p", ">"):
                depth -= 1
            elif t == ("p", ">>"):
                depth -= 2
            self.i += 1

    # -- paths
    def path(self):
        segs = []
        if self.eat("::"):
            pass
        while True:
            if self.at("<"):   # qualified path <T as Trait>::x -- not supported
                raise ParseError("qualified path")
            segs.append(self.ident())
            if self.at("::"):
                if self.at("<", 1):
                    self.i += 2
                    start = self.i
                    self.generic_args()
                    if segs[-1] in ("size_of", "align_of", "array"):
                        # the type argument decides the value: keep it in the segment name
                        segs[-1] += "<" + "".join(str(t[1]) for t in self.t[start:self.i - 1]) + ">"
                    if self.at("::"):
                        self.i += 1; continue
                    break
                self.i += 1; continue
            break
        return segs

    # -- patterns
    def pat(self):
        if self.eat("&"):
            self.eat("mut")
            return ("pref", self.pat())
        if self.eat("("):
            ps = []
            while not self.at(")"):
                ps.append(self.pat()); self.eat(",")
            self.expect(")")
            return ("ptuple", ps)
        t = self.peek()
        if t[0] == "int":
            self.i += 1
            if self.eat("..="):
                hi = self.peek()
                if hi[0] != "int":
                    raise ParseError("range pattern bound")
                self.i += 1
                return ("prange", t[1], hi[1])
            return ("plit", t[1])
        if t == ("id", "_"):
            self.i += 1
            return ("pwild",)
        if self.eat("mut") or self.eat("ref"):
            self.eat("mut")
            return ("pid", self.ident())
        segs = self.path()
        if self.at("("):
            self.i += 1
            ps = []
            while not self.at(")"):
                ps.append(self.pat()); self.eat(",")
            self.expect(")")
            return ("pts", segs, ps)
        if self.at("{"):
            self.i += 1
            fs = []
            while not self.at("}"):
                if self.eat(".."):
                    continue
                f = self.ident()
                if self.eat(":"):
                    fs.append((f, self.pat()))
                else:
                    fs.append((f, ("pid", f)))
                self.eat(",")
            self.expect("}")
            return ("pstruct", segs, fs)
        if len(segs) == 1 and (segs[0][0].islower() or segs[0][0] == "_"):
            return ("pid", segs[0])
        return ("ppath", segs)

    # -- blocks and statements
    def block(self):
        self.expect("{")
        stmts, tail = [], None
        while not self.at("}"):
            if self.eat(";"):
                continue
            if self.at("use"):
                while not self.eat(";"):
                    self.i += 1
                continue
            if self.at("const") and self.peek(1)[0] == "id" and self.peek(2) == ("p", ":"):
                # a constant local to the body: a `let`
                self.i += 1
                name = self.ident()
                self.expect(":")
                self.ty({"="})
                self.expect("=")
                e = self.expr()
                self.expect(";")
                stmts.append(("let", ("pid", name), e)); continue
            if (self.at("fn") or (self.at("unsafe") and self.peek(1) in (("id", "fn"), ("kw", "fn")))) and True:
                # a function nested in the body: skipped here, translated on its own (located by `find_fn`)
                while not self.at("{"):
                    self.i += 1
                d = 0
                while True:
                    if self.at("{"): d += 1
                    if self.at("}"): d -= 1
                    self.i += 1
                    if d == 0:
                        break
                continue
            if (self.at("struct") or self.at("impl")) and self.peek()[0] in ("id", "kw"):
                # an item nested in a function body (a local guard type and its `Drop` impl): skipped here; its functions are
                # located by text position like every other function (`find_fn` with an anchor)
                while not self.at("{") and not self.at(";"):
                    self.i += 1
                if self.eat(";"):
                    continue
                d = 0
                while True:
                    if self.at("{"): d += 1
                    if self.at("}"): d -= 1
                    self.i += 1
                    if d == 0:
                        break
                continue
            if self.at("#"):      # attribute
                self.i += 1; self.expect("[")
                d = 1
                while d:
                    if self.at("["): d += 1
                    if self.at("]"): d -= 1
                    self.i += 1
                continue
            if self.at("let"):
                self.i += 1
                p = self.pat()
                if self.eat(":"):
                    self.ty({"=", ";"})
                e = None
                if self.eat("="):
                    e = self.expr()
                self.expect(";")
                stmts.append(("let", p, e)); continue
            e = self.expr(stmt=True)
            for op in ("=", "+=", "-=", "*=", "/=", "%=", "|=", "&=", "<<=", ">>=", "^="):
                if self.at(op):
                    self.i += 1
                    r = self.expr()
                    self.expect(";")
                    stmts.append(("assign", op, e, r)); break
            else:
                if self.eat(";"):
                    stmts.append(("expr", e))
                elif self.at("}"):
                    tail = e
                elif e[0] in ("if", "iflet", "match", "block", "unsafe", "while", "loop", "for", "foriter"):
                    stmts.append(("expr", e))
                elif e[0] == "macro" and e[3] == "{":
                    stmts.append(("expr", e))
                else:
                    raise ParseError(f"expected ';' or '}}' after expression, found {self.peek()}")
        self.expect("}")
        return ("block", stmts, tail)

    # -- expressions (Pratt)
    BIN = [("||",), ("&&",), ("==", "!=", "<", ">", "<=", ">="), ("|",), ("^",), ("&",), ("<<", ">>"), ("+", "-"), ("*", "/", "%")]

    def expr(self, stmt=False, nostruct=False):
        return self.binexpr(0, stmt, nostruct)

    def binexpr(self, lvl, stmt, nostruct):
        if lvl == len(self.BIN):
            return self.castexpr(stmt, nostruct)
        a = self.binexpr(lvl + 1, stmt, nostruct)
        # a block-like expression in statement position ends the statement
        if stmt and a[0] in ("if", "iflet", "match", "block", "unsafe", "while", "loop", "for", "foriter") and not self.at(".") and not self.at("?"):
            return a
        while True:
            t = self.peek()
            if t[0] == "p" and t[1] in self.BIN[lvl]:
                if t[1] == "|" and False:
                    break
                self.i += 1
                b = self.binexpr(lvl + 1, False, nostruct)
                a = ("bin", t[1], a, b)
                if lvl == 2 and False:
                    break
            else:
                break
        return a

    def castexpr(self, stmt, nostruct):
        e = self.unary(stmt, nostruct)
        while self.at("as"):
            self.i += 1
            pre = ""
            while self.at("*") and (self.at("mut", 1) or self.at("const", 1)):
                pre += "*" + self.peek(1)[1] + " "; self.i += 2
            t = pre + self.ty({"as", ",", ";", ")", "}", "{", "=", "==", "!=", "<=", ">=", "&&", "||", "+", "-", "*", "/", "%", "&", "|", "^",
                         "=>", "?", ".", "<<", ">>"})
            e = ("cast", e, t)
        return e

    def unary(self, stmt, nostruct):
        if self.eat("!"):
            return ("un", "!", self.unary(False, nostruct))
        if self.eat("-"):
            return ("un", "-", self.unary(False, nostruct))
        if self.eat("*"):
            return ("deref", self.unary(False, nostruct))
        if self.at("&") or self.at("&&"):
            two = self.at("&&")
            self.i += 1
            self.eat("mut")
            e = ("ref", self.unary(False, nostruct))
            return ("ref", e) if two else e
        return self.postfix(self.primary(stmt, nostruct), stmt)

    def args(self):
        self.expect("(")
        out = []
        while not self.at(")"):
            a = self.expr()
            if self.eat(".."):      # a range as an argument (`v.drain(a..b)`, `s.get_unchecked(a..b)`)
                a = ("range", a, None if self.at(")") or self.at(",") else self.expr())
            out.append(a); self.eat(",")
        self.expect(")")
        return out

    def postfix(self, e, stmt=False):
        while True:
            if stmt and e[0] in ("if", "iflet", "match", "block", "unsafe") and not self.at(".") and not self.at("?"):
                return e
            if self.at("?"):
                self.i += 1; e = ("try", e); continue
            if self.at("."):
                t = self.peek(1)
                if t[0] == "int":
                    self.i += 2; e = ("field", e, str(t[1])); continue
                self.i += 1
                name = self.ident()
                if self.at("::") and self.at("<", 1):
                    self.i += 2; self.generic_args()
                if self.at("("):
                    e = ("mcall", e, name, self.args())
                else:
                    e = ("field", e, name)
                continue
            if self.at("("):
                e = ("call", e, self.args()); continue
            if self.at("["):
                self.i += 1
                ix = self.expr()
                if self.eat(".."):
                    ix = ("range", ix, None if self.at("]") else self.expr())
                self.expect("]")
                e = ("index", e, ix); continue
            return e

    def primary(self, stmt, nostruct):
        t = self.peek()
        if t[0] == "int":
            self.i += 1; return ("int", t[1])
        if t[0] == "str":
            self.i += 1; return ("str", t[1])
        if t[0] == "chr":
            self.i += 1; return ("chr", t[1])
        if self.at("["):
            self.i += 1
            items = []
            while not self.at("]"):
                items.append(self.expr())
                if self.eat(";"):
                    n = self.expr()
                    self.expect("]")
                    return ("arrayrep", items[0], n)
                self.eat(",")
            self.expect("]")
            return ("array", items)
        if t == ("id", "true"):
            self.i += 1; return ("bool", True)
        if t == ("id", "false"):
            self.i += 1; return ("bool", False)
        if self.at("("):
            self.i += 1
            if self.eat(")"):
                return ("tuple", [])
            e = self.expr()
            if self.eat(")"):
                return ("paren", e)
            es = [e]
            while self.eat(","):
                if self.at(")"):
                    break
                es.append(self.expr())
            self.expect(")")
            return ("tuple", es)
        if self.at("{"):
            return self.block()
        if self.at("unsafe"):
            self.i += 1
            return ("unsafe", self.block())
        if self.at("if"):
            return self.ifexpr()
        if self.at("match"):
            self.i += 1
            scrut = self.expr(nostruct=True)
            self.expect("{")
            arms = []
            while not self.at("}"):
                self.eat("|")
                pats = [self.pat()]
                while self.eat("|"):
                    pats.append(self.pat())
                guard = None
                if self.eat("if"):
                    guard = self.expr()
                self.expect("=>")
                body = self.expr(stmt=True)
                for op in ("=", "+=", "-=", "*="):      # an assignment as the arm's body
                    if self.at(op):
                        self.i += 1
                        body = ("block", [("assign", op, body, self.expr())], None)
                        break
                self.eat(",")
                for p in pats:
                    arms.append((p, guard, body))
            self.expect("}")
            return ("match", scrut, arms)
        if self.at("return"):
            self.i += 1
            if self.at(";") or self.at("}") or self.at(","):
                return ("return", None)
            return ("return", self.expr())
        if self.at("|") or self.at("||") or self.at("move"):
            self.eat("move")
            params = []
            if self.eat("||"):
                pass
            else:
                self.expect("|")
                while not self.at("|"):
                    params.append(self.pat())
                    if self.eat(":"):
                        self.ty({",", "|"})
                    self.eat(",")
                self.expect("|")
            body = self.expr()
            return ("closure", params, body)
        if self.at("for"):
            # `for PAT in A..B { … }` (a counted loop) — the only loop form in the translated subset besides `while`
            self.i += 1
            pat = self.pat()
            self.expect("in")
            lo = self.expr(nostruct=True)
            if not self.eat(".."):
                # `for PAT in ITER { … }` over an iterator value
                body = self.block()
                return ("foriter", pat, lo, body)
            hi = self.expr(nostruct=True)
            body = self.block()
            return ("for", pat, ("range", lo, hi), body)
        if self.at("while") and not (self.peek(1) == ("id", "let") or self.peek(1) == ("kw", "let")):
            self.i += 1
            cond = self.expr(nostruct=True)
            body = self.block()
            return ("while", cond, body)
        if self.at("while") or self.at("loop"):
            raise ParseError("`loop` / `while let` are outside the translated subset")
        if t[0] == "id" or (t == ("p", "::") and self.peek(1)[0] == "id"):
            segs = self.path()
            if self.at("!"):           # macro
                self.i += 1
                return self.macro(segs[-1])
            if self.at("{") and not nostruct and segs[-1][0].isupper():
                # struct literal
                self.i += 1
                fs = []
                while not self.at("}"):
                    f = self.ident()
                    if self.eat(":"):
                        fs.append((f, self.expr()))
                    else:
                        fs.append((f, ("path", [f])))
                    self.eat(",")
                self.expect("}")
                return ("struct", segs, fs)
            return ("path", segs)
        raise ParseError(f"unexpected token {t} at {self.i}")

    def ifexpr(self):
        self.expect("if")
        if self.eat("let"):
            p = self.pat()
            self.expect("=")
            e = self.expr(nostruct=True)
            then = self.block()
            els = self.elsepart()
            return ("iflet", p, e, then, els)
        c = self.expr(nostruct=True)
        then = self.block()
        return ("if", c, then, self.elsepart())

    def elsepart(self):
        if self.eat("else"):
            if self.at("if"):
                return self.ifexpr()
            return self.block()
        return None

    def macro(self, name):
        openc = self.peek()[1]
        close = {"(": ")", "[": "]", "{": "}"}[openc]
        self.i += 1
        args = []
        if name == "matches":
            e = self.expr()
            self.expect(",")
            p = self.pat()
            g = None
            if self.eat("if"):
                g = self.expr()
            self.eat(",")
            self.expect(close)
            return ("macro", name, [e, p, g], openc)
        while not self.at(close):
            t = self.peek()
            if t[0] == "str":
                # format string and its arguments: skip to the closing delimiter
                depth = 0
                while True:
                    if self.at(close) and depth == 0:
                        break
                    if self.peek()[0] == "eof":
                        raise ParseError("unterminated macro")
                    if self.peek()[0] == "p" and self.peek()[1] in "([{":
                        depth += 1
                    elif self.peek()[0] == "p" and self.peek()[1] in ")]}":
                        depth -= 1
                    self.i += 1
                break
            args.append(self.expr())
            self.eat(",")
        self.expect(close)
        return ("macro", name, args, openc)


def find_fn(src, name, nth=0, after=None):
    """Locate `fn name` in comment-stripped source (optionally the nth occurrence, or the first after the
    position of the text `after`).  Returns (signature dict, body AST)."""
    start = 0
    if after is not None:
        start = src.find(after)
        if start < 0:
            raise ParseError(f"anchor {after!r} not found")
    ms = [m for m in re.finditer(r"\bfn\s+%s\b" % re.escape(name), src) if m.start() >= start]
    if len(ms) <= nth:
        raise ParseError(f"fn {name}: not found")
    pos = ms[nth].start()
    toks = tokenize(src[pos:])
    p = P(toks)
    p.expect("fn"); p.ident()
    if p.at("<"):
        p.i += 1; p.generic_args()
    p.expect("(")
    params = []
    while not p.at(")"):
        if p.at("&") or p.at("self") or p.at("mut"):
            # receiver
            save = p.i
            p.eat("&")
            if p.peek()[0] == "lt":
                p.i += 1
            p.eat("mut")
            if p.eat("self"):
                params.append(("self", "Self")); p.eat(","); continue
            p.i = save
        p.eat("mut")
        n = p.ident()
        p.expect(":")
        t = p.ty({",", ")"})
        params.append((n, t)); p.eat(",")
    p.expect(")")
    ret = "()"
    if p.eat("->"):
        ret = p.ty({"{", "where"})
    if p.at("where"):
        while not p.at("{"):
            p.i += 1
    body = p.block()
    return {"name": name, "params": params, "ret": ret}, body


if __name__ == "__main__":
    import sys, pprint
    src = strip_comments(open(sys.argv[1]).read())
    sig, body = find_fn(src, sys.argv[2], int(sys.argv[3]) if len(sys.argv) > 3 else 0)
    pprint.pprint(sig); pprint.pprint(body, width=140)
