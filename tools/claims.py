"""Texts for MANIFEST.json (what each check claims)."""
BASE_NOTE = ("Trusted: Lean kernel + axioms {propext, Classical.choice, Quot.sound}; the hand-written model is tied to the code "
             "by the differential correspondence run (sampling) and by the constants translator; rustc layout, core::ptr copy "
             "semantics, Layout::array and the global-allocator contract are modelled, not verified; 64-bit only.")
CORR = (" Correspondence: generated operation plans (all allocation flavours, Allocator-trait grow/shrink/dealloc, "
        "failed initialisers, resets, limits, allocator refusal scripts, MIN_ALIGN 1..16, minimally aligned chunk bases) run "
        "on the real crate in-process; every line is replayed on the compiled Lean model with the allocator answers observed "
        "and compared on the fields relevant to this property; model-independent oracles on the real crate produce the replay.")
CLAIMS = {
    "C01": dict(
        text="Main theorem (Lean, all histories, by invariant + induction over operation lists): from any arena a constructor returned, after "
             "ANY admissible history over the full operation alphabet (all allocation flavours, Allocator-trait allocate/deallocate/grow/"
             "grow_zeroed/shrink on any live block in any order, fallible initialisers that succeed or fail after allocating, keeping and "
             "releasing blocks and acquiring chunks in the same arena, reset, limit changes), for every allocator answer list satisfying the "
             "allocator contract: the arena is well-formed, every live block is non-null, MIN_ALIGN-aligned and (if non-empty) inside the used "
             "part [finger, footer) of a held chunk (hence inside held memory, outside the footer), live blocks are pairwise disjoint, and no "
             "assertion/wrap/UB outcome is reachable. Per-call corollaries: placement, zero-sized requests move nothing." + CORR,
        note=BASE_NOTE),
    "C02": dict(
        text="Theorems: the arena's own memory writes are exactly the copies of grow/shrink and grow_zeroed's zero fill (recorded as "
             "memory effects with a byte-level semantics: memmove / copy_nonoverlapping / zero); allocation (any flavour), dealloc, reset "
             "and a failed initialiser's rewind write nothing; grow and shrink preserve the first min(old,new) bytes and change no byte "
             "outside the new block (copy_nonoverlapping is never applied to overlapping ranges); fill closures are called once per index "
             "in order and a fallible fill stops right after the first error; and over every admissible history of the full operation "
             "alphabet (incl. initialisers that allocate and fail, failed fills, Allocator calls, resets) a block that stays live and is "
             "not itself reallocated keeps every byte (history_contents, by the live-block invariant of C01: all arena writes land "
             "inside the block grow/shrink returns, disjoint from every other live block)." + CORR +
             " Canary oracle: every live block's bytes are re-verified after every operation on the real crate; closure call logs compared.",
        note=BASE_NOTE + " The caller's own writes into a fresh block are outside the model (they are disjoint from live blocks by C01)."),
    "C11": dict(
        text="Theorems: the initialiser is not reached when the reservation fails (arena unchanged, failure returned); a failed "
             "alloc_try_with/try_alloc_try_with whose initialiser allocated nothing returns the error and leaves the arena exactly as on "
             "entry (same chunk: finger restored incl. padding) or as on entry plus the empty chunk acquired for the value (finger at its "
             "footer), and the same layout requested next is served by the fast path at the same address with no allocator traffic; for an "
             "initialiser that allocated, kept and released blocks (even acquired chunks) before failing, every block live on entry and every "
             "kept block is still in a used part, pairwise disjoint, whether or not the rewind took place (inner_blocks_kept: the rewind is "
             "safe in general); on success nothing is rewound; the try-fill loop calls the closure for 0..=k and stops at the first error." + CORR +
             " The same for a failed slice try-fill: the error is returned and the same layout is served again by the fast path at the "
             "same address (fill_no_residue, for every element type whose alignment divides its size). Partial: 'error value delivered "
             "exactly once' is a statement about a Rust value the model does not carry; it is checked by an oracle on the real crate "
             "(drop-counting error tokens).",
        note=BASE_NOTE),
    "C12": dict(
        text="Theorems: for every live block and arbitrary old/new layouts (different alignments, zero sizes) grow and shrink return a block "
             "aligned to new.align and MIN_ALIGN with new.size bytes inside the used part of a held chunk; every other region in a used part "
             "disjoint from the old block stays in a used part and is disjoint from the new block; the first min(old,new) bytes are kept and "
             "no byte outside the new block changes; grow_zeroed's tail reads zero; on Err arena and memory are unchanged; deallocate of any "
             "live block in any order keeps the invariant and every other MIN_ALIGN-aligned live region; allocate is try_alloc_layout (C01/C04/C09)." + CORR +
             " The 'standard collections parameterised by the arena behave as with the global allocator' clause is sampled "
             "(allocator_api2 Vec/Box over &Bump vs std) rather than proved.",
        note=BASE_NOTE),
    "C03": dict(
        text="Theorems: a ledger computed from the allocator event log alone (malloc adds, free erases the exact (addr,size,align)) "
             "always equals the arena's chunk list: preserved by every allocation flavour (which never frees and leaves it unchanged "
             "on failure/refusal), reset frees exactly the non-newest chunks once each with their own layout, drop frees all and "
             "leaves the ledger empty; the static empty chunk is never freed; dealloc never talks to the allocator." + CORR +
             " 'Not while a reference can be alive' rests on C05 (reset/drop need exclusive access).",
        note=BASE_NOTE),
    "C04": dict(
        text="Theorems: every pointer returned by any allocation flavour (fast path, fresh chunk, fallible or not) at every well-formed "
             "state incl. the chunk-less arena is aligned to the request and to MIN_ALIGN, for all power-of-two alignments and sizes "
             "(0 included) and every chunk base; dealloc keeps the finger MIN_ALIGN-aligned; constructors panic for unsupported "
             "MIN_ALIGN; the static empty chunk's declared alignment (regenerated from source) is a multiple of 16." + CORR,
        note=BASE_NOTE),
    "C06": dict(
        text="Theorems: after reset exactly the newest chunk is kept with finger = footer (iteration yields one empty slice), the "
             "others are freed in order, limit and MIN_ALIGN unchanged, invariant kept; the kept chunk's whole usable size is "
             "again served by the fast path with no allocator event; reset of a chunk-less arena is a no-op; reset is idempotent." + CORR,
        note=BASE_NOTE),
    "C07": dict(
        text="Theorems: whenever an allocation acquires a chunk while a limit L is set, usable bytes held before + the new chunk's "
             "usable size ≤ L (also when L is below what is held: then nothing is acquired); the fast path never consults the limit; "
             "with no limit the limit machinery is inert." + CORR + " Limit monitor oracle on every malloc of the real crate.",
        note=BASE_NOTE),
    "C08": dict(
        text="Theorems: in every well-formed arena allocated_bytes_including_metadata = total size of held chunks and allocated_bytes = "
             "that minus one footer per chunk, both 0 when chunk-less; allocations that acquire no chunk, failed allocations, dealloc "
             "and limit changes leave both unchanged; reset recomputes them for the kept chunk (usable size, without footer)." + CORR,
        note=BASE_NOTE),
    "C09": dict(
        text="Theorems: try_alloc_layout is total (Ok/Err, never panic, never an assertion, candidate loop terminates) for every valid "
             "layout, arena state and refusal pattern; on Err the arena and memory are unchanged and only refused requests reached the "
             "allocator; alloc_layout panics exactly when try_alloc_layout errs and is otherwise identical; fallible constructors never "
             "panic for supported MIN_ALIGN." + CORR + " Hang watchdog (300k refusals in one call) and catch_unwind on every call.",
        note=BASE_NOTE),
    "C10": dict(
        text="Theorems: iteration = one slice [finger, footer) per held chunk, newest first, inside its chunk; every region in a used part "
             "(every live non-empty block) lies in exactly one slice; and for every uniform history (all allocations of any flavour with the "
             "same alignment A, MIN_ALIGN ≤ A ≤ 16, sizes multiples of A, across chunk boundaries, with resets, limit changes, failed fallible "
             "initialisers and failed fallible slice fills in between) the sizes of the live objects in each chunk's used part add up to "
             "exactly its length (uniform_history_tiles) — with C01's containment and disjointness: the slices are exactly the objects, "
             "nothing before, between or after." + CORR + " uniform-tiling oracle on the real crate.",
        note=BASE_NOTE + " In the model both iterators are the same walk; that the two Rust iterators agree is an oracle."),
    "C18": dict(
        text="Theorems (arena part): an arena built with capacity c serves any request list with sizes multiples of MIN_ALIGN, aligns ≤ "
             "MIN_ALIGN and total ≤ c from its first chunk alone; a request of exactly chunk_capacity() bytes is served by the fast path; "
             "every chunk created by the slow path is non-empty and at least as large as the request, and its usable size is at least "
             "max(2·usable(current chunk), request, 448) / 2^k where k counts the candidates the allocator refused or the limit rejected "
             "(chunk_growth_geometric): with no refusals each new chunk at least doubles." + CORR +
             " Oracle on the real crate: with no limit and no refusal in the call, the new chunk is at least twice the previous one." +
             " Vec/String part (reserve then push without moving, amortised growth): see the vec family when composed.",
        note=BASE_NOTE),
    "C19": dict(
        text="Theorems (arena entry points): Layout::array refuses exactly the (element size, count) pairs whose total does not fit "
             "isize::MAX (no wrap); an unrepresentable slice length yields Err/panic without touching the arena; chunk sizing never "
             "wraps or panics for valid layouts; a successful allocation's block lies inside a held chunk's usable region; constructors "
             "refuse unrepresentable capacities." + CORR + " RawVec/Vec/String entry points: vec family.",
        note=BASE_NOTE),
}
NOT_CLAIMED = {}

for _m in ("claims_str", "claims_box", "claims_borrow", "claims_threads"):
    try:
        _mod = __import__(_m)
        CLAIMS.update(_mod.CLAIMS)
        NOT_CLAIMED.update(getattr(_mod, "NOT_CLAIMED", {}))
    except ImportError:
        pass

# properties whose check is complete enough to be claimed in MANIFEST.json (the lead flips these on)
READY = {"C17", "C14", "C20", "C05", "C01", "C02", "C11", "C12", "C03", "C04", "C06", "C07", "C08", "C09", "C10", "C18", "C19"}

# composite properties: the family texts are kept per part and stitched together here
try:
    import claims_vec as _cv
    _V = _cv.CLAIMS
    CLAIMS["C13"] = dict(_V["C13"])
    CLAIMS["C15"] = dict(
        text=_V["C15"]["text"] + " || Box part: Own over all programs of boxed.rs (never_dropped_twice, box_drop: exactly one drop and the arena "
             "untouched, into_inner/into_raw/from_raw/leak/pin transfer without running a destructor, conversions array<->slice<->Vec keep "
             "the id sequence), Props/C17. || Arena part: reset/drop only emit free events and write no memory; the model has no step that "
             "touches a stored value; on the real crate a drop ledger over arena-resident droppable elements checks that no destructor runs "
             "during fills, reset and drop (Props/C16A).",
        note=_V["C15"]["note"], technique="Lean 4 ownership invariants (Vec slot machine, Box ownership machine) + three-way differential runs (crate, std, model) with drop ledgers")
    CLAIMS["C16"] = dict(
        text=_V["C16"]["text"] + " || String part: retain with a panicking closure leaves valid UTF-8 for every panic index (C16_string_retain_valid; "
             "rests on the SetLenOnDrop guard whose presence the translator re-reads; counterexample for the unguarded loop kept), programs "
             "continuing after such panics stay valid (Proofs/StrPanic). || Box part: dropping a boxed slice/array whose k-th destructor panics "
             "drops every element exactly once, for every k (Props/C17). || Arena part: a panic in an initialiser / fill closure after the "
             "reservation leaves the arena in the post-reservation state, which satisfies the live-block invariant, the block leaked; the arena "
             "stays usable for every later history (Props/C16A); panics injected at every closure index of alloc_slice_fill_with/iter and "
             "alloc_try_with on the real crate.",
        note=_V["C16"]["note"], technique="Lean 4 theorems over unwinding paths (panic index universally quantified) + panic injection at every callback index on the real crate")
    CLAIMS["C18"]["text"] += (" || Vec part: after reserve(n)/with_capacity(n) cap >= len + n and pushes up to capacity do not reallocate "
                              "(capacity and contents compared with the RawVec model on growth workloads); amortised growth new_cap = "
                              "max(2*cap, required) (C13_reserve theorems in Props/C13).")
    CLAIMS["C19"]["text"] += (" || Vec/RawVec part: capacity arithmetic (checked_mul, isize::MAX guard, len+additional overflow) in the RawVec "
                              "model: reserve/try_reserve/with_capacity beyond the representable range end in Err/panic, never in a capacity "
                              "larger than what was reserved; boundary counts around usize::MAX/size on the real crate.")
except ImportError:
    pass
READY |= {"C13", "C15", "C16"}
