"""Texts for MANIFEST.json (what each check claims)."""
BASE_NOTE = ("Trusted: Lean kernel + axioms {propext, Classical.choice, Quot.sound}; the hand-written model is tied to the code "
             "by the differential correspondence run (sampling) and by the constants translator; rustc layout, core::ptr copy "
             "semantics, Layout::array and the global-allocator contract are modelled, not verified; 64-bit only.")
CLAIMS = {
    "C04": dict(
        text="Theorems (Lean): every pointer the fast path returns is aligned to the requested alignment and to MIN_ALIGN for all "
             "power-of-two alignments, sizes (0 included) and finger positions; constructors panic for unsupported MIN_ALIGN; the static "
             "empty chunk's alignment (regenerated from its repr attribute) is a multiple of 16. Correspondence: pointers returned by "
             "every allocation/grow/shrink flavour agree with the model on generated plans for MIN_ALIGN 1..16, with an alignment oracle "
             "on the real crate.",
        note=BASE_NOTE),
}
NOT_CLAIMED = {}

for _m in ("claims_vec", "claims_str", "claims_box", "claims_borrow", "claims_threads"):
    try:
        _mod = __import__(_m)
        CLAIMS.update(_mod.CLAIMS)
        NOT_CLAIMED.update(getattr(_mod, "NOT_CLAIMED", {}))
    except ImportError:
        pass
