"""Per-property configuration of ./check for the `str` family (bumpalo::collections::String)."""

STR_TRUSTED = [
    "Lean core's String.utf8EncodeChar is UTF-8 (the model's encoder is that function; Lean's Char = Rust's char = Unicode scalar value)",
    "core::str (from_utf8, Chars, char::encode_utf8, decode_utf16, str slicing panics) behave as documented; std::string::String run side by side is the reference for 'what std does'",
    "Vec<u8> growth (RawVec) and Splice are modelled at result level here (capacity only checked as capacity >= len); they belong to the vec family",
    "tools/extract_str.py: regex-level reader of UTF8_CHAR_WIDTH, TAG_CONT_U8 and of how drain/replace_range compute `n + 1`",
]

SPECS = {
    "C14": dict(
        family="str", lean_module="BumpVerif.Props.C14", level="proof",
        fields=["res", "bytes", "len", "capge"],
        nontrivial_ops=["s_push", "s_push_str", "s_pop", "s_insert", "s_insert_str", "s_remove", "s_truncate", "s_clear", "s_retain",
                        "s_drain", "s_replace_range", "s_split_off", "s_extend_chars", "s_extend_strs", "s_clone", "s_write", "s_format",
                        "s_into_bump_str", "s_from_iter", "d_lossy", "d_utf8", "d_utf16"],
        decoders=True, thorough_scale=60, trusted_extra=STR_TRUSTED,
        explanation="Theorems about the Lean model of string.rs / str/lossy.rs (validity invariant, refinement to List Char, panic conditions, "
                    "lossy decoder) + differential run: bumpalo String vs std String vs the model on generated programs, decoders vs std on all "
                    "byte strings of length <= 3 and structured longer ones.",
    ),
    # String part of C16 (a panicking `retain` closure must leave valid UTF-8).  Stand-alone entry the lead wraps into C16:
    # oracle lines carry property C16 (`oracle_prop`); `run(ctx)` works with ctx.prop == "C16" (lines kept as they are)
    # and with ctx.prop == "C16S" (./check C16S: lines re-labelled C16S).
    "C16S": dict(
        family="str", lean_module="BumpVerif.Proofs.StrPanic", level="proof", oracle_prop="C16",
        fields=["res", "bytes", "len"], ops=["s_retain"],
        nontrivial_ops=["s_retain"],
        str_jobs=[("retain", 200, 50), ("sweep", 12, 0), ("general", 60, 50)],
        decoders=False, thorough_scale=60, trusted_extra=STR_TRUSTED,
        explanation="Theorems: String::retain as the source has it (drop guard detected by the translator) leaves valid UTF-8 for every "
                    "closure answer list and every panic index, and every program continuing after such panics stays valid; without the guard "
                    "the statement is false (counterexample = F6 of 3.17.0).  Run: retain with a panic injected at every closure index; "
                    "str::from_utf8(as_bytes()) after catch_unwind; the model recomputes the bytes the crate leaves.",
    ),
    # String part of C18 ("a Vec/String with reserved capacity accepts that many elements without moving"): oracle lines carry
    # property C18; theorem: Props/C18Cap.lean (every growing call is RawVec::reserve(len, k) + k writes; no reallocation while
    # len + k <= capacity)
    "C18S": dict(
        family="str", lean_module="BumpVerif.Props.C18Cap", level="proof", oracle_prop="C18",
        fields=["res", "len", "capge"],
        nontrivial_ops=["s_with_cap", "s_reserve", "s_push", "s_push_str", "s_insert", "s_insert_str", "s_extend_chars", "s_extend_strs", "s_write"],
        str_jobs=[("build", 160, 50), ("general", 120, 50)],
        decoders=False, thorough_scale=60, trusted_extra=STR_TRUSTED,
        explanation="Theorem reserved_capacity_honoured (RawVec level: a growing call whose result fits the capacity does not reallocate) + run: "
                    "capacity() and as_ptr() of the bumpalo String before/after every growing call whose resulting length fits the old "
                    "capacity must be unchanged (oracle string-moved-within-capacity), with multi-byte pushes at every distance from the end "
                    "of the capacity.",
    ),
}
