#!/usr/bin/env python3
"""Function-body translator for the two helpers of `Splice::drop` in `impl Drain` (src/collections/vec.rs): `Drain::fill` and
`Drain::move_tail`.

State `s : RsM.VW` (the drained vector and the effects, as in the main translator's `vec` group).  The receiver's fields
`tail_start`, `tail_len` are parameters; `move_tail` returns the new `tail_start`.  `replace_with: &mut I` is an iterator the
*caller* owns (the model's `V.It`): it is threaded in and out — also when `next()` panics, because the caller's unwinding
(`Splice`'s fields are dropped after `Splice::drop`) needs it as advanced so far — so `fill` returns `(VW, It, Outcome Bool)`.
Rules:

  * `self.vec.as_mut()` is the threaded vector; `vec.len` reads / `vec.len += 1` writes its length (unchecked add: `bad` when it
    would wrap); pointers into the buffer are slot indices (`as_ptr().add(i)` = `i`);
  * `slice::from_raw_parts_mut(p.add(a), n)` is the slot range `[a, a + n)`; `for place in range` is a function recursive on
    the number of slots left, `place` counting up; `return` inside the loop leaves the function;
  * `replace_with.next()` is `RsM.it_next` (`none` = it panicked: the function unwinds, nothing of its own to clean up);
  * `ptr::write(place, x)` is `RsM.write`, `ptr::copy(p.add(a), p.add(b), n)` is `RsM.copy`;
  * `vec.buf.reserve(a, b)` is the *translated* `RawVec::reserve` (`Gen.Fn.rv_reserve`) on the vector;
  * the unchecked `a + b` / `a - b` on `usize` are `bad` when they would wrap.
"""
import os, sys
sys.path.insert(0, os.path.dirname(os.path.abspath(__file__)))
import rsparse
from rsparse import ParseError

FILE = "src/collections/vec.rs"
ANCHOR = "impl<'a, 'bump, T> Drain<'a, 'bump, T> {"
NAT, BOOL, UNIT, VEC, SLOT, RANGE, ITR, ELEM = "nat", "bool", "unit", "vec", "slot", "range", "itref", "elem"


class Untranslatable(Exception):
    pass


class T:
    def __init__(self, name, lean, with_iter):
        self.name, self.lean, self.with_iter = name, lean, with_iter
        self.n = 0
        self.defs = []

    def fresh(self, b):
        self.n += 1
        return f"{b}_{self.n}"

    def out(self, env, outcome):
        return f"(s, {env['replace_with'][0]}, {outcome})" if self.with_iter else f"(s, {outcome})"

    def bad(self, env, why):
        return self.out(env, f'Outcome.bad "{self.name}: {why}"')

    # pure values: (term, type)
    def V(self, e, env):
        k = e[0]
        if k in ("paren",): return self.V(e[1], env)
        if k == "int": return (str(e[1]), NAT)
        if k == "bool": return ("true" if e[1] else "false", BOOL)
        if k == "path" and len(e[1]) == 1 and e[1][0] in env: return env[e[1][0]]
        if k == "field":
            if e[1] == ("path", ["self"]) and ("self." + e[2]) in env: return env["self." + e[2]]
            if e[1] == ("path", ["self"]) and e[2] == "vec": return ("self", VEC)
            b, tb = self.V(e[1], env)
            if tb == VEC and e[2] == "len": return ("s.1.len", NAT)
            if tb == VEC and e[2] == "buf": return ("buf", "rawvec")
            raise Untranslatable(f"field .{e[2]}")
        if k == "mcall":
            b, tb = self.V(e[1], env)
            if e[2] == "as_mut" and tb == VEC and not e[3]: return (b, VEC)
            if e[2] in ("as_ptr", "as_mut_ptr") and tb == VEC and not e[3]: return ("0", SLOT)
            if e[2] == "add" and tb == SLOT and len(e[3]) == 1:
                a, ta = self.V(e[3][0], env)
                return (a if b == "0" else f"({b} + {a})", SLOT)
            raise Untranslatable(f"method .{e[2]} on {tb}")
        raise Untranslatable(f"value form {k}")

    # expressions that may branch: k(term, type, env)
    def X(self, e, env, k):
        kind = e[0]
        if kind == "bin" and e[1] in ("+", "-"):
            a, ta = self.V(e[2], env); b, tb = self.V(e[3], env)
            if ta != NAT or tb != NAT: raise Untranslatable("arithmetic")
            r = self.fresh("n")
            if e[1] == "+":
                return f"(if {a} + {b} < USIZE then\nlet {r} := {a} + {b};\n{k(r, NAT, env)}\nelse {self.bad(env, 'unchecked add wraps')})"
            return f"(if {b} ≤ {a} then\nlet {r} := {a} - {b};\n{k(r, NAT, env)}\nelse {self.bad(env, 'unchecked sub wraps')})"
        if kind == "call" and e[1][0] == "path":
            segs, args = e[1][1], e[2]
            if segs[-1] == "from_raw_parts_mut" and len(args) == 2:
                p, tp = self.V(args[0], env)
                if tp != SLOT: raise Untranslatable("slice base")
                return self.X(args[1], env, lambda n, tn, e2: k(f"({p}, {n})", RANGE, e2))
            if segs[-2:] == ["ptr", "write"] and len(args) == 2:
                p, tp = self.V(args[0], env); x, tx = self.V(args[1], env)
                if tp != SLOT or tx != ELEM: raise Untranslatable("ptr::write operands")
                return f"(match RsM.write c {p} {x} s with\n| (s, _) =>\n{k('()', UNIT, env)})"
            if segs[-2:] == ["ptr", "copy"] and len(args) == 3:
                a, ta = self.V(args[0], env); b, tb = self.V(args[1], env); n, tn = self.V(args[2], env)
                if ta != SLOT or tb != SLOT or tn != NAT: raise Untranslatable("ptr::copy operands")
                return f"(match RsM.copy c {a} {b} {n} s with\n| (s, _) =>\n{k('()', UNIT, env)})"
            raise Untranslatable(f"call of {'::'.join(segs)}")
        if kind == "mcall" and e[2] == "reserve" and len(e[3]) == 2:
            b, tb = self.V(e[1], env)
            if tb != "rawvec": raise Untranslatable("reserve receiver")
            a0, _ = self.V(e[3][0], env); a1, _ = self.V(e[3][1], env)
            return (f"(match RsM.liftV (Gen.Fn.rv_reserve c {a0} {a1}) s with\n| (s, Outcome.ok _) =>\n{k('()', UNIT, env)}\n"
                    f"| (s, Outcome.panic) => {self.out(env, 'Outcome.panic')}\n| (s, Outcome.err) => {self.out(env, 'Outcome.err')}\n"
                    f"| (s, Outcome.bad w) => {self.out(env, 'Outcome.bad w')}\n| (s, Outcome.envBad) => {self.out(env, 'Outcome.envBad')})")
        if kind == "return":
            v, tv = self.V(e[1], env)
            return self.out(env, f"Outcome.ok {v}")
        if kind == "iflet" and e[1][0] == "pts" and e[1][1] == ["Some"] and e[2][0] == "mcall" and e[2][2] == "next" \
                and e[2][1] == ("path", ["replace_with"]) and self.with_iter:
            it = env["replace_with"][0]
            it2, x = self.fresh("it"), self.fresh(e[1][2][0][1])
            e_some = dict(env); e_some["replace_with"] = (it2, ITR); e_some[e[1][2][0][1]] = (x, ELEM)
            e_none = dict(env); e_none["replace_with"] = (it2, ITR)
            return (f"(match RsM.it_next c {it} s with\n| (s, {it2}, none) => (s, {it2}, Outcome.panic)\n"
                    f"| (s, {it2}, some none) =>\n{self.B(e[4], e_none, k)}\n| (s, {it2}, some (some {x})) =>\n{self.B(e[3], e_some, k)})")
        if kind == "foriter":
            return self.FOR(e, env, k)
        if kind == "block":
            return self.B(e, env, k)
        v, tv = self.V(e, env)
        return k(v, tv, env)

    def FOR(self, e, env, k):
        _, pat, it, body = e
        if pat[0] != "pid" or it[0] != "path" or env.get(it[1][0], (None, None))[1] != RANGE:
            raise Untranslatable("for over this value")
        rng = env[it[1][0]][0]
        name = f"{self.lean}.loop"
        captured = [(ln, ty) for kk, (ln, ty) in env.items() if ty == NAT]
        cparams = " ".join(f"({ln} : Nat)" for ln, _ in captured)
        cargs = " ".join(ln for ln, _ in captured)
        rest, place, itp = self.fresh("rest"), self.fresh(pat[1]), self.fresh("it")
        envl = dict(env); envl[pat[1]] = (place, SLOT)
        if self.with_iter: envl["replace_with"] = (itp, ITR)
        again = lambda t_, ty_, e2: (f"(Gen.Fn.{name} c {cargs} {rest} ({place} + 1) {e2['replace_with'][0]} s)" if self.with_iter
                                     else f"(Gen.Fn.{name} c {cargs} {rest} ({place} + 1) s)")
        inner = self.B(body, envl, again)
        after = k("()", UNIT, envl)
        rty = "RsM.VW × V.It × Outcome Bool" if self.with_iter else "RsM.VW × Outcome Unit"
        itparam = f", {itp}" if self.with_iter else ""
        ittype = "V.It → " if self.with_iter else ""
        self.defs.append(f"def {name} (c : V.Cfg) {cparams} : Nat → Nat → {ittype}RsM.VW → {rty}\n"
                         f"  | 0, {place}{itparam}, s =>\n" + indent(after, 2) + f"\n  | {rest} + 1, {place}{itparam}, s =>\n" + indent(inner, 2) + "\n")
        itarg = f" {env['replace_with'][0]}" if self.with_iter else ""
        return f"(Gen.Fn.{name} c {cargs} {rng}.2 {rng}.1{itarg} s)"

    def B(self, blk, env, k):
        if blk[0] != "block": return self.X(blk, env, k)
        _, stmts, tail = blk

        def go(i, env_):
            if i == len(stmts):
                if tail is None: return k("()", UNIT, env_)
                return self.X(tail, env_, k)
            st = stmts[i]
            if st[0] == "let" and st[1][0] == "pid":
                def kl(t, ty, e2):
                    e3 = dict(e2)
                    if ty in (VEC, SLOT, RANGE, "rawvec") or t.startswith("s."):
                        if t.startswith("s."):      # a read of the threaded vector: bind it now
                            ln = self.fresh(st[1][1]); e3[st[1][1]] = (ln, ty)
                            return f"let {ln} := {t};\n{go(i + 1, e3)}"
                        e3[st[1][1]] = (t, ty)
                        return go(i + 1, e3)
                    ln = self.fresh(st[1][1]); e3[st[1][1]] = (ln, ty)
                    return f"let {ln} := {t};\n{go(i + 1, e3)}"
                return self.X(st[2], env_, kl)
            if st[0] == "assign":
                op, lhs, rhs = st[1], st[2], st[3]
                if lhs[0] == "field" and lhs[2] == "len" and self.V(lhs[1], env_)[1] == VEC and op == "+=":
                    r, _ = self.V(rhs, env_)
                    return (f"(if s.1.len + {r} < USIZE then\n(match RsM.set_len (s.1.len + {r}) s with\n| (s, _) =>\n{go(i + 1, env_)})\n"
                            f"else {self.bad(env_, 'unchecked add wraps')})")
                if lhs[0] == "field" and lhs[1] == ("path", ["self"]) and ("self." + lhs[2]) in env_ and op == "=":
                    r, tr = self.V(rhs, env_)
                    ln = self.fresh("self_" + lhs[2]); e2 = dict(env_); e2["self." + lhs[2]] = (ln, tr)
                    return f"let {ln} := {r};\n{go(i + 1, e2)}"
                raise Untranslatable("assignment")
            if st[0] == "expr":
                return self.X(st[1], env_, lambda t, ty, e2: go(i + 1, e2))
            raise Untranslatable(f"statement {st[0]}")
        return go(0, env)


def indent(text, base=1):
    out, depth = [], 0
    for line in text.split("\n"):
        line = line.strip()
        if not line: continue
        lead = 0
        for c in line:
            if c == ")": lead += 1
            else: break
        out.append("  " * (base + max(depth - lead, 0)) + line)
        depth += line.count("(") - line.count(")")
    return "\n".join(out)


HEADER = """import BumpVerif.Model.RsVecM
import BumpVerif.Gen.FnRawVec
/-! GENERATED by tools/rs2lean_splice.py from /repo/src/collections/vec.rs — do not edit.
`Drain::fill` and `Drain::move_tail`, the two helpers of `Splice::drop`. -/
set_option linter.unusedVariables false
namespace Gen.Fn
open Bump

"""


def translate_all(repo):
    report, out = {}, []
    src = rsparse.strip_comments(open(os.path.join(repo, FILE)).read())
    for name, lean, with_iter in (("fill", "drain_fill", True), ("move_tail", "drain_move_tail", False)):
        try:
            sig, body = rsparse.find_fn(src, name, 0, ANCHOR)
            t = T(name, lean, with_iter)
            env = {"self.tail_start": ("tail_start", NAT), "self.tail_len": ("tail_len", NAT)}
            if with_iter:
                env["replace_with"] = ("replace_with", ITR)
                text = t.B(body, env, lambda v, ty, e2: t.out(e2, f"Outcome.ok {v}"))
                head = f"def {lean} (c : V.Cfg) (tail_start tail_len : Nat) (replace_with : V.It) (s : RsM.VW) : RsM.VW × V.It × Outcome Bool :="
            else:
                env["extra_capacity"] = ("extra_capacity", NAT)
                text = t.B(body, env, lambda v, ty, e2: f"(s, Outcome.ok {e2['self.tail_start'][0]})")
                head = f"def {lean} (c : V.Cfg) (tail_start tail_len : Nat) (extra_capacity : Nat) (s : RsM.VW) : RsM.VW × Outcome Nat :="
            out.append("\n".join(t.defs) + f"/-- `fn {name}` (impl Drain) -/\n{head}\n" + indent(text) + "\n")
            report[lean] = "ok"
        except (ParseError, Untranslatable, KeyError, IndexError, TypeError) as ex:
            out.append(f"/- `{name}` ({lean}) could not be translated: {type(ex).__name__}: {ex} -/\n")
            report[lean] = f"untranslatable: {type(ex).__name__}: {ex}"
    return HEADER + "\n".join(out) + "\nend Gen.Fn\n", report


def run(repo, out_dir, write_if_changed):
    text, report = translate_all(repo)
    changed = write_if_changed(os.path.join(out_dir, "FnSplice.lean"), text)
    return {"fn_bodies_splice": report, "fn_splice_changed": changed}


if __name__ == "__main__":
    text, report = translate_all(os.environ.get("BV_REPO", "/repo"))
    print(text)
    for k, v in report.items():
        print(f"-- {k}: {v}")
