"""Per-property configuration of ./check."""

ARENA_ALL_FIELDS = ["res", "evt", "cap", "ab", "abm", "lim", "chunks", "it", "obs"]


def arena(module, profiles, fields, nontrivial, **kw):
    d = dict(family="arena", lean_module=module, profiles=profiles, fields=fields, nontrivial_ops=nontrivial, level="proof")
    d.update(kw)
    return d


SPECS = {
    "C01": arena("BumpVerif.Props.C01",
                 [("general", 480, 45, "some"), ("allocapi", 320, 45, "some"), ("init", 240, 40, "some"), ("resets", 160, 40, "none")],
                 ["res", "chunks", "obs"],
                 ["alloc", "val", "atw", "slice", "tfill", "aalloc", "afree", "agrow", "ashrink", "sendalloc", "reset"],
                 shape=True, placement=True, upward_only=True),
    "C02": arena("BumpVerif.Props.C02",
                 [("allocapi", 480, 45, "some"), ("general", 400, 45, "some"), ("init", 240, 40, "none")],
                 ["res"], ["agrow", "ashrink", "write", "val", "slice", "tfill", "atw", "afree"], placement=True),
    "C03": arena("BumpVerif.Props.C03",
                 [("resets", 480, 45, "some"), ("faults", 400, 45, "all"), ("general", 320, 45, "some")],
                 ["evt"], ["new", "reset", "drop", "alloc", "aalloc", "agrow", "sendalloc"], frees_only=True),
    "C04": arena("BumpVerif.Props.C04",
                 [("general", 480, 45, "some"), ("allocapi", 400, 45, "none"), ("sizes", 240, 40, "some")],
                 ["res"], ["alloc", "val", "atw", "slice", "tfill", "aalloc", "agrow", "ashrink", "sendalloc", "new"],
                 shape=True, ctor_probe=True, placement=True),
    "C06": arena("BumpVerif.Props.C06",
                 [("resets", 800, 45, "some"), ("limits", 240, 40, "none")],
                 ["res", "evt", "cap", "lim", "chunks", "it", "obs"], ["reset", "alloc", "val", "limit"], ops=["reset"]),
    "C07": arena("BumpVerif.Props.C07",
                 [("limits", 880, 45, "some"), ("resets", 240, 40, "none")],
                 ["evt", "res"], ["limit", "alloc", "val", "aalloc", "agrow", "new", "reset"]),
    "C08": arena("BumpVerif.Props.C08",
                 [("general", 480, 45, "some"), ("resets", 400, 45, "some"), ("limits", 240, 40, "none")],
                 ["ab", "abm"], ["new", "alloc", "reset", "limit", "aalloc", "agrow", "ashrink", "afree", "atw", "tfill"], placement=True),
    "C09": arena("BumpVerif.Props.C09",
                 [("faults", 800, 45, "all"), ("sizes", 400, 40, "some"), ("limits", 240, 40, "all")],
                 ["res", "evt"], ["alloc", "val", "atw", "slice", "aalloc", "agrow", "ashrink", "new", "sendalloc"], impl_failure_only=True),
    "C10": arena("BumpVerif.Props.C10",
                 [("uniform", 800, 45, "some"), ("general", 320, 45, "none"), ("init", 160, 40, "none")],
                 ["it"], ["alloc", "val", "atw", "tfill", "slice", "reset"], placement=True),
    "C11": arena("BumpVerif.Props.C11",
                 [("init", 1040, 45, "some"), ("uniform", 160, 40, "none")],
                 ["res", "cap", "evt"], ["atw", "tfill", "alloc"], ops=["atw", "tfill", "alloc"]),
    "C12": arena("BumpVerif.Props.C12",
                 [("allocapi", 1040, 50, "some"), ("general", 160, 40, "none")],
                 ["res", "cap"], ["aalloc", "afree", "agrow", "ashrink"], ops=["aalloc", "afree", "agrow", "ashrink"], placement=True),
    "C18": arena("BumpVerif.Props.C18",
                 [("capacity", 800, 45, "none"), ("general", 240, 45, "some")],
                 ["evt", "cap"], ["new", "alloc", "val", "slice"], no_limit_only=True, cap_overstate_only=True),
    "C19": arena("BumpVerif.Props.C19",
                 [("sizes", 1040, 40, "some")],
                 ["res", "evt"], ["new", "alloc", "slice", "tfill", "aalloc", "agrow"]),
}

# families built in their own modules (each defines SPECS: dict)
for _m in ("specs_vec", "specs_str", "specs_box", "specs_borrow", "specs_threads"):
    try:
        SPECS.update(__import__(_m).SPECS)
    except ImportError:
        pass
