"""Per-property configuration of ./check."""

ARENA_ALL_FIELDS = ["res", "evt", "cap", "ab", "abm", "lim", "chunks", "it", "obs"]


def arena(module, profiles, fields, nontrivial, **kw):
    d = dict(family="arena", lean_module=module, profiles=profiles, fields=fields, nontrivial_ops=nontrivial, level="proof")
    d.update(kw)
    return d


SPECS = {
    "C01": arena("BumpVerif.Props.C01",
                 [("general", 480, 45, "some"), ("allocapi", 320, 45, "some"), ("init", 240, 40, "some"), ("resets", 160, 40, "none")],
                 ["res", "chunks", "obs"],
                 ["alloc", "val", "atw", "slice", "tfill", "aalloc", "afree", "agrow", "ashrink", "sendalloc", "reset"],
                 shape=True, placement=True, upward_only=True),
    "C02": arena("BumpVerif.Props.C02",
                 [("allocapi", 480, 45, "some"), ("general", 400, 45, "some"), ("init", 240, 40, "none")],
                 ["res"], ["agrow", "ashrink", "write", "val", "slice", "tfill", "atw", "afree"], placement=True),
    "C03": arena("BumpVerif.Props.C03",
                 [("resets", 480, 45, "some"), ("faults", 400, 45, "all"), ("general", 320, 45, "some")],
                 ["evt"], ["new", "reset", "drop", "alloc", "aalloc", "agrow", "sendalloc"], frees_only=True),
    "C04": arena("BumpVerif.Props.C04",
                 [("general", 480, 45, "some"), ("allocapi", 400, 45, "none"), ("sizes", 240, 40, "some")],
                 ["res"], ["alloc", "val", "atw", "slice", "tfill", "aalloc", "agrow", "ashrink", "sendalloc", "new"],
                 shape=True, ctor_probe=True, placement=True),
    "C06": arena("BumpVerif.Props.C06",
                 [("resets", 800, 45, "some"), ("limits", 240, 40, "none")],
                 ["res", "evt", "cap", "lim", "chunks", "it", "obs"], ["reset", "alloc", "val", "limit"], ops=["reset"]),
    "C07": arena("BumpVerif.Props.C07",
                 [("limits", 880, 45, "some"), ("resets", 240, 40, "none")],
                 ["evt", "res"], ["limit", "alloc", "val", "aalloc", "agrow", "new", "reset"]),
    "C08": arena("BumpVerif.Props.C08",
                 [("general", 480, 45, "some"), ("resets", 400, 45, "some"), ("limits", 240, 40, "none")],
                 ["ab", "abm"], ["new", "alloc", "reset", "limit", "aalloc", "agrow", "ashrink", "afree", "atw", "tfill"], placement=True),
    "C09": arena("BumpVerif.Props.C09",
                 [("faults", 800, 45, "all"), ("sizes", 400, 40, "some"), ("limits", 240, 40, "all")],
                 ["res", "evt"], ["alloc", "val", "atw", "slice", "aalloc", "agrow", "ashrink", "new", "sendalloc"], impl_failure_only=True),
    "C10": arena("BumpVerif.Props.C10",
                 [("uniform", 800, 45, "some"), ("general", 320, 45, "none"), ("init", 160, 40, "none")],
                 ["it"], ["alloc", "val", "atw", "tfill", "slice", "reset"], placement=True, shape=True),
    "C11": arena("BumpVerif.Props.C11",
                 [("init", 1040, 45, "some"), ("uniform", 160, 40, "none")],
                 ["res", "cap", "evt"], ["atw", "tfill", "alloc"], ops=["atw", "tfill", "alloc"]),
    "C12": arena("BumpVerif.Props.C12",
                 [("allocapi", 1040, 50, "some"), ("general", 160, 40, "none")],
                 ["res", "cap"], ["aalloc", "afree", "agrow", "ashrink"], ops=["aalloc", "afree", "agrow", "ashrink"], placement=True),
    "C18": arena("BumpVerif.Props.C18",
                 [("capacity", 800, 45, "none"), ("general", 240, 45, "some")],
                 ["evt", "cap"], ["new", "alloc", "val", "slice"], no_limit_only=True, cap_overstate_only=True),
    "C19": arena("BumpVerif.Props.C19",
                 [("sizes", 1040, 40, "some")],
                 ["res", "evt"], ["new", "alloc", "slice", "tfill", "aalloc", "agrow"]),
}

# families built in their own modules (each defines SPECS: dict)
for _m in ("specs_vec", "specs_str", "specs_box", "specs_borrow", "specs_threads"):
    try:
        SPECS.update(__import__(_m).SPECS)
    except ImportError:
        pass

# ---------------------------------------------------------------------------------------------
# composite properties (several families); PARTS are run by tools/families/multi.py
# ---------------------------------------------------------------------------------------------
import copy as _copy
PARTS = {}


def _part(key, spec, **over):
    d = _copy.deepcopy(spec)
    d.update(over)
    PARTS[key] = d


try:
    import specs_vec as _v, specs_box as _b, specs_str as _s
    _part("C15V", _v.SPECS["C15"])
    _part("C16V", _v.SPECS["C16"])
    _part("C15B", _b.SPECS["C15B"])
    _part("C16B", _b.SPECS["C16B"])
    _part("C16S", _s.SPECS["C16S"])
    _part("C18S", _s.SPECS["C18S"])
    # Vec/RawVec parts of C18 (reserve then push without moving, amortised growth) and C19 (capacity overflow):
    # the vec family's growth / bounds profiles with the capacity field compared against the RawVec model
    _part("C18V", _v.SPECS["C13"], profiles=[("growth", 900, 45), ("general", 300, 45), ("copy", 300, 40)], fields=["cap", "len", "res"],
          quick_release=[], partial=[], boundary=False)
    _part("C19V", _v.SPECS["C13"], profiles=[("bounds", 900, 45), ("growth", 300, 45), ("zst", 300, 40)], fields=["res", "cap", "len"],
          partial=[], boundary=True)
    _part("C18A", SPECS["C18"])
    _part("C19A", SPECS["C19"])
    _part("C16A", arena("BumpVerif.Props.C16A", [("panics", 600, 40, "some")], ["res", "cap", "chunks", "it", "evt"],
                        ["pfill", "patw", "alloc"], ops=["pfill", "patw"]))
    _part("C15A", arena("BumpVerif.Props.C16A", [("panics", 300, 40, "none"), ("resets", 200, 40, "none")], ["res", "evt"],
                        ["pfill", "patw", "reset", "drop"], ops=["pfill", "reset", "drop"]))
    # C13 stays the vec family's own spec; its pure growth-policy field belongs to C18
    SPECS["C13"] = _copy.deepcopy(_v.SPECS["C13"])
    SPECS["C13"]["fields"] = [f for f in SPECS["C13"]["fields"] if f != "cap"]   # exact capacity values are C18's business
    SPECS["C15"] = dict(family="multi", level="proof", parts=["C15V", "C15B", "C15A"],
                        lean_modules=["BumpVerif.Props.C15", "BumpVerif.Props.C17", "BumpVerif.Props.C16A"],
                        drivers=["Driver.VecMain", "Driver.BoxMain", "Driver.Main"])
    SPECS["C16"] = dict(family="multi", level="proof", parts=["C16V", "C16S", "C16B", "C16A"],
                        lean_modules=["BumpVerif.Props.C16", "BumpVerif.Proofs.StrPanic", "BumpVerif.Props.C17", "BumpVerif.Props.C16A"],
                        drivers=["Driver.VecMain", "Driver.StrMain", "Driver.BoxMain", "Driver.Main"])
    SPECS["C18"] = dict(family="multi", level="proof", parts=["C18A", "C18V", "C18S"],
                        lean_modules=["BumpVerif.Props.C18", "BumpVerif.Props.C13", "BumpVerif.Props.C18Cap"],
                        drivers=["Driver.Main", "Driver.VecMain", "Driver.StrMain"])
    SPECS["C19"] = dict(family="multi", level="proof", parts=["C19A", "C19V"],
                        lean_modules=["BumpVerif.Props.C19", "BumpVerif.Props.C13"], drivers=["Driver.Main", "Driver.VecMain"])
except ImportError:
    pass


# ---------------------------------------------------------------------------------------------
# function bodies regenerated from /repo/src by tools/rs2lean.py: the equivalence theorems (generated body = hand
# model) that each property's theorems rest on are obligations of that property
# ---------------------------------------------------------------------------------------------
_G = "BumpVerif.Props.GenFn"
GEN_MODS = {
    "C01": ["Fast", "Realloc", "Rewind", "NewChunk", "Slow", "Glue"], "C02": ["Realloc", "Rewind", "Typed"], "C03": ["Details", "Reset", "NewChunk", "Slow", "Chunks"], "C04": ["Arith", "Fast", "Realloc", "Ctor"],
    "C06": ["Bytes", "Fast", "Reset", "Chunks"], "C07": ["Limit", "Details", "Reset", "NewChunk", "Slow", "Glue"], "C08": ["Bytes", "Details", "Reset", "NewChunk", "Iter", "Chunks"],
    "C09": ["Arith", "Fast", "Details", "Realloc", "NewChunk", "Slow", "Ctor", "FwdCore"], "C10": ["Footer", "Rewind", "Iter", "Typed"], "C11": ["Footer", "Realloc", "Rewind", "Typed"], "C12": ["Realloc", "Glue"],
    "C13": ["RawVec", "Vec", "VecDedup", "VecDrain", "VecIntoIter", "VecFilter", "VecCopy", "Splice", "SpliceDrop", "Slices", "FwdVec"], "C15": ["Vec", "VecDedup", "VecDrain", "VecIntoIter", "VecFilter", "Splice", "SpliceDrop", "Box", "FwdVec"], "C16": ["Vec", "VecDedup", "VecDrain", "VecIntoIter", "VecFilter", "Splice", "SpliceDrop", "Str", "FwdVec", "FwdStr"], "C14": ["Lossy", "Str", "StrFwd", "FwdStr"], "C17": ["Box"], "C18": ["Details", "Fast", "Bytes", "RawVec", "Vec", "VecCopy", "Slow", "Ctor", "Glue", "StrFwd"], "C19": ["Arith", "Details", "RawVec", "Ctor", "Slices", "StrFwd", "FwdCore"], "C20": ["Footer"],
}
for _p, _ms in GEN_MODS.items():
    if _p not in SPECS:
        continue
    _sp = SPECS[_p]
    _base = _sp.get("lean_modules") or ([_sp["lean_module"]] if _sp.get("lean_module") else [])
    _sp["lean_modules"] = list(_base) + [_G + m for m in _ms if _G + m not in _base]

# composite operations outside the Op alphabet (Model/ArenaExt.lean): their theorems are obligations of C01, C03, C11
for _p in ("C01", "C03", "C11"):
    if _p in SPECS and "BumpVerif.Props.ArenaExtProps" not in SPECS[_p]["lean_modules"]:
        SPECS[_p]["lean_modules"].append("BumpVerif.Props.ArenaExtProps")
