#!/usr/bin/env python3
"""Function-body translator for `src/collections/string.rs`: Rust -> Lean over byte lists (`Model/Str.lean`).

State `s : RsS.SB = Bytes × Nat`: the byte vector's buffer and its `len` (capacity is not modelled: `reserve(n)` makes `n`
zero bytes available after `len`).  Results are `RsS.SB × Outcome value`.  Rules:

  * `usize` is `Nat`; the unchecked `a - b` yields `bad` when it would underflow, `a + b` is not checked (lengths of byte
    strings that exist in memory);
  * a `char` is carried with its encoded length (`Char × Nat`), so `ch.len_utf8()` is a projection;
    `ch.encode_utf8(..).as_bytes()` is `Str.encChar`;
  * text primitives of `str` (not translated: std): `self.chars().rev().next()` = `RsS.last_char`,
    `self[i..].chars().next()` = `RsS.char_at` (the slicing panics off a char boundary),
    `s.get_unchecked(a..b).chars().next().unwrap()` = `RsS.char_unchecked`, `is_char_boundary` = `Str.isCharBoundary`;
  * `self.vec.{push, extend_from_slice(_copy), truncate, set_len, reserve, clear, split_off, len}` and
    `ptr::copy(self.vec.as_ptr().add(a), self.vec.as_mut_ptr().add(b), n)` / `ptr::copy(bytes.as_ptr(), …, n)` are the
    byte-list steps `RsS.*` (`Str.copyWithin` is the memmove);
  * a closure `f(ch)` is data: `ans k` is the answer of its `k`-th call, `panicAt = some k` makes that call panic; the
    guard struct nested in `retain` is two mutable locals, its `Drop::drop` a translated function that runs at
    `drop(guard)` and when the closure unwinds;
  * `assert!` / `panic!` / `expect` are `Outcome.panic`, `debug_assert!` is `bad`.
"""
import os, sys
sys.path.insert(0, os.path.dirname(os.path.abspath(__file__)))
import rsparse
from rsparse import ParseError

FILE = "src/collections/string.rs"
IMPL = "impl<'bump> String<'bump> {"


class Untranslatable(Exception):
    pass


NAT, BOOL, BYTES, CH, OPTCH, UNIT, U8, BD, DRAIN = "nat", "bool", "bytes", "ch", "optch", "unit", "u8", "bd", "drain"
CHARS, STRS = "chars", "strs"
UNITS, DECODED, RCH = "units", "decoded", "rch"     # `&[u16]`; what `decode_utf16` yields (a list of `Result<char, _>`); one such item      # what an iterator of `char` / of `&str` yields, as a list

FUNCS = [
    # rust name, anchor, lean name, params [(rust name, type)], return type
    ("len", IMPL, "str_len", [], NAT),
    ("is_empty", IMPL, "str_is_empty", [], BOOL),
    ("push", IMPL, "str_push", [("ch", CH)], UNIT),
    ("push_str", IMPL, "str_push_str", [("string", BYTES)], UNIT),
    ("pop", IMPL, "str_pop", [], OPTCH),
    ("truncate", IMPL, "str_truncate", [("new_len", NAT)], UNIT),
    ("remove", IMPL, "str_remove", [("idx", NAT)], CH),
    ("insert_bytes", IMPL, "str_insert_bytes", [("idx", NAT), ("bytes", BYTES)], UNIT),
    ("insert", IMPL, "str_insert", [("idx", NAT), ("ch", CH)], UNIT),
    ("insert_str", IMPL, "str_insert_str", [("idx", NAT), ("string", BYTES)], UNIT),
    ("split_off", IMPL, "str_split_off", [("at", NAT)], BYTES),
    ("clear", IMPL, "str_clear", [], UNIT),
    ("drop", "Drop for SetLenOnDrop<'a, 'bump>", "str_retain_guard_drop", [("self.idx", NAT), ("self.del_bytes", NAT)], UNIT),
    ("retain", IMPL, "str_retain", [("f", "closure")], UNIT),
    ("drain", IMPL, "str_drain", [("range", "range")], DRAIN),
    ("drop", "Drop for Drain<'a, 'bump>", "str_drain_drop", [("self.start", NAT), ("self.end", NAT)], UNIT),
    ("replace_range", IMPL, "str_replace_range", [("#ovf", "ovf"), ("range", "range"), ("replace_with", BYTES)], UNIT),
    ("extend", "Extend<char> for String<'bump>", "str_extend_chars", [("iter", CHARS), ("#hint", "hint")], UNIT),
    ("extend", "Extend<&'a str> for String<'bump>", "str_extend_strs", [("iter", STRS)], UNIT),
    ("extend", "Extend<&'a char> for String<'bump>", "str_extend_char_refs", [("iter", CHARS), ("#hint", "hint")], UNIT),
    ("extend", "Extend<String<'bump>> for String<'bump>", "str_extend_bstrings", [("iter", STRS)], UNIT),
    ("extend", "Extend<core_alloc::string::String> for String<'bump>", "str_extend_strings", [("iter", STRS)], UNIT),
    ("extend", "Extend<Cow<'a, str>> for String<'bump>", "str_extend_cows", [("iter", STRS)], UNIT),
    ("clone_from", "Clone for String<'bump>", "str_clone_from", [("source", BYTES)], UNIT),
    ("from_iter_in", IMPL, "str_from_iter_in", [("iter", CHARS)], UNIT),
    ("from_str_in", IMPL, "str_from_str_in", [("s", BYTES)], UNIT),
    ("add", "Add<&'a str> for String<'bump>", "str_add", [("other", BYTES)], UNIT),
    ("add_assign", "AddAssign<&'a str> for String<'bump>", "str_add_assign", [("other", BYTES)], UNIT),
    ("write_str", "fmt::Write for String<'bump>", "str_write_str", [("s", BYTES)], UNIT),
    ("write_char", "fmt::Write for String<'bump>", "str_write_char", [("c", CH)], UNIT),
    ("from_utf16_in", IMPL, "str_from_utf16_in", [("v", UNITS)], UNIT),
]
LEAN_TY = {NAT: "Nat", BOOL: "Bool", BYTES: "Str.Bytes", CH: "(Char × Nat)", OPTCH: "(Option (Char × Nat))", UNIT: "Unit", U8: "UInt8",
           DRAIN: "(Nat × Nat)", CHARS: "(List Char)", STRS: "(List Str.Bytes)", UNITS: "(List Nat)"}
BY_NAME = {}


class T:
    def __init__(self, name, lean):
        self.name, self.lean = name, lean
        self.n = 0
        self.lifted = []
        self.cleanup = None      # (lean fn name, [rust keys]) of a live guard

    def fresh(self, base):
        self.n += 1
        return f"{base.replace('.', '_')}_{self.n}"

    def bad(self, why):
        return f'(s, Outcome.bad "{self.name}: {why}")'

    def panic(self, env):
        if self.cleanup is not None:
            fn, keys = self.cleanup
            return f"(RsS.stateOf (Gen.Fn.{fn} {' '.join(env[k][0] for k in keys)} s), Outcome.panic)"
        return "(s, Outcome.panic)"

    def bindc(self, call, ty, env, k, can_panic=False):
        r = self.fresh("r")
        body = k(r, ty, env)
        if can_panic and self.cleanup is not None:
            fn, keys = self.cleanup
            return (f"(RsS.bindU ({call} s) (fun s => RsS.stateOf (Gen.Fn.{fn} {' '.join(env[kk][0] for kk in keys)} s)) fun s {r} =>\n{body})")
        return f"(RsS.bind ({call} s) fun s {r} =>\n{body})"

    # ---- expressions, CPS: k(term, type, env) ----
    def X(self, e, env, k):
        kind = e[0]
        if kind in ("paren", "ref", "deref"):
            return self.X(e[1], env, k)
        if kind == "unsafe":
            return self.B(e[1], env, k)
        if kind == "block":
            return self.B(e, env, k)
        if kind == "int":
            return k(str(e[1]), NAT, env)
        if kind == "bool":
            return k("true" if e[1] else "false", BOOL, env)
        if kind == "arrayrep":
            return k("()", UNIT, env)
        if kind == "path":
            if len(e[1]) == 1 and e[1][0] in env:
                return k(env[e[1][0]][0], env[e[1][0]][1], env)
            if e[1] == ["self"]:
                return k("self", "self", env)
            raise Untranslatable(f"path {e[1]}")
        if kind == "cast":
            def kc(t, ty, env_):
                if ty == CH and e[2].replace(" ", "") == "u8":
                    return k(f"{t}.1.toNat.toUInt8", U8, env_)
                return k(t, ty, env_)
            return self.X(e[1], env, kc)
        if kind == "field":
            key = None
            if e[1] == ("path", ["self"]) and ("self." + e[2]) in env: key = "self." + e[2]
            if e[1][0] == "path" and len(e[1][1]) == 1 and (e[1][1][0] + "." + e[2]) in env: key = e[1][1][0] + "." + e[2]
            if key: return k(env[key][0], env[key][1], env)
            if e[2] == "vec" and e[1][0] == "path" and len(e[1][1]) == 1 and env.get(e[1][1][0], (None, None))[1] == BYTES:
                return k(env[e[1][1][0]][0], BYTES, env)       # the byte vector of another string
            if e[2] in ("vec", "s", "string"):
                return k("self", "self", env)
            raise Untranslatable(f"field .{e[2]}")
        if kind == "un" and e[1] == "!":
            return self.X(e[2], env, lambda t, ty, env_: k(f"(!{t})", BOOL, env_))
        if kind == "bin":
            op = e[1]

            def ka(a, ta, e1):
                def kb(b, tb, e2):
                    if op == "-":
                        return f"(if {b} ≤ {a} then\n{k(f'({a} - {b})', NAT, e2)}\nelse {self.bad('unchecked sub wraps')})"
                    if op == "+": return k(f"({a} + {b})", NAT, e2)
                    if op in ("<", ">", "<=", ">="):
                        return k(f"(decide ({a} {{'<':'<','>':'>','<=':'≤','>=':'≥'}}[op] {b}))".replace("{'<':'<','>':'>','<=':'≤','>=':'≥'}[op]", {'<': '<', '>': '>', '<=': '≤', '>=': '≥'}[op]), BOOL, e2)
                    if op == "==": return k(f"({a} == {b})", BOOL, e2)
                    if op == "&&": return k(f"({a} && {b})", BOOL, e2)
                    raise Untranslatable(f"operator {op}")
                return self.X(e[3], e1, kb)
            return self.X(e[2], env, ka)
        if kind == "try":
            def kt(t, ty, env_):
                if ty != OPTCH: raise Untranslatable("`?` on this type")
                x = self.fresh("x")
                return f"(match {t} with\n| none => (s, Outcome.ok none)\n| some {x} =>\n{k(x, CH, env_)})"
            return self.X(e[1], env, kt)
        if kind == "macro":
            if e[1] == "panic": return self.panic(env)
            if e[1] in ("assert", "debug_assert"):
                def km(t, ty, env_):
                    other = self.panic(env_) if e[1] == "assert" else self.bad("debug_assert!")
                    return f"(if {t} then\n{k('()', UNIT, env_)}\nelse {other})"
                return self.X(e[2][0], env, km)
            raise Untranslatable(f"macro {e[1]}!")
        if kind == "if":
            _, c, then, els = e

            def kc(tc, tyc, env_):
                a = self.X(then, dict(env_), lambda t, ty, e2: k(t, ty, merge(env_, e2)))
                b = self.X(els, dict(env_), lambda t, ty, e2: k(t, ty, merge(env_, e2))) if els is not None else k("()", UNIT, env_)
                return f"(if {tc} then\n{a}\nelse\n{b})"
            return self.X(c, env, kc)
        if kind == "match":
            _, scrut, arms = e

            def ks(t, ty, env_):
                if ty == OPTCH:
                    out = []
                    for pat, g, body in arms:
                        if pat[0] == "pts" and pat[1] == ["Some"]:
                            x = self.fresh(pat[2][0][1]); e2 = dict(env_); e2[pat[2][0][1]] = (x, CH)
                            out.append(f"| some {x} =>\n{self.X(body, e2, lambda t_, ty_, e3: k(t_, ty_, merge(env_, e3)))}")
                        elif pat == ("ppath", ["None"]):
                            out.append(f"| none =>\n{self.X(body, env_, k)}")
                        else: raise Untranslatable("pattern")
                    return f"(match {t} with\n" + "\n".join(out) + ")"
                if ty == NAT:
                    out = None
                    for pat, g, body in reversed(arms):
                        bt = self.X(body, env_, k)
                        if pat[0] == "pwild": out = bt
                        elif pat[0] == "plit": out = f"(if ({t} == {pat[1]}) then\n{bt}\nelse\n{out})"
                        else: raise Untranslatable("pattern")
                    return out
                if ty == BD:
                    out = []
                    for pat, g, body in arms:
                        if pat[0] == "pts" and pat[1][-1] in ("Included", "Excluded"):
                            nm = pat[2][0][1][1] if pat[2][0][0] == "pref" else pat[2][0][1]
                            x = self.fresh(nm); e2 = dict(env_); e2[nm] = (x, NAT)
                            out.append(f"| .{'incl' if pat[1][-1] == 'Included' else 'excl'} {x} =>\n{self.X(body, e2, lambda t_, ty_, e3: k(t_, ty_, merge(env_, e3)))}")
                        elif pat[0] == "ppath" and pat[1][-1] == "Unbounded":
                            out.append(f"| .unbounded =>\n{self.X(body, env_, k)}")
                        else: raise Untranslatable("pattern")
                    return f"(match {t} with\n" + "\n".join(out) + ")"
                raise Untranslatable(f"match on {ty}")
            return self.X(scrut, env, ks)
        if kind == "struct":
            if e[1][-1] == "Drain":
                d = dict(e[2])
                return self.X(d["start"], env, lambda a, ta, e1: self.X(d["end"], e1, lambda b, tb, e2: self.X(d["iter"], e2, lambda c, tc, e3: k(f"({a}, {b})", DRAIN, e3))))
            raise Untranslatable(f"struct literal {e[1]}")
        if kind == "index":
            # self[a..] / self[a..b] : &str slicing (panics off a char boundary or out of range)
            if e[2][0] != "range": raise Untranslatable("index")
            lo, hi = e[2][1], e[2][2]

            def kl(a, ta, e1):
                if hi is None:
                    return k(("strfrom", a), "strslice", e1)
                return self.X(hi, e1, lambda b, tb, e2: k(("strrange", a, b), "strslice", e2))
            return self.X(lo, env, kl)
        if kind == "call":
            f, args = e[1], e[2]
            if f[0] == "path" and len(f[1]) == 1 and f[1][0] in env and env[f[1][0]][1] == "closure":
                cnt_key = f[1][0] + "__calls"

                def kf(a, ta, env_):
                    cnt = env_[cnt_key][0]
                    c2 = self.fresh("calls"); e2 = dict(env_); e2[cnt_key] = (c2, NAT)
                    return (f"let {c2} := {cnt} + 1;\n(if panicAt = some {cnt} then {self.panic(e2)} else\n{k(f'(ans {cnt})', BOOL, e2)})")
                return self.X(args[0], env, kf)
            if f[0] != "path": raise Untranslatable("call")
            segs = f[1]
            if segs[-2:] in (["ptr", "copy"], ["ptr", "copy_nonoverlapping"]) and len(args) == 3:
                src, dst, n = args
                if segs[-1] == "copy_nonoverlapping" and not (src[0] == "mcall" and src[2] == "as_ptr" and src[1][0] == "path"):
                    raise Untranslatable("copy_nonoverlapping inside the buffer")

                def off(p):      # self.vec.as_ptr().add(x)  ->  x ; bytes.as_ptr() -> ("ext", bytes)
                    if p[0] == "mcall" and p[2] == "add" and p[1][0] == "mcall" and p[1][2] in ("as_ptr", "as_mut_ptr"):
                        return ("buf", p[3][0])
                    if p[0] == "mcall" and p[2] in ("as_ptr", "as_mut_ptr") and p[1][0] == "field" and p[1][2] == "vec":
                        return ("buf", ("int", 0))
                    if p[0] == "mcall" and p[2] in ("as_ptr", "as_mut_ptr") and p[1][0] == "path":
                        return ("ext", p[1])
                    raise Untranslatable("pointer expression")
                so, do = off(src), off(dst)
                if do[0] != "buf": raise Untranslatable("copy destination")

                def kd(d, td, e1):
                    def kn(nn, tn, e2):
                        if so[0] == "buf":
                            return self.X(so[1], e2, lambda sv, ts, e3: self.bindc(f"RsS.copy_within {sv} {d} {nn}", UNIT, e3, k))
                        return self.X(so[1], e2, lambda sv, ts, e3: self.bindc(f"RsS.copy_in {sv} {d} {nn}", UNIT, e3, k))
                    return self.X(n, e1, kn)
                return self.X(do[1], env, kd)
            if segs == ["drop"] and len(args) == 1 and args[0] == ("path", ["guard"]) and self.cleanup is not None:
                fn, keys = self.cleanup
                saved = self.cleanup
                self.cleanup = None
                out = self.bindc(f"Gen.Fn.{fn} {' '.join(env[kk][0] for kk in keys)}", UNIT, env, k)
                self.cleanup = saved
                return out
            if segs[-1] == "from_utf8_unchecked" and len(args) == 1:
                return self.X(args[0], env, k)
            if segs == ["String", "new_in"] and len(args) == 1:
                return f"let s : RsS.SB := (([] : Str.Bytes), 0);\n{k('self', 'self', env)}"
            if segs == ["String", "with_capacity_in"] and len(args) == 2:
                return self.X(args[0], env, lambda n, tn, e1: f"let s : RsS.SB := (([] : Str.Bytes), 0);\n" + self.bindc(f"RsS.reserve {n}", UNIT, e1, lambda r, tr, e2: k("self", "self", e2)))
            if segs == ["Ok"] and len(args) == 1:
                return self.X(args[0], env, k)
            if segs == ["decode_utf16"] and len(args) == 1:
                return self.X(args[0], env, lambda u, tu, e1: k(f"(RsS.decode_utf16 {u})", DECODED, e1))
            if segs == ["Err"] and len(args) == 1:
                return k("__err__", "errval", env)
            if segs == ["FromUtf16Error"]:
                return k("()", UNIT, env)
            if segs == ["Some"] and len(args) == 1:
                return self.X(args[0], env, lambda t, ty, env_: k(f"(some {t})", OPTCH, env_))
            raise Untranslatable(f"call of {'::'.join(segs)}")
        if kind == "mcall":
            recv, name, args = e[1], e[2], e[3]
            # chains on text
            if name == "next" and recv[0] == "mcall" and recv[2] == "rev" and recv[1][0] == "mcall" and recv[1][2] == "chars":
                return self.bindc("RsS.last_char", OPTCH, env, k)
            if name == "unwrap" and recv[0] == "mcall" and recv[2] == "next" and recv[1][0] == "mcall" and recv[1][2] == "chars" \
                    and recv[1][1][0] == "mcall" and recv[1][1][2] == "get_unchecked" and recv[1][1][3][0][0] == "range":
                rg = recv[1][1][3][0]
                return self.X(rg[1], env, lambda a, ta, e1: self.X(rg[2], e1, lambda b, tb, e2: self.bindc(f"RsS.char_unchecked {a} {b}", CH, e2, k)))
            if name == "next" and recv[0] == "mcall" and recv[2] == "chars":
                def ksl(t, ty, env_):
                    if ty == "strslice" and t[0] == "strfrom":
                        return self.bindc(f"RsS.char_at {t[1]}", OPTCH, env_, k, can_panic=True)
                    raise Untranslatable("chars() of this receiver")
                return self.X(recv[1], env, ksl)
            if name == "chars" and not args:
                def ksl2(t, ty, env_):
                    if ty == "strslice" and t[0] == "strrange":      # `self[a..b].chars()`: only the slicing check matters here
                        return self.bindc(f"RsS.slice_check {t[1]} {t[2]}", UNIT, env_, k, can_panic=True)
                    raise Untranslatable("chars() of this receiver")
                return self.X(recv, env, ksl2)
            if name == "expect" and recv[0] == "mcall" and recv[2] == "checked_add" and recv[3] == [("int", 1)]:
                def kx(t, ty, env_):
                    x = self.fresh("x")
                    return f"(match checkedAdd {t} 1 with\n| some {x} =>\n{k(x, NAT, env_)}\n| none => {self.panic(env_)})"
                return self.X(recv[1], env, kx)

            def kr(t, ty, env_):
                def kargs(i, acc, e1):
                    if i == len(args):
                        return fin(acc, e1)
                    return self.X(args[i], e1, lambda a, ta, e2: kargs(i + 1, acc + [(a, ta)], e2))

                def fin(pa, e1):
                    if ty == "self":
                        if name in ("len",) and not pa: return k("s.2", NAT, e1)
                        if name == "is_char_boundary" and len(pa) == 1: return k(f"(Str.isCharBoundary (s.1.take s.2) {pa[0][0]})", BOOL, e1)
                        if name == "as_mut_vec" and not pa: return k("self", "self", e1)
                        if name == "push" and len(pa) == 1 and pa[0][1] == U8: return self.bindc(f"RsS.push {pa[0][0]}", UNIT, e1, k)
                        if name in ("extend_from_slice", "extend_from_slice_copy") and len(pa) == 1: return self.bindc(f"RsS.extend {pa[0][0]}", UNIT, e1, k)
                        if name == "truncate" and len(pa) == 1: return self.bindc(f"RsS.truncate {pa[0][0]}", UNIT, e1, k)
                        if name == "set_len" and len(pa) == 1: return self.bindc(f"RsS.set_len {pa[0][0]}", UNIT, e1, k)
                        if name == "reserve" and len(pa) == 1: return self.bindc(f"RsS.reserve {pa[0][0]}", UNIT, e1, k)
                        if name == "clear" and not pa: return self.bindc("RsS.truncate 0", UNIT, e1, k)
                        if name == "split_off" and len(pa) == 1: return self.bindc(f"RsS.split_off {pa[0][0]}", BYTES, e1, k, can_panic=True)
                        if name == "drain" and len(pa) == 1 and pa[0][1] == "rangeval":
                            return self.bindc(f"RsS.vec_drain {pa[0][0][0]} {pa[0][0][1]}", UNIT, e1, k, can_panic=True)
                        if name == "splice" and len(pa) == 2 and pa[0][1] == "range" and pa[1][1] == BYTES and "#ovf" in e1:
                            # `Vec::<u8>::splice(range, bytes)` dropped at once: `Vec::drain(range)` (its own `n + 1`, checked only
                            # under the build profile `ovf` unless the source says otherwise) and the replacement in the gap
                            return self.bindc(f"RsS.vec_splice ovf {pa[0][0]} {pa[1][0]}", UNIT, e1, k, can_panic=True)
                        if name == "extend" and len(pa) == 1 and pa[0][1] == CHARS and "#hint" in e1:
                            # `Extend<char>`; `.cloned()` of a `&char` iterator reports the same size hint
                            return self.bindc(f"Gen.Fn.str_extend_chars {pa[0][0]} hint", UNIT, e1, k, can_panic=True)
                        if name == "clone_from" and len(pa) == 1 and pa[0][1] == BYTES:
                            # `Vec<u8>` does not override `Clone::clone_from`: std's default `*self = source.clone()`
                            return self.bindc(f"RsS.vec_clone_from {pa[0][0]}", UNIT, e1, k)
                        if name in BY_NAME:
                            return self.bindc(f"Gen.Fn.{BY_NAME[name]} {' '.join((a + '.1') if ta == CH else a for a, ta in pa)}", UNIT, e1, k, can_panic=True)
                    if ty in (CHARS, STRS) and name == "into_iter" and not pa: return k(t, ty, e1)
                    if ty == CHARS and name == "cloned" and not pa: return k(t, ty, e1)
                    if ty == UNITS and name in ("iter", "cloned") and not pa: return k(t, UNITS, e1)
                    if ty == UNITS and name == "len" and not pa: return k(f"{t}.length", NAT, e1)
                    if ty == CH and name == "len_utf8" and not pa: return k(f"{t}.2", NAT, e1)
                    if ty == CH and name == "encode_utf8": return k(f"(Str.encChar {t}.1)", BYTES, e1)
                    if ty == BYTES and name in ("as_bytes", "bytes") and not pa: return k(t, BYTES, e1)
                    if ty == BYTES and name == "len" and not pa: return k(f"{t}.length", NAT, e1)
                    if ty == "range" and name in ("start_bound", "end_bound"): return k(f"{t}.{1 if name == 'start_bound' else 2}", BD, e1)
                    raise Untranslatable(f"method .{name} on {ty}")
                return kargs(0, [], env_)
            return self.X(recv, env, kr)
        if kind == "range":
            return self.X(e[1], env, lambda a, ta, e1: self.X(e[2], e1, lambda b, tb, e2: k((a, b), "rangeval", e2)))
        if kind == "while":
            return self.WHILE(e, env, k)
        if kind == "foriter":
            return self.FORLIST(e, env, k)
        if kind == "return":
            return self.X(e[1], env, lambda t, ty, e1: "(s, Outcome.err)" if ty == "errval" else f"(s, Outcome.ok {t})")
        if kind == "iflet" and e[1][0] == "pts" and e[1][1] == ["Ok"] and e[2][0] == "path" and env.get(e[2][1][0], (None, None))[1] == RCH:
            item = env[e[2][1][0]][0]
            c0, ch = self.fresh("c0"), self.fresh(e[1][2][0][1])
            e_ok = dict(env); e_ok[e[1][2][0][1]] = (ch, CH)
            a = self.X(e[3], e_ok, lambda t, ty, e2: k(t, ty, merge(env, e2)))
            b = self.X(e[4], dict(env), lambda t, ty, e2: k(t, ty, merge(env, e2)))
            return f"(match {item} with\n| some {c0} =>\nlet {ch} := ({c0}, (Str.encChar {c0}).length);\n{a}\n| none =>\n{b})"
        if kind == "tuple" and not e[1]:
            return k("()", UNIT, env)
        raise Untranslatable(f"expression form {kind}")

    def WHILE(self, e, env, k):
        _, cond, body = e
        muts = sorted(kk for kk in env if kk.startswith("guard.") or kk.endswith("__calls"))
        name = f"{self.lean}.loop"
        fuel, fuel1 = self.fresh("fuel"), self.fresh("fuel")
        envl = dict(env)
        params = []
        for m in muts:
            ln = self.fresh(m); envl[m] = (ln, env[m][1]); params.append(f"({ln} : {LEAN_TY[env[m][1]]})")
        captured = [(ln, ty) for kk, (ln, ty) in env.items() if kk not in muts and ty in LEAN_TY]
        cap_params = " ".join(f"({ln} : {LEAN_TY[ty]})" for ln, ty in captured)
        cap_args = " ".join(ln for ln, _ in captured)
        again = lambda t, ty, e2: f"(Gen.Fn.{name} ans panicAt {cap_args} {fuel1} {' '.join(e2[m][0] for m in muts)} s)"

        def kc(tc, tyc, ec):
            return f"(if {tc} then\n{self.X(body, ec, again)}\nelse\n{k('()', UNIT, ec)})"
        inner = self.X(cond, envl, kc)
        self.lifted.append(f"def {name} (ans : Nat → Bool) (panicAt : Option Nat) {cap_params} ({fuel} : Nat) {' '.join(params)} (s : RsS.SB) : RsS.SB × Outcome Unit :=\n"
                           + indent(f"(match {fuel} with\n| 0 => {self.bad('loop fuel exhausted')}\n| {fuel1} + 1 =>\n{inner})") + "\n")
        return f"(Gen.Fn.{name} ans panicAt {cap_args} (s.2 + 1) {' '.join(env[m][0] for m in muts)} s)"

    def FORLIST(self, e, env, k):
        """`for x in iter { … }` over what the iterator yields (a list): a function recursive on that list"""
        _, pat, it, body = e
        if pat[0] == "pid" and it[0] == "call" and it[1] == ("path", ["decode_utf16"]):
            # the body may `return`: the loop function carries what follows the loop in its exit branch
            def kd(lst, lty, e1):
                name = f"{self.lean}.loop"
                x, rest = self.fresh("x"), self.fresh("rest")
                envl = dict(e1); envl[pat[1]] = (x, RCH)
                again = lambda t, ty, e2: f"(Gen.Fn.{name} {rest} s)"
                inner = self.B(body, envl, again) if body[0] == "block" else self.X(body, envl, again)
                after = k("()", UNIT, e1)
                self.lifted.append(f"def {name} : List (Option Char) → RsS.SB → RsS.SB × Outcome Unit\n  | [], s =>\n" + indent(after, 2)
                                   + f"\n  | {x} :: {rest}, s =>\n" + indent(inner, 2) + "\n")
                return f"(Gen.Fn.{name} {lst} s)"
            return self.X(it, env, kd)
        if pat[0] != "pid" or it[0] != "path" or it[1][0] not in env or env[it[1][0]][1] not in (CHARS, STRS):
            raise Untranslatable("for over this value")
        lst, lty = env[it[1][0]]
        name = f"{self.lean}.loop"
        x, rest = self.fresh("x"), self.fresh("rest")
        envl = dict(env)
        pre = ""
        if lty == CHARS:
            ch = self.fresh(pat[1])
            pre = f"let {ch} := ({x}, (Str.encChar {x}).length);\n"
            envl[pat[1]] = (ch, CH)
        else:
            envl[pat[1]] = (x, BYTES)
        again = lambda t, ty, e2: f"(Gen.Fn.{name} {rest} s)"
        inner = pre + (self.B(body, envl, again) if body[0] == "block" else self.X(body, envl, again))
        self.lifted.append(f"def {name} : {LEAN_TY[lty]} → RsS.SB → RsS.SB × Outcome Unit\n  | [], s => (s, Outcome.ok ())\n  | {x} :: {rest}, s =>\n"
                           + indent(inner, 2) + "\n")
        return f"(RsS.bind (Gen.Fn.{name} {lst} s) fun s _ =>\n{k('()', UNIT, env)})"

    def B(self, blk, env, k):
        _, stmts, tail = blk
        outer = env

        def go(i, env_):
            if i == len(stmts):
                if tail is None:
                    return k("()", UNIT, merge(outer, env_))
                return self.X(tail, env_, lambda t, ty, e2: k(t, ty, merge(outer, e2)))
            st = stmts[i]
            if st[0] == "let" and st[1][0] == "ptuple" and st[2][0] == "mcall" and st[2][2] == "size_hint" and "#hint" in env_ \
                    and st[1][1][0][0] == "pid" and all(q[0] == "pwild" for q in st[1][1][1:]):
                # `let (lower, _) = iterator.size_hint()`: the lower bound an iterator reports is a parameter
                e2 = dict(env_); e2[st[1][1][0][1]] = env_["#hint"]
                return go(i + 1, e2)
            if st[0] == "let" and st[1][0] == "pid" and st[2] is not None:
                name = st[1][1]
                if st[2][0] == "struct" and st[2][1][-1] == "SetLenOnDrop":
                    e2 = dict(env_)
                    for f, fe in st[2][2]:
                        if f == "s": continue
                        if fe[0] != "int": raise Untranslatable("guard initialiser")
                        ln = self.fresh(name + "." + f); e2[name + "." + f] = (ln, NAT)
                    self.cleanup = ("str_retain_guard_drop", [name + ".idx", name + ".del_bytes"])
                    pre = "".join(f"let {e2[name + '.' + f][0]} := {fe[1]};\n" for f, fe in st[2][2] if f != "s")
                    return pre + go(i + 1, e2)

                def kl(t, ty, e2):
                    if ty in ("self", "strslice") or isinstance(t, tuple):
                        e3 = dict(e2); e3[name] = (t, ty)
                        return go(i + 1, e3)
                    ln = self.fresh(name); e3 = dict(e2); e3[name] = (ln, ty)
                    return f"let {ln} := {t};\n{go(i + 1, e3)}"
                return self.X(st[2], env_, kl)
            if st[0] == "assign":
                op, lhs, rhs = st[1], st[2], st[3]
                if lhs[0] == "field" and lhs[1][0] == "path" and (lhs[1][1][0] + "." + lhs[2]) in env_:
                    key = lhs[1][1][0] + "." + lhs[2]
                elif lhs[0] == "path" and lhs[1][0] in env_:
                    key = lhs[1][0]
                else:
                    raise Untranslatable(f"assignment to {lhs}")
                val = rhs if op == "=" else ("bin", op[:-1], lhs, rhs)

                def ka(t, ty, e2):
                    ln = self.fresh(key); e3 = dict(e2); e3[key] = (ln, ty)
                    return f"let {ln} := {t};\n{go(i + 1, e3)}"
                return self.X(val, env_, ka)
            if st[0] == "expr":
                return self.X(st[1], env_, lambda t, ty, e2: go(i + 1, e2))
            raise Untranslatable(f"statement {st[0]}")
        return go(0, env)

    def function(self, sig, body, params, ret):
        env, ps = {}, []
        pre = ""
        for n, ty in params:
            if ty == "ovf":
                env[n] = ("ovf", "ovf"); ps.append("(ovf : Bool)")
            elif ty == "hint":
                env[n] = ("hint", NAT); ps.append("(hint : Nat)")
            elif ty == "closure":
                env[n] = (n, "closure"); ps.append("(ans : Nat → Bool) (panicAt : Option Nat)")
                env[n + "__calls"] = ("calls_0", NAT); pre += "let calls_0 := 0;\n"
            elif ty == "range":
                env[n] = (n, "range"); ps.append(f"({n} : Str.Bd × Str.Bd)")
            elif ty == CH:
                env[n] = (n, CH); ps.append(f"({n}0 : Char)"); pre += f"let {n} := ({n}0, (Str.encChar {n}0).length);\n"
            else:
                ln = n.replace("self.", "self_")
                if ln in ("at", "end", "from", "in", "then", "do", "s"): ln += "_"
                env[n] = (ln, ty); ps.append(f"({ln} : {LEAN_TY[ty]})")

        def kret(t, ty, env_):
            if ret == UNIT: return "(s, Outcome.ok ())"
            return f"(s, Outcome.ok {t})"
        text = self.X(body, env, kret)
        head = f"def {self.lean} {' '.join(ps)} (s : RsS.SB) : RsS.SB × Outcome {LEAN_TY[ret]} :="
        return "\n".join(self.lifted) + f"/-- `fn {self.name}` -/\n{head}\n" + indent(pre + text) + "\n"


def merge(outer, inner):
    """leave a scope: keep the current bindings of what the outer scope knows"""
    return {k: inner.get(k, v) for k, v in outer.items()}


def indent(text, base=1):
    out, depth = [], 0
    for line in text.split("\n"):
        line = line.strip()
        if not line: continue
        lead = 0
        for c in line:
            if c == ")": lead += 1
            else: break
        out.append("  " * (base + max(depth - lead, 0)) + line)
        depth += line.count("(") - line.count(")")
    return "\n".join(out)


HEADER = """import BumpVerif.Model.RsStr
/-! GENERATED by tools/rs2lean_str.py from /repo/src/collections/string.rs — do not edit.
Function bodies of `collections::String`, translated over byte lists (see the translator for the rules). -/
set_option linter.unusedVariables false
namespace Gen.Fn
open Bump

"""


def translate_all(repo):
    report, out = {}, []
    src = rsparse.strip_comments(open(os.path.join(repo, FILE)).read())
    BY_NAME.clear()
    for name, anchor, lean, params, ret in FUNCS:
        try:
            sig, body = rsparse.find_fn(src, name, 0, anchor)
            out.append(T(name, lean).function(sig, body, params, ret))
            report[lean] = "ok"
            if anchor == IMPL:
                BY_NAME[name] = lean
        except (ParseError, Untranslatable, KeyError, IndexError, TypeError) as ex:
            out.append(f"/- `{name}` ({lean}) could not be translated: {type(ex).__name__}: {ex} -/\n")
            report[lean] = f"untranslatable: {type(ex).__name__}: {ex}"
    return HEADER + "\n".join(out) + "\nend Gen.Fn\n", report


def run(repo, out_dir, write_if_changed):
    text, report = translate_all(repo)
    changed = write_if_changed(os.path.join(out_dir, "FnStr.lean"), text)
    return {"fn_bodies_str": report, "fn_str_changed": changed}


if __name__ == "__main__":
    text, report = translate_all(os.environ.get("BV_REPO", "/repo"))
    print(text)
    for k, v in report.items():
        print(f"-- {k}: {v}")
