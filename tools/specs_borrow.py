"""./check configuration of the borrow family (property C05)."""

SPECS = {
    "C05": {
        "family": "borrow",
        "lean_module": "BumpVerif.Props.C05",
        "level": "proof",
        "explanation": (
            "Theorems in Lean over a signature model: Gen/Api.lean (receiver kind, lifetime carried by the return type, unsafe, "
            "struct fields, explicit auto-trait impls, Drop impls) is regenerated from /repo/src on every run; a loan-liveness "
            "checker for straight-line client programs over one arena and the structural Send/Sync rule are evaluated on it. "
            "Rejection theorems hold for every program containing the misuse pattern (arbitrary statements before, between and "
            "after), acceptance theorems for every program of the accepted shape; GoodSigs of the generated table and the "
            "auto-trait facts are decided on the generated table. rustc's borrow checker itself is not modelled: the model is "
            "validated against it on generated probe pairs (misuse / one-edit twin) compiled against the working tree."),
        "partial": [
            "rustc's borrow checker is validated against on probes, not modelled in full: the theorems are about `accepts` of "
            "Model/Borrow.lean, and the agreement of `accepts` with rustc is sampled (every probe of every run must agree in "
            "verdict and error-code class)",
            "shared_arena_carriers_not_send_partial: the full statement (no public type through which a shared arena is reached "
            "is Send) is false on the pinned tree for vec::Drain, vec::Splice, string::Drain (explicit Send impls); Splice's "
            "destructor allocates from the arena, which is finding F10 (probe thread/splice-send)",
            "second-level borrows (using a Vec while its Drain is alive) and closures capturing the arena are outside the "
            "model language",
        ],
        "trusted_extra": [
            "tools/extract_more.py: header-level reader of struct / impl / fn items (brace and angle matching, lifetime "
            "elision rules for return types); it refuses shapes it cannot read",
            "the borrow model faithfully abstracts rustc's NLL on the straight-line programs of its language (validated on "
            "the rustc probes of each run only)",
            "rustc 1.95 as the reference for accept/reject and error codes of the probes",
        ],
        "assumptions": [
            "client code is safe Rust (no unsafe blocks, no transmute of lifetimes); iter_allocated_chunks_raw and the "
            "from_raw constructors are outside the property",
        ],
    },
}
