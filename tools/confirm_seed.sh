#!/bin/bash
# usage: tools/confirm_seed.sh <seed-dir> [miri]
# Independently confirms a seeded change in a scratch worktree of /repo's HEAD (never in /repo):
#   1. the patch applies and the crate's pinned suite passes with it (default features),
#   2. the demonstration FAILS with the change,
#   3. the demonstration PASSES without it.
# Prints one line: CONFIRMED / NOT-CONFIRMED <why>; writes <seed-dir>/confirm.log; removes the worktree and its build output.
SEED=$(realpath "$1"); MODE=${2:-native}
ID=$(basename "$SEED")
WT=/tmp/cs_$ID
export CARGO_NET_OFFLINE=true
export RUSTFLAGS="-A dangerous_implicit_autorefs"
LOG=$SEED/confirm.log
: > "$LOG"
git -C /repo worktree remove --force $WT >/dev/null 2>&1; rm -rf $WT
git -C /repo worktree add --detach $WT >/dev/null 2>&1 || { echo "$ID NOT-CONFIRMED worktree"; exit 2; }
cleanup() { git -C /repo worktree remove --force $WT >/dev/null 2>&1; rm -rf $WT; }
trap cleanup EXIT
cd $WT
if ! git apply "$SEED/patch.diff" 2>>"$LOG"; then echo "$ID NOT-CONFIRMED patch-does-not-apply"; exit 2; fi
# 1. pinned suite with the change
if ! (unset RUSTFLAGS; cargo test --workspace --no-fail-fast --offline) >>"$LOG" 2>&1; then echo "$ID NOT-CONFIRMED suite-fails-with-change"; exit 1; fi
DEMO=$(ls "$SEED"/demo_*.rs | head -1); NAME=$(basename "$DEMO" .rs)
FEATS="collections,boxed,std,allocator-api2"
if grep -q "mod tests\|#\[test\]" "$DEMO"; then KIND=test; mkdir -p tests; cp "$DEMO" tests/; else KIND=example; mkdir -p examples; cp "$DEMO" examples/; fi
run_demo() {
  if [ "$MODE" = miri ]; then
    if [ $KIND = test ]; then cargo +nightly miri test --offline --features $FEATS --test $NAME; else cargo +nightly miri run --offline --features $FEATS --example $NAME; fi
  else
    if [ $KIND = test ]; then cargo test --offline --features $FEATS --test $NAME; else cargo run --offline --features $FEATS --example $NAME; fi
  fi
}
echo "=== demo WITH change" >>"$LOG"
if [ "$MODE" = release ]; then
  if cargo run --release --offline --features $FEATS --example $NAME >>"$LOG" 2>&1; then echo "$ID NOT-CONFIRMED demo-passes-with-change"; exit 1; fi
elif run_demo >>"$LOG" 2>&1; then echo "$ID NOT-CONFIRMED demo-passes-with-change"; exit 1; fi
git apply -R "$SEED/patch.diff"
echo "=== demo WITHOUT change" >>"$LOG"
if [ "$MODE" = release ]; then
  if ! cargo run --release --offline --features $FEATS --example $NAME >>"$LOG" 2>&1; then echo "$ID NOT-CONFIRMED demo-fails-without-change"; exit 1; fi
elif ! run_demo >>"$LOG" 2>&1; then echo "$ID NOT-CONFIRMED demo-fails-without-change"; exit 1; fi
echo "$ID CONFIRMED ($KIND, $MODE)"
