#!/usr/bin/env python3
"""Function-body translator for `Vec::extend_from_slices_copy` (src/collections/vec.rs) — the site of defect F11.

State `s : RsM.VW` (the vector and the effects, as in the main translator's `vec` group); `slices: &[&[T]]` is a
`List (List (Option V.Elem))` (the slots of each source slice).  The grammar is narrow on purpose — anything else is refused:

  * `let x = <expr>;`, expression statements, `unsafe { … }` blocks;
  * `slices.iter().try_fold(init, |acc, x| <pure option expr>)`: a lambda-lifted function recursive on the list, the accumulator
    threaded, leaving at the first `None` (this is where the total of the lengths is computed: `checked_add` is `checkedAdd`,
    so the translation of a plain `sum()` or of `+` would be a different — wrapping or `bad` — definition and the theorem fails);
  * `<option>.expect(..)`: `None` is a panic of the function (nothing of its own to clean up);
  * `slices.iter().for_each(|x| { stmts })`: a lambda-lifted function recursive on the list, the state threaded;
  * `self.reserve(n)`, `self.extend_from_slice_copy_unchecked(x)`: the *translated* `Gen.Fn.vec_reserve`,
    `Gen.Fn.vec_extend_from_slice_copy_unchecked`; `x.len()` is the list's length.
"""
import os, sys
sys.path.insert(0, os.path.dirname(os.path.abspath(__file__)))
import rsparse
from rsparse import ParseError

FILE = "src/collections/vec.rs"
NAT, OPTNAT, XS, XSS, UNIT = "nat", "optnat", "xslice", "xslices", "unit"
LEAN_TY = {NAT: "Nat", XS: "(List (Option V.Elem))", XSS: "(List (List (Option V.Elem)))"}
CALLEES = {"reserve": ("Gen.Fn.vec_reserve", [NAT]), "extend_from_slice_copy_unchecked": ("Gen.Fn.vec_extend_from_slice_copy_unchecked", [XS])}


class Untranslatable(Exception):
    pass


class T:
    def __init__(self, lean):
        self.lean, self.n, self.defs = lean, 0, []

    def fresh(self, b):
        self.n += 1
        return f"{b}_{self.n}"

    # pure expressions -> (term, type)
    def P(self, e, env):
        k = e[0]
        if k == "paren":
            return self.P(e[1], env)
        if k == "int":
            return str(e[1]), NAT
        if k == "path" and len(e[1]) == 1 and e[1][0] in env:
            return env[e[1][0]]
        if k == "mcall":
            recv, name, args = e[1], e[2], e[3]
            if name == "len" and not args:
                t, ty = self.P(recv, env)
                if ty in (XS, XSS):
                    return f"{t}.length", NAT
            if name == "checked_add" and len(args) == 1:
                (a, ta), (b, tb) = self.P(recv, env), self.P(args[0], env)
                if ta == NAT and tb == NAT:
                    return f"(checkedAdd {a} {b})", OPTNAT
            if name == "try_fold" and len(args) == 2 and recv[0] == "mcall" and recv[2] == "iter" and not recv[3] \
                    and args[1][0] == "closure" and len(args[1][1]) == 2 and all(p[0] == "pid" for p in args[1][1]):
                lst, tl = self.P(recv[1], env)
                init, ti = self.P(args[0], env)
                if tl != XSS or ti != NAT:
                    raise Untranslatable("try_fold over this receiver")
                acc, x = args[1][1][0][1], args[1][1][1][1]
                env2 = dict(env)
                env2[acc], env2[x] = (acc, NAT), (x, XS)
                body, tb = self.P(args[1][2], env2)
                if tb != OPTNAT:
                    raise Untranslatable("try_fold whose closure is not an Option<usize>")
                caps = [(n, t) for n, (ln, t) in env.items() if t in LEAN_TY and ln in body and n not in (acc, x)]
                self.nf = getattr(self, "nf", 0) + 1
                name_ = f"{self.lean}.fold_{self.nf}"
                cps = " ".join(f"({ln} : {LEAN_TY[t]})" for ln, t in caps)
                nxt = self.fresh("t")
                self.defs.append(
                    f"/-- `iter().try_fold(init, |{acc}, {x}| …)`: left to right, leaving at the first `None` -/\n"
                    f"def {name_} {cps} : {LEAN_TY[XSS]} → Nat → Option Nat\n"
                    f"  | [], {acc} => some {acc}\n"
                    f"  | {x} :: rest, {acc} =>\n    match {body} with\n    | none => none\n"
                    f"    | some {nxt} => {name_} {' '.join(ln for ln, _ in caps)} rest {nxt}\n")
                return f"({name_} {' '.join(ln for ln, _ in caps)} {lst} {init})", OPTNAT
        raise Untranslatable(f"expression {k} {e[2] if k == 'mcall' else ''}")

    # statements in CPS over the state `s`
    def S(self, stmts, tail, env, k):
        items = list(stmts) + ([("expr", tail)] if tail is not None else [])

        def go(i, env_):
            if i == len(items):
                return k(env_)
            st = items[i]
            if st[0] == "let" and st[1][0] == "pid" and st[2] is not None:
                name, init = st[1][1], st[2]
                if init[0] == "mcall" and init[2] in ("expect", "unwrap"):
                    t, ty = self.P(init[1], env_)
                    if ty != OPTNAT:
                        raise Untranslatable("expect of a non-option")
                    ln = self.fresh(name)
                    e2 = dict(env_)
                    e2[name] = (ln, NAT)
                    return f"(match {t} with\n| none => (s, Outcome.panic)\n| some {ln} =>\n{go(i + 1, e2)})"
                t, ty = self.P(init, env_)
                if ty != NAT:
                    raise Untranslatable("let of this type")
                ln = self.fresh(name)
                e2 = dict(env_)
                e2[name] = (ln, ty)
                return f"let {ln} := {t};\n{go(i + 1, e2)}"
            if st[0] == "expr":
                return self.X(st[1], env_, lambda e2: go(i + 1, e2))
            raise Untranslatable(f"statement {st[0]}")
        return go(0, env)

    def X(self, e, env, k):
        if e[0] == "unsafe":
            return self.X(e[1], env, k)
        if e[0] == "block":
            return self.S(e[1], e[2], env, k)
        if e[0] == "mcall" and e[1] == ("path", ["self"]) and e[2] in CALLEES:
            fn, tys = CALLEES[e[2]]
            if len(e[3]) != len(tys):
                raise Untranslatable(f"arity of {e[2]}")
            args = []
            for a, want in zip(e[3], tys):
                t, ty = self.P(a, env)
                if ty != want:
                    raise Untranslatable(f"argument of {e[2]}")
                args.append(t)
            return f"(RsM.bindW ({fn} c {' '.join(args)} s) fun s _ =>\n{k(env)})"
        if e[0] == "mcall" and e[2] == "for_each" and len(e[3]) == 1 and e[1][0] == "mcall" and e[1][2] == "iter" and not e[1][3] \
                and e[3][0][0] == "closure" and len(e[3][0][1]) == 1 and e[3][0][1][0][0] == "pid":
            lst, tl = self.P(e[1][1], env)
            if tl != XSS:
                raise Untranslatable("for_each over this receiver")
            x = e[3][0][1][0][1]
            self.ne = getattr(self, "ne", 0) + 1
            name_ = f"{self.lean}.each_{self.ne}"
            env2 = {x: (x, XS)}        # the closure captures `self` only
            body = self.X(e[3][0][2], env2, lambda e2: f"({name_} c rest s)")
            self.defs.append(
                f"/-- `iter().for_each(|{x}| …)` -/\n"
                f"def {name_} (c : V.Cfg) : {LEAN_TY[XSS]} → RsM.VW → RsM.VW × Outcome Unit\n"
                f"  | [], s => (s, Outcome.ok ())\n  | {x} :: rest, s =>\n" + indent(body, 2) + "\n")
            return f"(RsM.bindW ({name_} c {lst} s) fun s _ =>\n{k(env)})"
        raise Untranslatable(f"expression statement {e[0]} {e[2] if e[0] == 'mcall' else ''}")


def indent(text, base=1):
    out, depth = [], 0
    for line in text.split("\n"):
        line = line.strip()
        if not line:
            continue
        lead = 0
        for ch in line:
            if ch == ")": lead += 1
            else: break
        out.append("  " * max(depth - lead + base, base) + line)
        depth += line.count("(") - line.count(")")
    return "\n".join(out)


HEADER = """import BumpVerif.Gen.FnVec
import BumpVerif.Gen.FnVecCopy
/-! GENERATED by tools/rs2lean_slices.py from /repo/src/collections/vec.rs — do not edit.
`Vec::extend_from_slices_copy`: the total of the slice lengths (site of defect F11), one reservation, the unchecked copies. -/
set_option linter.unusedVariables false
namespace Gen.Fn
open Bump

"""


def translate_all(repo):
    report = {}
    lean = "vec_extend_from_slices_copy"
    try:
        src = rsparse.strip_comments(open(os.path.join(repo, FILE)).read())
        sig, body = rsparse.find_fn(src, "extend_from_slices_copy", 0, None)
        if [p[0] for p in sig["params"]] != ["self", "slices"] or sig["params"][1][1].replace(" ", "") != "&[&[T]]":
            raise Untranslatable("signature")
        t = T(lean)
        text = t.X(body, {"slices": ("slices", XSS)}, lambda env: "(s, Outcome.ok ())")
        out = "\n".join(t.defs) + f"\n/-- `src/collections/vec.rs`: `fn extend_from_slices_copy` -/\ndef {lean} (c : V.Cfg) (slices : {LEAN_TY[XSS]}) (s : RsM.VW) : RsM.VW × Outcome Unit :=\n" + indent(text) + "\n"
        report[lean] = "ok"
    except (ParseError, Untranslatable, KeyError, IndexError, TypeError) as ex:
        out = f"/- `extend_from_slices_copy` could not be translated: {type(ex).__name__}: {ex} -/\n"
        report[lean] = f"untranslatable: {type(ex).__name__}: {ex}"
    return HEADER + out + "\nend Gen.Fn\n", report


def run(repo, out_dir, write_if_changed):
    text, report = translate_all(repo)
    changed = write_if_changed(os.path.join(out_dir, "FnSlices.lean"), text)
    return {"fn_bodies_slices": report, "fn_slices_changed": changed}


if __name__ == "__main__":
    text, report = translate_all(os.environ.get("BV_REPO", "/repo"))
    print(text)
    for k, v in report.items():
        print(f"-- {k}: {v}")
