"""MANIFEST text of the borrow family (property C05)."""
CLAIMS = {
    "C05": dict(
        text=(
            "Theorems (Lean, over a signature model regenerated from /repo/src on every run): for every allocation method of Bump, "
            "every constructor of Vec/String/Box/RawVec and iter_allocated_chunks, every straight-line client program in which "
            "the result (or a value derived from it: drain, into_iter, into_bump_slice, into_bump_str, leak, as_slice, bump(), "
            "ChunkIter::next ...) is used after reset, after starting a chunk iteration, after drop(b), after the end of b's "
            "scope, after moving b, or is returned from the function owning b, is rejected by the loan-liveness checker - with "
            "arbitrary statements before, between and after (induction over the program, not samples); allocation / queries / "
            "container construction while a chunk iterator (or a chunk it yielded) is still used are rejected; containers with a "
            "destructor reject the invalidation even without a later use. Accepted: any number of allocations and containers "
            "alive at once, moving an idle arena, a result outliving the source it was copied from. The only hypothesis about the "
            "crate is GoodSigs (allocation methods take &self and return the receiver's lifetime with no other lifetime; reset "
            "and iter_allocated_chunks take &mut self; constructors tie the result to the &Bump argument; the carrier types "
            "have a lifetime parameter tied to a field; no safe &self method hands out a chunk iterator), decided on the "
            "generated table. Auto traits, decided on the generated struct table by the structural rule with explicit impls "
            "overriding: Bump is Send and not Sync; &Bump is not Send; Vec, String, RawVec, FromUtf8Error, DrainFilter, "
            "ChunkIter, ChunkRawIter are neither; Box<T> and vec::IntoIter<T> are Send/Sync iff T is. "
            "Validation against the compiler: generated probe programs (each misuse with a twin differing by one edit; "
            "about 60 pairs quick, 600 thorough, covering every public type that carries the arena lifetime) are compiled by "
            "rustc against the rlib built from the working tree; verdict and error-code class must equal the model's; a misuse "
            "that compiles is reported with the program as the failing input."),
        note=(
            "PARTIAL: proved over the signature model; rustc's borrow checker itself is validated against on the probes of "
            "each run, not modelled in full. The statement 'no public type reaching a shared arena is Send' is proved with three "
            "named exceptions (vec::Drain, vec::Splice, string::Drain); vec::Splice being Send is a genuine defect (F10: its "
            "destructor allocates from the arena on the receiving thread; Miri reports the data race), exhibited by the probe "
            "thread/splice-send and listed as a known finding. Trusted: Lean kernel + {propext, Classical.choice, Quot.sound}; "
            "tools/extract_more.py (header-level reader, lifetime elision rules); rustc 1.95 as the reference."),
        technique="machine-checked proof (Lean 4) over a generated signature model + differential validation against rustc on generated compile-time probes",
    ),
}
