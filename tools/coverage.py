#!/usr/bin/env python3
"""Which functions of the crate are inside the machine-checked tie, and which are only reached through the harness?

For every `fn` item of the modelled source files this prints one of

  translated+proved   the body is regenerated into Gen/Fn*.lean on every run and a theorem of Props/GenFn*.lean mentions the
                      generated definition (so a change of the body breaks a proof obligation or changes what is proved);
  translated          regenerated, but no equivalence theorem mentions it (should not happen: reported as a gap);
  facts               not translated; constants / flags / signatures of it are regenerated (Gen/Consts, Gen/Api, Gen/Str*, Gen/Box*);
  harness-only        reached only by the differential harnesses (model written by hand, correspondence checked by running).

usage: tools/coverage.py [--json]      (reads BV_REPO or /repo; runs the translators in memory, writes nothing under lean/)
"""
import json, os, re, sys
sys.path.insert(0, os.path.dirname(os.path.abspath(__file__)))
ROOT = os.path.dirname(os.path.dirname(os.path.abspath(__file__)))
REPO = os.environ.get("BV_REPO", "/repo")
FILES = ["src/lib.rs", "src/boxed.rs", "src/collections/raw_vec.rs", "src/collections/vec.rs", "src/collections/string.rs",
         "src/collections/str/lossy.rs"]


def stripped(path):
    import rsparse
    return rsparse.strip_comments(open(path).read())


def fn_line(text, name, nth, after):
    """line of the `fn name` the translators' `find_fn(src, name, nth, after)` picks"""
    start = 0
    if after:
        start = text.find(after)
        if start < 0:
            return None
    ms = [m for m in re.finditer(r"\bfn\s+%s\b" % re.escape(name), text) if m.start() >= start]
    if len(ms) <= nth:
        return None
    return text.count("\n", 0, ms[nth].start()) + 1


def fn_items(path):
    """(name, line, enclosing impl header or '') of every fn item, tests excluded"""
    text = stripped(path)
    cut = text.find("#[cfg(test)]\nmod ")
    if cut >= 0:
        text = text[:cut] + "\n" * text[cut:].count("\n")
    out, impl_stack = [], []
    depth = 0
    for ln, line in enumerate(text.split("\n"), 1):
        m = re.match(r"\s*(unsafe\s+)?impl\b(.*)", line)
        if m and "{" in line:
            impl_stack.append((depth, re.sub(r"\s+", " ", line.strip().rstrip("{").strip())))
        m = re.match(r"\s*(pub(\([a-z]+\))?\s+)?(const\s+)?(unsafe\s+)?fn\s+([A-Za-z_0-9]+)", line)
        if m:
            out.append((m.group(5), ln, impl_stack[-1][1] if impl_stack else ""))
        depth += line.count("{") - line.count("}")
        while impl_stack and depth <= impl_stack[-1][0]:
            impl_stack.pop()
    return out


OPS = {"eq": "==", "ne": "!=", "lt": "<", "le": "<=", "gt": ">", "ge": ">="}


def _is_view(e, params):
    k = e[0]
    if k == "path": return len(e[1]) == 1 and (e[1][0] == "self" or e[1][0] in params)
    if k in ("paren", "ref", "refmut", "deref", "unsafe", "cast"): return _is_view(e[1], params)
    if k == "un" and e[1] in ("*", "&", "&mut"): return _is_view(e[2], params)
    if k == "field": return _is_view(e[1], params)
    if k == "index": return _is_view(e[1], params) and e[2][0] == "range" and e[2][1] is None and e[2][2] is None
    if k == "block": return not e[1] and e[2] is not None and _is_view(e[2], params)
    return False


def shape_of(text, line, name):
    """for a function that is not translated: is its body literally a view of `self` (`&self[..]`, `&**self`, a field) or a
    forward (the same method / trait function / comparison operator applied to views of `self` and the parameters)?"""
    import rsparse
    off = sum(len(l) + 1 for l in text.split("\n")[:line - 1])
    try:
        sig, body = rsparse.find_fn(text[off:], name, 0, None)
    except Exception:
        return "unparsed"
    params = [n for n, _ in sig["params"]]
    if body[0] != "block" or body[1] or body[2] is None: return "other"
    e = body[2]
    while e[0] in ("unsafe", "paren") or (e[0] == "block" and not e[1] and e[2] is not None):
        e = e[1] if e[0] != "block" else e[2]
    if _is_view(e, params): return "view"
    if e[0] == "mcall" and e[2] == name and _is_view(e[1], params) and all(_is_view(a, params) for a in e[3]): return "forward"
    if e[0] == "call" and e[1][0] == "path" and e[1][1][-1] == name and e[2] and all(_is_view(a, params) for a in e[2]): return "forward"
    if e[0] == "bin" and name in OPS and e[1] == OPS[name] and _is_view(e[2], params) and _is_view(e[3], params): return "forward"
    return "other"


def translated():
    """{(file, rust name, anchor-ish)} -> lean name, from the translators' own tables"""
    res = []
    import rs2lean, rs2lean_box, rs2lean_lossy, rs2lean_str, rs2lean_chunks, rs2lean_typed
    for f in rs2lean.FUNCS:
        res.append((f.file, f.name, f.anchor or "", f.lean, f.nth))
    for row in getattr(rs2lean_box, "FUNCS", []):
        res.append((row[1], row[0], row[2] or "", row[3], 0))
    for name in ("unsafe_get", "safe_get", "next"):
        res.append(("src/collections/str/lossy.rs", name, "Iterator for Utf8LossyChunksIter" if name == "next" else "", "lossy_" + name, 0))
    res.append(("src/collections/string.rs", "from_utf8_lossy_in", "", "from_utf8_lossy_in", 0))
    for name, anchor, lean, params, ret in rs2lean_str.FUNCS:
        res.append(("src/collections/string.rs", name, anchor, lean, 0))
    for name, anchor, lean, params, ret in rs2lean_chunks.FUNCS:
        res.append(("src/lib.rs", name, anchor or "", lean, 0))
    res.append(("src/collections/vec.rs", "fill", "impl<'a, 'bump, T> Drain<'a, 'bump, T> {", "drain_fill", 0))
    res.append(("src/collections/vec.rs", "move_tail", "impl<'a, 'bump, T> Drain<'a, 'bump, T> {", "drain_move_tail", 0))
    res.append(("src/collections/vec.rs", "extend_from_slices_copy", "", "vec_extend_from_slices_copy", 0))
    res.append(("src/collections/vec.rs", "drop", "Drop for Splice<'a, 'bump, I>", "splice_drop_body", 0))
    import rs2lean_strfwd
    for name in rs2lean_strfwd.FUNCS:
        if name != "len":
            res.append(("src/collections/string.rs", name, rs2lean_strfwd.IMPL, "string_" + name, 0))
    for name, anchor, lean, generic, params, ret in rs2lean_typed.FUNCS:
        res.append(("src/lib.rs", name, anchor, lean, 0))
    return res


def main():
    props = ""
    pdir = os.path.join(ROOT, "lean", "BumpVerif", "Props")
    for fn in sorted(os.listdir(pdir)):
        if fn.startswith("GenFn") and fn.endswith(".lean"):
            props += open(os.path.join(pdir, fn)).read()
    tr = translated()
    rows, summary, shapes = [], {}, {}
    for rel in FILES:
        items = fn_items(os.path.join(REPO, rel))
        text = stripped(os.path.join(REPO, rel))
        at_line = {}
        for t in tr:
            if t[0] == rel:
                ln_ = fn_line(text, t[1], t[4], t[2])
                if ln_ is not None:
                    at_line.setdefault(ln_, []).append(t[3])
        for name, ln, impl in items:
            leans = at_line.get(ln, [])
            if leans:
                lean = ",".join(leans)
                proved = all(re.search(r"Gen\.Fn\." + re.escape(l) + r"\b", props) is not None for l in leans)
                status = "translated+proved" if proved else "translated"
            else:
                lean, status = "", "harness-only"
            shape = shape_of(text, ln, name) if status == "harness-only" else ""
            if shape:
                shapes[shape] = shapes.get(shape, 0) + 1
            rows.append({"file": rel, "fn": name, "line": ln, "impl": impl, "status": status, "lean": lean, "shape": shape})
            summary.setdefault(rel, {}).setdefault(status, 0)
            summary[rel][status] += 1
    total = {}
    for rel, d in summary.items():
        for k, v in d.items():
            total[k] = total.get(k, 0) + v
    if "--json" in sys.argv:
        print(json.dumps({"summary": summary, "total": total, "harness_only_shapes": shapes, "rows": rows}, indent=1))
        return
    for rel in FILES:
        print(f"== {rel}: {summary.get(rel, {})}")
        for r in rows:
            if r["file"] == rel and r["status"] != "translated+proved":
                print(f"   {r['status']:13} {r.get('shape', ''):8} {r['fn']:36} line {r['line']:5}  {r['impl'][:64]}")
    print("TOTAL", total)
    print("harness-only by shape (view = a view of self; forward = the same method / operator on views of self and the parameters):", shapes)


if __name__ == "__main__":
    main()
