//! Operation grammar of the `str` family: one replayable text line per operation.
//!
//! Text is carried as lower-case hex of its UTF-8 bytes (`-` = empty), chars as hex code
//! points, byte indices in decimal, range bounds as `u` (unbounded), `i:N` (included),
//! `e:N` (excluded).
use crate::util::*;
use std::ops::Bound;

#[derive(Clone, Copy, Debug, PartialEq, Eq)]
pub enum Bd {
    U,
    I(usize),
    E(usize),
}
impl Bd {
    pub fn text(&self) -> String {
        match self {
            Bd::U => "u".into(),
            Bd::I(n) => format!("i:{}", n),
            Bd::E(n) => format!("e:{}", n),
        }
    }
    pub fn parse(s: &str) -> Option<Bd> {
        if s == "u" {
            return Some(Bd::U);
        }
        let (k, n) = s.split_once(':')?;
        let n: usize = n.parse().ok()?;
        match k {
            "i" => Some(Bd::I(n)),
            "e" => Some(Bd::E(n)),
            _ => None,
        }
    }
    pub fn to_bound(&self) -> Bound<usize> {
        match *self {
            Bd::U => Bound::Unbounded,
            Bd::I(n) => Bound::Included(n),
            Bd::E(n) => Bound::Excluded(n),
        }
    }
}

#[derive(Clone, Debug, PartialEq)]
pub enum Op {
    // constructors (replace the current string)
    New,
    WithCap(usize),
    FromStr(String),
    FromIter(Vec<char>),
    // methods
    Push(char),
    PushStr(String),
    Pop,
    Insert(usize, char),
    InsertStr(usize, String),
    Remove(usize),
    Truncate(usize),
    Clear,
    Retain { ans: Vec<bool>, panic: Option<usize> },
    Drain { sb: Bd, eb: Bd, take: usize, back: usize, forget: bool },
    ReplaceRange { sb: Bd, eb: Bd, t: String },
    SplitOff { at: usize, swap: bool },
    ExtendChars { k: u8, cs: Vec<char> },
    ExtendStrs { k: u8, ts: Vec<String> },
    CloneS { swap: bool },
    CloneFrom(String),
    /// `&s[range]` through each `Index` impl: 0 `..`, 1 `a..`, 2 `..b`, 3 `a..b`, 4 `a..=b`, 5 `..=b`
    Index { kind: u8, a: usize, b: usize },
    Write { t: String, n: i64 },
    Format { t: String, n: i64 },
    IntoBumpStr,
    Reserve(usize),
    Shrink,
    // stateless decoders
    Lossy(Vec<u8>),
    /// the trait impls of `String` on the pair of texts (a, b), side by side with `std::string::String` (no model)
    Glue(String, String),
    Utf8(Vec<u8>),
    Utf16(Vec<u16>),
}

pub fn hexs(b: &[u8]) -> String {
    if b.is_empty() {
        return "-".into();
    }
    let mut s = String::with_capacity(b.len() * 2);
    for x in b {
        s.push(char::from_digit((*x >> 4) as u32, 16).unwrap());
        s.push(char::from_digit((*x & 15) as u32, 16).unwrap());
    }
    s
}
pub fn unhex(s: &str) -> Option<Vec<u8>> {
    if s == "-" {
        return Some(vec![]);
    }
    if s.len() % 2 != 0 {
        return None;
    }
    let b = s.as_bytes();
    let mut v = Vec::with_capacity(b.len() / 2);
    for i in (0..b.len()).step_by(2) {
        let hi = (b[i] as char).to_digit(16)?;
        let lo = (b[i + 1] as char).to_digit(16)?;
        v.push((hi * 16 + lo) as u8);
    }
    Some(v)
}
fn untext(s: &str) -> Option<String> {
    String::from_utf8(unhex(s)?).ok()
}
pub fn cps(cs: &[char]) -> String {
    if cs.is_empty() {
        return "-".into();
    }
    cs.iter().map(|c| format!("{:x}", *c as u32)).collect::<Vec<_>>().join(",")
}
fn uncps(s: &str) -> Option<Vec<char>> {
    if s == "-" {
        return Some(vec![]);
    }
    s.split(',').map(|x| u32::from_str_radix(x, 16).ok().and_then(char::from_u32)).collect()
}
fn bits(a: &[bool]) -> String {
    if a.is_empty() {
        return "-".into();
    }
    a.iter().map(|b| if *b { '1' } else { '0' }).collect()
}
fn unbits(s: &str) -> Option<Vec<bool>> {
    if s == "-" {
        return Some(vec![]);
    }
    s.chars().map(|c| match c {
        '1' => Some(true),
        '0' => Some(false),
        _ => None,
    }).collect()
}
fn texts(ts: &[String]) -> String {
    if ts.is_empty() {
        return "none".into();
    }
    ts.iter().map(|t| hexs(t.as_bytes())).collect::<Vec<_>>().join("+")
}
fn untexts(s: &str) -> Option<Vec<String>> {
    if s == "none" {
        return Some(vec![]);
    }
    s.split('+').map(untext).collect()
}
fn u16s(v: &[u16]) -> String {
    if v.is_empty() {
        return "-".into();
    }
    v.iter().map(|u| format!("{:04x}", u)).collect::<Vec<_>>().join(",")
}
fn unu16s(s: &str) -> Option<Vec<u16>> {
    if s == "-" {
        return Some(vec![]);
    }
    s.split(',').map(|x| u16::from_str_radix(x, 16).ok()).collect()
}

impl Op {
    pub fn name(&self) -> &'static str {
        match self {
            Op::New => "s_new",
            Op::WithCap(_) => "s_with_cap",
            Op::FromStr(_) => "s_from_str",
            Op::FromIter(_) => "s_from_iter",
            Op::Push(_) => "s_push",
            Op::PushStr(_) => "s_push_str",
            Op::Pop => "s_pop",
            Op::Insert(..) => "s_insert",
            Op::InsertStr(..) => "s_insert_str",
            Op::Remove(_) => "s_remove",
            Op::Truncate(_) => "s_truncate",
            Op::Clear => "s_clear",
            Op::Retain { .. } => "s_retain",
            Op::Drain { .. } => "s_drain",
            Op::ReplaceRange { .. } => "s_replace_range",
            Op::SplitOff { .. } => "s_split_off",
            Op::ExtendChars { .. } => "s_extend_chars",
            Op::ExtendStrs { .. } => "s_extend_strs",
            Op::CloneS { .. } => "s_clone",
            Op::CloneFrom(_) => "s_clone_from",
            Op::Index { .. } => "s_index",
            Op::Write { .. } => "s_write",
            Op::Format { .. } => "s_format",
            Op::IntoBumpStr => "s_into_bump_str",
            Op::Reserve(_) => "s_reserve",
            Op::Shrink => "s_shrink",
            Op::Lossy(_) => "d_lossy",
            Op::Glue(..) => "d_glue",
            Op::Utf8(_) => "d_utf8",
            Op::Utf16(_) => "d_utf16",
        }
    }
    pub fn is_ctor(&self) -> bool {
        matches!(self, Op::New | Op::WithCap(_) | Op::FromStr(_) | Op::FromIter(_))
    }
    pub fn is_decoder(&self) -> bool {
        matches!(self, Op::Lossy(_) | Op::Utf8(_) | Op::Utf16(_) | Op::Glue(..))
    }
    pub fn to_text(&self) -> String {
        let n = self.name();
        match self {
            Op::New | Op::Pop | Op::Clear | Op::IntoBumpStr | Op::Shrink => n.to_string(),
            Op::WithCap(c) => format!("{} n={}", n, c),
            Op::FromStr(t) => format!("{} t={}", n, hexs(t.as_bytes())),
            Op::FromIter(cs) => format!("{} cs={}", n, cps(cs)),
            Op::Push(c) => format!("{} c={:x}", n, *c as u32),
            Op::PushStr(t) => format!("{} t={}", n, hexs(t.as_bytes())),
            Op::Insert(i, c) => format!("{} i={} c={:x}", n, i, *c as u32),
            Op::InsertStr(i, t) => format!("{} i={} t={}", n, i, hexs(t.as_bytes())),
            Op::Remove(i) => format!("{} i={}", n, i),
            Op::Truncate(i) => format!("{} n={}", n, i),
            Op::Retain { ans, panic } => format!("{} ans={} panic={}", n, bits(ans), panic.map(|k| k.to_string()).unwrap_or("none".into())),
            Op::Drain { sb, eb, take, back, forget } => format!("{} sb={} eb={} take={} back={} forget={}", n, sb.text(), eb.text(), take, back, *forget as u8),
            Op::ReplaceRange { sb, eb, t } => format!("{} sb={} eb={} t={}", n, sb.text(), eb.text(), hexs(t.as_bytes())),
            Op::SplitOff { at, swap } => format!("{} at={} swap={}", n, at, *swap as u8),
            Op::ExtendChars { k, cs } => format!("{} k={} cs={}", n, k, cps(cs)),
            Op::ExtendStrs { k, ts } => format!("{} k={} ts={}", n, k, texts(ts)),
            Op::CloneS { swap } => format!("{} swap={}", n, *swap as u8),
            Op::CloneFrom(t) => format!("{} t={}", n, hexs(t.as_bytes())),
            Op::Index { kind, a, b } => format!("{} k={} a={} b={}", n, kind, a, b),
            Op::Write { t, n: v } => format!("{} t={} v={}", n, hexs(t.as_bytes()), v),
            Op::Format { t, n: v } => format!("{} t={} v={}", n, hexs(t.as_bytes()), v),
            Op::Reserve(c) => format!("{} n={}", n, c),
            Op::Lossy(b) => format!("{} b={}", n, hexs(b)),
            Op::Glue(a, b) => format!("{} a={} b={}", n, hexs(a.as_bytes()), hexs(b.as_bytes())),
            Op::Utf8(b) => format!("{} b={}", n, hexs(b)),
            Op::Utf16(u) => format!("{} u={}", n, u16s(u)),
        }
    }
    pub fn parse(line: &str) -> Option<Op> {
        let toks: Vec<&str> = line.split_whitespace().collect();
        let name = *toks.first()?;
        let us = |k: &str| kv(&toks, k).and_then(|s| s.parse::<usize>().ok());
        let ch = |k: &str| kv(&toks, k).and_then(|s| u32::from_str_radix(s, 16).ok()).and_then(char::from_u32);
        let tx = |k: &str| kv(&toks, k).and_then(untext);
        let fl = |k: &str| kv(&toks, k).map(|s| s == "1");
        Some(match name {
            "s_new" => Op::New,
            "s_with_cap" => Op::WithCap(us("n")?),
            "s_from_str" => Op::FromStr(tx("t")?),
            "s_from_iter" => Op::FromIter(uncps(kv(&toks, "cs")?)?),
            "s_push" => Op::Push(ch("c")?),
            "s_push_str" => Op::PushStr(tx("t")?),
            "s_pop" => Op::Pop,
            "s_insert" => Op::Insert(us("i")?, ch("c")?),
            "s_insert_str" => Op::InsertStr(us("i")?, tx("t")?),
            "s_remove" => Op::Remove(us("i")?),
            "s_truncate" => Op::Truncate(us("n")?),
            "s_clear" => Op::Clear,
            "s_retain" => Op::Retain {
                ans: unbits(kv(&toks, "ans")?)?,
                panic: match kv(&toks, "panic")? {
                    "none" => None,
                    s => Some(s.parse().ok()?),
                },
            },
            "s_drain" => Op::Drain {
                sb: Bd::parse(kv(&toks, "sb")?)?,
                eb: Bd::parse(kv(&toks, "eb")?)?,
                take: us("take")?,
                back: us("back")?,
                forget: fl("forget")?,
            },
            "s_replace_range" => Op::ReplaceRange { sb: Bd::parse(kv(&toks, "sb")?)?, eb: Bd::parse(kv(&toks, "eb")?)?, t: tx("t")? },
            "s_split_off" => Op::SplitOff { at: us("at")?, swap: fl("swap")? },
            "s_extend_chars" => Op::ExtendChars { k: us("k")? as u8, cs: uncps(kv(&toks, "cs")?)? },
            "s_extend_strs" => Op::ExtendStrs { k: us("k")? as u8, ts: untexts(kv(&toks, "ts")?)? },
            "s_clone" => Op::CloneS { swap: fl("swap")? },
            "s_clone_from" => Op::CloneFrom(tx("t")?),
            "s_index" => Op::Index { kind: us("k")? as u8, a: us("a")?, b: us("b")? },
            "s_write" => Op::Write { t: tx("t")?, n: kv(&toks, "v")?.parse().ok()? },
            "s_format" => Op::Format { t: tx("t")?, n: kv(&toks, "v")?.parse().ok()? },
            "s_into_bump_str" => Op::IntoBumpStr,
            "s_reserve" => Op::Reserve(us("n")?),
            "s_shrink" => Op::Shrink,
            "d_lossy" => Op::Lossy(unhex(kv(&toks, "b")?)?),
            "d_glue" => Op::Glue(tx("a")?, tx("b")?),
            "d_utf8" => Op::Utf8(unhex(kv(&toks, "b")?)?),
            "d_utf16" => Op::Utf16(unu16s(kv(&toks, "u")?)?),
            _ => return None,
        })
    }
}

/// A plan: header + operations.  `PLAN ...` lines start a plan, `END`/comments/blank lines
/// are skipped, anything after ` | ` on an op line is ignored (so a trace replays as a plan).
pub struct Plan {
    pub idx: usize,
    pub seed: u64,
    pub label: String,
    pub ops: Vec<Op>,
}
impl Plan {
    pub fn parse_all(text: &str) -> Result<Vec<Plan>, String> {
        let mut plans: Vec<Plan> = vec![];
        for (ln, raw) in text.lines().enumerate() {
            let line = raw.trim();
            if line.is_empty() || line.starts_with('#') || line.starts_with("END") || line.starts_with("ORACLE") || line.starts_with("SUMMARY") {
                continue;
            }
            if line.starts_with("PLAN") {
                let toks: Vec<&str> = line.split_whitespace().collect();
                plans.push(Plan {
                    idx: kv_usize(&toks, "idx").unwrap_or(plans.len()),
                    seed: kv(&toks, "seed").and_then(|s| s.parse().ok()).unwrap_or(0),
                    label: kv(&toks, "gen").unwrap_or("replay").to_string(),
                    ops: vec![],
                });
                continue;
            }
            let optext = line.split(" | ").next().unwrap_or("");
            let op = Op::parse(optext).ok_or_else(|| format!("line {}: cannot parse operation {:?}", ln + 1, optext))?;
            if plans.is_empty() {
                plans.push(Plan { idx: 0, seed: 0, label: "replay".into(), ops: vec![] });
            }
            plans.last_mut().unwrap().ops.push(op);
        }
        Ok(plans)
    }
}
