//! `bvh_str`: differential harness for `bumpalo::collections::String` (family `str`).
//!
//!   bvh_str str seed=N plans=N ops=N profile=general|index|range|retain|build|sweep out=FILE [curplan=FILE]
//!   bvh_str lossy mode=exh|alpha|short|struct|utf16 maxlen=N [part=i/n] [n=N] seed=N out=FILE
//!   bvh_str replay FILE out=FILE
mod dec;
mod exec;
mod gen;
mod ops;
mod util;

use ops::*;
use std::io::Write;
use std::sync::Mutex;
use util::*;

static CURPLAN: Mutex<Option<std::fs::File>> = Mutex::new(None);

pub fn begin_plan(header: &str) {
    if let Ok(mut g) = CURPLAN.lock() {
        if let Some(f) = g.as_mut() {
            use std::io::{Seek, SeekFrom};
            let _ = f.set_len(0);
            let _ = f.seek(SeekFrom::Start(0));
            let _ = writeln!(f, "{}", header);
        }
    }
}
pub fn note_op(text: &str) {
    if let Ok(mut g) = CURPLAN.lock() {
        if let Some(f) = g.as_mut() {
            let _ = writeln!(f, "{}", text);
        }
    }
    if std::env::var_os("BVH_TRACE_OPS").is_some() {
        eprintln!("BEGIN {}", text);
    }
}

fn flush(out: &mut exec::Outp, w: &mut dyn Write, nfails: &mut usize) {
    w.write_all(out.trace.as_bytes()).unwrap();
    out.trace.clear();
    for f in out.fails.drain(..) {
        writeln!(w, "{}", f).unwrap();
        *nfails += 1;
    }
}

fn main() {
    let args: Vec<String> = std::env::args().collect();
    let toks: Vec<&str> = args.iter().map(|s| s.as_str()).collect();
    std::panic::set_hook(Box::new(|info| {
        if std::env::var_os("BVH_SHOW_PANICS").is_some() {
            eprintln!("panic: {}", info);
        }
    }));
    let cmd = toks.get(1).copied().unwrap_or("");
    let out_path = kv(&toks, "out").unwrap_or("/dev/stdout").to_string();
    if let Some(cp) = kv(&toks, "curplan") {
        *CURPLAN.lock().unwrap() = std::fs::File::create(cp).ok();
    }
    let mut w = std::io::BufWriter::new(std::fs::File::create(&out_path).expect("open out"));
    let mut out = exec::Outp::default();
    let mut nfails = 0usize;
    let seed: u64 = kv(&toks, "seed").and_then(|s| s.parse().ok()).unwrap_or(1);
    match cmd {
        "str" => {
            let n: usize = kv_usize(&toks, "plans").unwrap_or(10);
            let n_ops: usize = kv_usize(&toks, "ops").unwrap_or(40);
            let pname = kv(&toks, "profile").unwrap_or("general");
            let prof = gen::profile_from_str(pname);
            let mut r = Rng::new(seed);
            for i in 0..n {
                let pseed = r.next() >> 1;
                let mut plan = Plan { idx: i, seed: pseed, label: pname.to_string(), ops: vec![] };
                let mut g = gen::Gen::new(pseed, prof, n_ops);
                exec::run_plan(&mut plan, Some(&mut g), &mut out);
                flush(&mut out, &mut w, &mut nfails);
            }
        }
        "lossy" => {
            let mode = kv(&toks, "mode").unwrap_or("short");
            let maxlen = kv_usize(&toks, "maxlen").unwrap_or(3);
            let part = kv(&toks, "part")
                .and_then(|s| s.split_once('/'))
                .and_then(|(a, b)| Some((a.parse().ok()?, b.parse().ok()?)))
                .unwrap_or((0usize, 1usize));
            let n = kv_usize(&toks, "n").unwrap_or(1000);
            dec::run(mode, maxlen, part, n, seed, &mut out);
            flush(&mut out, &mut w, &mut nfails);
        }
        "replay" => {
            let path = toks.get(2).expect("replay <file>");
            let text = std::fs::read_to_string(path).expect("read plan file");
            match Plan::parse_all(&text) {
                Ok(plans) => {
                    for mut plan in plans {
                        exec::run_plan(&mut plan, None, &mut out);
                        flush(&mut out, &mut w, &mut nfails);
                    }
                }
                Err(e) => {
                    eprintln!("{}", e);
                    std::process::exit(2);
                }
            }
        }
        _ => {
            eprintln!("usage: bvh_str str seed=N plans=N ops=N profile=P out=FILE [curplan=FILE] | bvh_str lossy mode=M maxlen=N [part=i/n] [n=N] seed=N out=FILE | bvh_str replay FILE out=FILE");
            std::process::exit(2);
        }
    }
    writeln!(
        w,
        "SUMMARY plans={} ops={} checked={} oracle_fails={} kinds={}",
        out.n_plans,
        out.n_ops,
        out.checked,
        nfails,
        out.kinds.iter().map(|(k, v)| format!("{}={}", k, v)).collect::<Vec<_>>().join(",")
    )
    .unwrap();
    w.flush().unwrap();
}
