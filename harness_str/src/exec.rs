//! Executes a plan on `bumpalo::collections::String` and on `std::string::String` side by
//! side (every call under `catch_unwind`), writes the trace and the model-independent oracles.
use crate::gen::Gen;
use crate::ops::*;
use bumpalo::collections::String as BString;
use bumpalo::collections::Vec as BVec;
use bumpalo::Bump;
use std::borrow::Cow;
use std::cell::{Cell, RefCell};
use std::collections::BTreeMap;
use std::fmt::Write as _;
use std::panic::{catch_unwind, AssertUnwindSafe};

pub const DBG: bool = cfg!(debug_assertions);
/// Are arithmetic overflow checks compiled in?  (`cfg(overflow_checks)` is unstable: probed with
/// this crate's own `+`; bumpalo is built with the same cargo profile.)
pub fn ovf() -> bool {
    static V: std::sync::OnceLock<bool> = std::sync::OnceLock::new();
    *V.get_or_init(|| catch_unwind(|| std::hint::black_box(usize::MAX) + std::hint::black_box(1usize)).is_err())
}
pub fn profile_name() -> &'static str {
    if DBG {
        "dev"
    } else {
        "release"
    }
}

#[derive(Default)]
pub struct Outp {
    pub trace: String,
    pub fails: Vec<String>,
    pub n_ops: usize,
    pub n_plans: usize,
    pub checked: usize,
    pub kinds: BTreeMap<String, usize>,
}

#[derive(Clone, PartialEq, Eq, Debug)]
pub enum R {
    Ok(String),
    Panic,
}
impl R {
    pub fn text(&self) -> String {
        match self {
            R::Ok(s) => s.clone(),
            R::Panic => "panic".into(),
        }
    }
    pub fn kind(&self) -> String {
        match self {
            R::Ok(s) => s.split(|c| c == ':' || c == '=' || c == ' ').next().unwrap_or("").to_string(),
            R::Panic => "panic".into(),
        }
    }
}

fn guard<F: FnOnce() -> String>(f: F) -> R {
    match catch_unwind(AssertUnwindSafe(f)) {
        Ok(s) => R::Ok(s),
        Err(_) => R::Panic,
    }
}

macro_rules! with_range {
    ($sb:expr, $eb:expr, $r:ident => $body:expr) => {
        match ($sb, $eb) {
            (Bd::I(a), Bd::E(b)) => {
                let $r = a..b;
                $body
            }
            (Bd::I(a), Bd::U) => {
                let $r = a..;
                $body
            }
            (Bd::U, Bd::E(b)) => {
                let $r = ..b;
                $body
            }
            (Bd::U, Bd::U) => {
                let $r = ..;
                $body
            }
            (Bd::I(a), Bd::I(b)) => {
                let $r = a..=b;
                $body
            }
            (Bd::U, Bd::I(b)) => {
                let $r = ..=b;
                $body
            }
            (sb, eb) => {
                let $r = (sb.to_bound(), eb.to_bound());
                $body
            }
        }
    };
}

/// Methods whose call syntax is identical on both string types.
macro_rules! common {
    ($s:ident, $op:ident, $calls:ident, $seen:ident) => {
        match $op {
            Op::Push(c) => {
                $s.push(*c);
                Some("unit".to_string())
            }
            Op::PushStr(t) => {
                $s.push_str(t);
                Some("unit".to_string())
            }
            Op::Pop => Some(match $s.pop() {
                Some(c) => format!("some:{:x}", c as u32),
                None => "none".to_string(),
            }),
            Op::Insert(i, c) => {
                $s.insert(*i, *c);
                Some("unit".to_string())
            }
            Op::InsertStr(i, t) => {
                $s.insert_str(*i, t);
                Some("unit".to_string())
            }
            Op::Remove(i) => {
                let c = $s.remove(*i);
                Some(format!("ch:{:x}", c as u32))
            }
            Op::Truncate(n) => {
                $s.truncate(*n);
                Some("unit".to_string())
            }
            Op::Index { kind, a, b } => {
                let t: &str = match kind {
                    0 => &$s[..],
                    1 => &$s[*a..],
                    2 => &$s[..*b],
                    3 => &$s[*a..*b],
                    4 => &$s[*a..=*b],
                    _ => &$s[..=*b],
                };
                Some(format!("text={}", crate::ops::hexs(t.as_bytes())))
            }
            Op::Clear => {
                $s.clear();
                Some("unit".to_string())
            }
            Op::Reserve(n) => {
                $s.reserve(*n);
                Some("unit".to_string())
            }
            Op::Shrink => {
                $s.shrink_to_fit();
                Some("unit".to_string())
            }
            Op::Retain { ans, panic } => {
                $s.retain(|c| {
                    let k = $calls.get();
                    $calls.set(k + 1);
                    $seen.borrow_mut().push(c);
                    if Some(k) == *panic {
                        panic!("injected");
                    }
                    ans.get(k).copied().unwrap_or(true)
                });
                Some("unit".to_string())
            }
            Op::Drain { sb, eb, take, back, forget } => Some(with_range!(*sb, *eb, r => {
                let mut d = $s.drain(r);
                let mut y: Vec<char> = vec![];
                let mut yb: Vec<char> = vec![];
                for _ in 0..*take {
                    if let Some(c) = d.next() {
                        y.push(c)
                    }
                }
                for _ in 0..*back {
                    if let Some(c) = d.next_back() {
                        yb.push(c)
                    }
                }
                if *forget {
                    std::mem::forget(d)
                } else {
                    drop(d)
                }
                format!("yield={} yback={}", cps(&y), cps(&yb))
            })),
            Op::ReplaceRange { sb, eb, t } => Some(with_range!(*sb, *eb, r => {
                $s.replace_range(r, t);
                "unit".to_string()
            })),
            Op::ExtendChars { k: 0, cs } => {
                $s.extend(cs.iter().copied());
                Some("unit".to_string())
            }
            Op::ExtendChars { k: _, cs } => {
                $s.extend(cs.iter());
                Some("unit".to_string())
            }
            Op::ExtendStrs { k: 0, ts } => {
                $s.extend(ts.iter().map(|t| t.as_str()));
                Some("unit".to_string())
            }
            Op::ExtendStrs { k: 2, ts } => {
                $s.extend(ts.iter().cloned());
                Some("unit".to_string())
            }
            Op::ExtendStrs { k: 3, ts } => {
                $s.extend(ts.iter().map(|t| Cow::Borrowed(t.as_str())));
                Some("unit".to_string())
            }
            Op::Write { t, n } => {
                write!($s, "{}{}", t, n).unwrap();
                Some("unit".to_string())
            }
            _ => None,
        }
    };
}

struct Canary<'b> {
    a: &'b [u8],
    b: &'b [u8],
}

fn apply_bump<'b>(bump: &'b Bump, st: &mut Option<BString<'b>>, op: &Op, calls: &Cell<usize>, seen: &RefCell<Vec<char>>) -> R {
    // constructors
    match op {
        Op::New => {
            *st = None;
            return guard(|| {
                *st = Some(BString::new_in(bump));
                "unit".into()
            });
        }
        Op::WithCap(n) => {
            *st = None;
            return guard(|| {
                *st = Some(BString::with_capacity_in(*n, bump));
                "unit".into()
            });
        }
        Op::FromStr(t) => {
            *st = None;
            return guard(|| {
                *st = Some(BString::from_str_in(t, bump));
                "unit".into()
            });
        }
        Op::FromIter(cs) => {
            *st = None;
            return guard(|| {
                *st = Some(BString::from_iter_in(cs.iter().copied(), bump));
                "unit".into()
            });
        }
        _ => {}
    }
    if st.is_none() {
        return R::Ok("nostate".into());
    }
    match op {
        Op::IntoBumpStr => {
            let s = st.take().unwrap();
            guard(|| {
                let r: &'b str = s.into_bump_str();
                format!("str={}", hexs(r.as_bytes()))
            })
        }
        Op::SplitOff { at, swap } => guard(|| {
            let s = st.as_mut().unwrap();
            let o = s.split_off(*at);
            let txt = format!("other={}", hexs(o.as_bytes()));
            if *swap {
                *st = Some(o);
            }
            txt
        }),
        Op::CloneFrom(t) => guard(|| {
            // `clone_from` of another string living in the same arena
            let src = BString::from_str_in(t, bump);
            st.as_mut().unwrap().clone_from(&src);
            "unit".into()
        }),
        Op::CloneS { swap } => guard(|| {
            let c = st.as_ref().unwrap().clone();
            let txt = format!("clone={}", hexs(c.as_bytes()));
            if *swap {
                *st = Some(c);
            }
            txt
        }),
        Op::Format { t, n } => guard(|| {
            let f = bumpalo::format!(in bump, "{}|{}", t, n);
            format!("text={}", hexs(f.as_bytes()))
        }),
        Op::ExtendStrs { k: 1, ts } => guard(|| {
            let s = st.as_mut().unwrap();
            s.extend(ts.iter().map(|t| BString::from_str_in(t, bump)));
            "unit".into()
        }),
        // `reserve_exact` must honour the same promise (capacity >= len + n is checked by the caller)
        Op::Reserve(n) if n % 2 == 1 => guard(|| {
            st.as_mut().unwrap().reserve_exact(*n);
            "unit".into()
        }),
        _ => guard(|| {
            // other spellings of "the same string": conversions that must be identities and views that
            // must agree (a failure panics here, which the caller reports as a std-panic mismatch)
            match st.as_ref().unwrap().len() % 4 {
                1 => {
                    let bytes = st.take().unwrap().into_bytes();
                    *st = Some(unsafe { BString::from_utf8_unchecked(bytes) });
                }
                2 => {
                    let mut md = std::mem::ManuallyDrop::new(st.take().unwrap());
                    let (l, c) = (md.len(), md.capacity());
                    let p = unsafe { md.as_mut_vec().as_mut_ptr() };
                    *st = Some(unsafe { BString::from_raw_parts_in(p, l, c, bump) });
                }
                3 => {
                    let s0 = st.as_mut().unwrap();
                    let a = s0.as_str().as_bytes().to_vec();
                    let m = s0.as_mut_str().as_bytes().to_vec();
                    let v = unsafe { s0.as_mut_vec().len() };
                    assert!(a == m && v == a.len() && a == s0.as_bytes(), "string views disagree");
                    assert!(std::ptr::eq(s0.bump(), bump), "String::bump() is not the arena it was built in");
                }
                _ => {}
            }
            let s = st.as_mut().unwrap();
            common!(s, op, calls, seen).unwrap_or_else(|| "unsupported".to_string())
        }),
    }
}

fn apply_std(st: &mut Option<String>, op: &Op, calls: &Cell<usize>, seen: &RefCell<Vec<char>>) -> R {
    match op {
        Op::New => {
            *st = Some(String::new());
            return R::Ok("unit".into());
        }
        Op::WithCap(n) => {
            *st = None;
            return guard(|| {
                *st = Some(String::with_capacity(*n));
                "unit".into()
            });
        }
        Op::FromStr(t) => {
            *st = Some(t.clone());
            return R::Ok("unit".into());
        }
        Op::FromIter(cs) => {
            *st = Some(cs.iter().copied().collect());
            return R::Ok("unit".into());
        }
        _ => {}
    }
    if st.is_none() {
        return R::Ok("nostate".into());
    }
    match op {
        Op::IntoBumpStr => {
            let s = st.take().unwrap();
            R::Ok(format!("str={}", hexs(s.as_bytes())))
        }
        Op::SplitOff { at, swap } => guard(|| {
            let s = st.as_mut().unwrap();
            let o = s.split_off(*at);
            let txt = format!("other={}", hexs(o.as_bytes()));
            if *swap {
                *st = Some(o);
            }
            txt
        }),
        Op::CloneFrom(t) => guard(|| {
            let src: String = t.clone();
            st.as_mut().unwrap().clone_from(&src);
            "unit".into()
        }),
        Op::CloneS { swap } => guard(|| {
            let c = st.as_ref().unwrap().clone();
            let txt = format!("clone={}", hexs(c.as_bytes()));
            if *swap {
                *st = Some(c);
            }
            txt
        }),
        Op::Format { t, n } => R::Ok(format!("text={}", hexs(format!("{}|{}", t, n).as_bytes()))),
        Op::ExtendStrs { k: 1, ts } => guard(|| {
            let s = st.as_mut().unwrap();
            s.extend(ts.iter().map(|t| t.as_str()));
            "unit".into()
        }),
        _ => guard(|| {
            let s = st.as_mut().unwrap();
            common!(s, op, calls, seen).unwrap_or_else(|| "unsupported".to_string())
        }),
    }
}

pub fn run_plan(plan: &mut Plan, mut gen: Option<&mut Gen>, out: &mut Outp) {
    let bump = Bump::new();
    let mut bs: Option<BString> = None;
    let mut ss: Option<String> = None;
    let mut canaries: Vec<Canary> = vec![];
    let header = format!("PLAN idx={} seed={} gen={} profile={} ovf={} dbg={}", plan.idx, plan.seed, plan.label, profile_name(), ovf() as u8, DBG as u8);
    crate::begin_plan(&header);
    writeln!(out.trace, "{}", header).unwrap();
    out.n_plans += 1;
    let mut i = 0usize;
    loop {
        let op: Op = match gen.as_mut() {
            Some(g) => match g.next(ss.as_deref()) {
                Some(op) => {
                    plan.ops.push(op.clone());
                    op
                }
                None => break,
            },
            None => {
                if i >= plan.ops.len() {
                    break;
                }
                plan.ops[i].clone()
            }
        };
        let optext = op.to_text();
        crate::note_op(&optext);
        if op.is_decoder() {
            let (res, fails) = crate::dec::run_one(&bump, &op);
            for (name, detail) in fails {
                out.fails.push(format!("ORACLE C14 {} plan={} op={} {} {} profile={}", name, plan.idx, i, optext, detail, profile_name()));
            }
            writeln!(out.trace, "{} | RES {} | OBS -", optext, res).unwrap();
            *out.kinds.entry(format!("{}:{}", op.name(), res.split(':').next().unwrap_or(""))).or_insert(0) += 1;
            out.n_ops += 1;
            i += 1;
            continue;
        }
        let before = bs.as_ref().map(|s| hexs(s.as_bytes())).unwrap_or("none".into());
        // C18: capacity and buffer address before a growing call
        let cap_ptr_before: Option<(usize, usize)> = bs.as_ref().map(|s| (s.capacity(), s.as_ptr() as usize));
        // neighbours: one block allocated before the constructor, one after
        let pre: Option<&[u8]> = if op.is_ctor() { Some(&*bump.alloc_slice_fill_copy(24, 0xA5u8)) } else { None };
        let (cb, sb_) = (Cell::new(0usize), RefCell::new(Vec::<char>::new()));
        let (cs, ssn) = (Cell::new(0usize), RefCell::new(Vec::<char>::new()));
        let rb = apply_bump(&bump, &mut bs, &op, &cb, &sb_);
        let rs = apply_std(&mut ss, &op, &cs, &ssn);
        if let Some(a) = pre {
            let b: &[u8] = &*bump.alloc_slice_fill_copy(24, 0x5Au8);
            canaries.push(Canary { a, b });
            if canaries.len() > 6 {
                canaries.remove(0);
            }
        }
        let is_retain = matches!(op, Op::Retain { .. });
        let injected = matches!(op, Op::Retain { panic: Some(_), .. });
        let forgot = matches!(op, Op::Drain { forget: true, .. });
        let (rbt, rst) = if is_retain {
            (format!("{} calls={}", rb.text(), cb.get()), format!("{} calls={}", rs.text(), cs.get()))
        } else {
            (rb.text(), rs.text())
        };
        let mut fail = |prop: &str, name: &str, detail: String| {
            out.fails.push(format!("ORACLE {} {} plan={} op={} {} {} profile={}", prop, name, plan.idx, i, optext, detail, profile_name()));
        };
        // 1. same panic / no panic (never messages)
        let both_ok = matches!((&rb, &rs), (R::Ok(_), R::Ok(_)));
        if matches!(rb, R::Panic) != matches!(rs, R::Panic) {
            fail("C14", "std-panic", format!("bumpalo={} std={} before={}", rb.kind(), rs.kind(), before));
        } else if rbt != rst {
            // 2. same returned values
            fail("C14", "std-result", format!("bumpalo=[{}] std=[{}] before={}", rbt, rst, before));
        } else if is_retain && *sb_.borrow() != *ssn.borrow() {
            fail("C14", "std-result", format!("closure-saw bumpalo=[{}] std=[{}] before={}", cps(&sb_.borrow()), cps(&ssn.borrow()), before));
        }
        // 3. valid UTF-8 after every operation (raw bytes, never through &str)
        let mut invalid = false;
        let mut obs = "none".to_string();
        if let Some(s) = bs.as_ref() {
            let bytes: &[u8] = s.as_bytes();
            let (len, cap) = (s.len(), s.capacity());
            obs = format!("bytes={} len={} capge={}", hexs(bytes), len, (cap >= len) as u8);
            if std::str::from_utf8(bytes).is_err() {
                invalid = true;
                if matches!(rb, R::Panic) && injected {
                    fail("C16", "retain-panic-utf8", format!("bytes={} before={}", hexs(bytes), before));
                } else {
                    fail("C14", "utf8-invalid", format!("bytes={} before={}", hexs(bytes), before));
                }
            }
            if cap < len || bytes.len() != len {
                fail("C14", "cap-lt-len", format!("len={} cap={}", len, cap));
            }
            // C18: a string whose capacity already covers the result is neither reallocated nor moved
            let grows_in_place = matches!(op, Op::Push(_) | Op::PushStr(_) | Op::Insert(..) | Op::InsertStr(..) | Op::ExtendChars { .. }
                | Op::ExtendStrs { .. } | Op::Write { .. } | Op::Format { .. } | Op::Reserve(_));
            if let (true, R::Ok(_), Some((cap0, ptr0))) = (grows_in_place, &rb, cap_ptr_before) {
                let need = if let Op::Reserve(n) = &op { len.saturating_add(*n) } else { len };
                if need <= cap0 && (cap != cap0 || s.as_ptr() as usize != ptr0) {
                    fail("C18", "string-moved-within-capacity", format!("len={} cap_before={} cap_after={} moved={}", len, cap0, cap, (s.as_ptr() as usize != ptr0) as u8));
                }
            }
            if let (Op::Reserve(n), R::Ok(_)) = (&op, &rb) {
                if cap < len.wrapping_add(*n) {
                    fail("C14", "reserve-short", format!("len={} cap={}", len, cap));
                }
            }
        }
        // 4. same text (not after an injected panic or a leaked Drain: std promises nothing there)
        let panic_mismatch = matches!(rb, R::Panic) != matches!(rs, R::Panic);
        let skip_text = (injected && matches!(rb, R::Panic)) || forgot || panic_mismatch;
        match (bs.as_ref(), ss.as_ref()) {
            (Some(b), Some(s)) => {
                if !skip_text && !invalid && b.as_bytes() != s.as_bytes() {
                    fail("C14", "std-text", format!("bumpalo={} std={} before={}", hexs(b.as_bytes()), hexs(s.as_bytes()), before));
                }
            }
            (None, None) => {}
            _ => {
                if both_ok {
                    fail("C14", "std-text", format!("one side lost its string before={}", before));
                }
            }
        }
        // 5. neighbours untouched
        for c in &canaries {
            if c.a.iter().any(|x| *x != 0xA5) || c.b.iter().any(|x| *x != 0x5A) {
                fail("C14", "neighbour-clobbered", format!("before={}", before));
                break;
            }
        }
        writeln!(out.trace, "{} | RES {} | OBS {}", optext, rbt, obs).unwrap();
        *out.kinds.entry(format!("{}:{}", op.name(), rb.kind())).or_insert(0) += 1;
        out.n_ops += 1;
        // continue from the implementation's state; an invalid string is never used again
        if invalid {
            bs = None;
            ss = None;
        } else {
            match bs.as_ref() {
                Some(b) => {
                    if ss.as_ref().map(|s| s.as_bytes() != b.as_bytes()).unwrap_or(true) {
                        ss = Some(std::str::from_utf8(b.as_bytes()).unwrap().to_string());
                    }
                }
                None => ss = None,
            }
        }
        i += 1;
    }
    writeln!(out.trace, "END").unwrap();
}
