//! Structured generator: mostly-valid programs over the String API, text mixing 1-4 byte
//! characters, every byte index (boundary or not, in and out of range), all range forms
//! including `..=usize::MAX`.  One splitmix64 stream per plan.
use crate::ops::*;
use crate::util::Rng;
use std::collections::VecDeque;

pub const C1: &[char] = &['a', 'b', 'z', 'A', '0', ' ', '\n', '\u{0}', '\u{7f}'];
pub const C2: &[char] = &['\u{80}', '\u{e9}', '\u{df}', '\u{3bb}', '\u{7ff}'];
pub const C3: &[char] = &['\u{800}', '\u{20ac}', '\u{4e2d}', '\u{d7ff}', '\u{e000}', '\u{fffd}', '\u{ffff}'];
pub const C4: &[char] = &['\u{10000}', '\u{1f600}', '\u{1d11e}', '\u{10ffff}'];

#[derive(Clone, Copy, PartialEq, Eq, Debug)]
pub enum Profile {
    General,
    Index,
    Range,
    Retain,
    Build,
    Sweep,
}
pub fn profile_from_str(s: &str) -> Profile {
    match s {
        "index" => Profile::Index,
        "range" => Profile::Range,
        "retain" => Profile::Retain,
        "build" => Profile::Build,
        "sweep" => Profile::Sweep,
        _ => Profile::General,
    }
}

pub struct Gen {
    pub rng: Rng,
    pub profile: Profile,
    pub remaining: usize,
    queue: VecDeque<Op>,
}

pub fn rand_char(r: &mut Rng) -> char {
    match r.weighted(&[40, 25, 20, 15]) {
        0 => r.pick(C1),
        1 => r.pick(C2),
        2 => r.pick(C3),
        _ => r.pick(C4),
    }
}
pub fn rand_text(r: &mut Rng, max_chars: u64) -> String {
    let n = r.below(max_chars + 1);
    (0..n).map(|_| rand_char(r)).collect()
}

fn rand_index(r: &mut Rng, cur: &str) -> usize {
    let len = cur.len();
    match r.weighted(&[35, 30, 12, 8, 15]) {
        0 => {
            // a char boundary
            let bs: Vec<usize> = cur.char_indices().map(|(i, _)| i).chain(std::iter::once(len)).collect();
            r.pick(&bs)
        }
        1 => r.below(len as u64 + 1) as usize,
        2 => len + 1 + r.below(2) as usize,
        3 => r.pick(&[usize::MAX, usize::MAX - 1, 1usize << 63, (1usize << 63) - 1]),
        _ => {
            if r.chance(1, 2) {
                0
            } else {
                len
            }
        }
    }
}

fn rand_range(r: &mut Rng, cur: &str) -> (Bd, Bd) {
    if r.chance(1, 16) {
        // F7 territory: inclusive end at usize::MAX, or an excluded start at usize::MAX
        return match r.below(4) {
            0 => (Bd::U, Bd::I(usize::MAX)),
            1 => (Bd::I(0), Bd::I(usize::MAX)),
            2 => (Bd::I(rand_index(r, cur)), Bd::I(usize::MAX)),
            _ => (Bd::E(usize::MAX), Bd::U),
        };
    }
    let mut a = rand_index(r, cur);
    let mut b = rand_index(r, cur);
    if a > b && r.chance(4, 5) {
        std::mem::swap(&mut a, &mut b);
    }
    let sb = match r.weighted(&[60, 30, 10]) {
        0 => Bd::I(a),
        1 => Bd::U,
        _ => Bd::E(a.wrapping_sub(1)),
    };
    let eb = match r.weighted(&[50, 25, 25]) {
        0 => Bd::E(b),
        1 => Bd::U,
        _ => Bd::I(b.wrapping_sub(1)),
    };
    (sb, eb)
}

impl Gen {
    pub fn new(seed: u64, profile: Profile, n_ops: usize) -> Gen {
        let mut g = Gen { rng: Rng::new(seed), profile, remaining: n_ops, queue: VecDeque::new() };
        if profile == Profile::Sweep {
            g.fill_sweep();
            g.remaining = g.queue.len();
        }
        g
    }

    /// every byte index / index pair / closure index over one base text
    fn fill_sweep(&mut self) {
        let r = &mut self.rng;
        let nchars = 3 + r.below(3);
        let mut base = String::new();
        // make sure all four widths occur
        let mut classes: Vec<usize> = vec![0, 1, 2, 3];
        while (classes.len() as u64) < nchars {
            classes.push(r.below(4) as usize);
        }
        for k in 0..classes.len() {
            let j = k + r.below((classes.len() - k) as u64) as usize;
            classes.swap(k, j);
        }
        for c in classes.iter().take(nchars as usize) {
            base.push(match c {
                0 => r.pick(C1),
                1 => r.pick(C2),
                2 => r.pick(C3),
                _ => r.pick(C4),
            });
        }
        let len = base.len();
        let ins = rand_char(r);
        let instr = rand_text(r, 2);
        let mut q: Vec<Op> = vec![];
        let mut one = |op: Op| {
            q.push(Op::FromStr(base.clone()));
            q.push(op);
        };
        for i in 0..=len + 1 {
            one(Op::Insert(i, ins));
            one(Op::InsertStr(i, instr.clone()));
            one(Op::Remove(i));
            one(Op::Truncate(i));
            one(Op::SplitOff { at: i, swap: i % 2 == 0 });
        }
        let mut form = 0usize;
        for a in 0..=len + 1 {
            for b in 0..=len + 1 {
                if a > b + 1 {
                    continue;
                }
                form += 1;
                let (sb, eb) = match form % 6 {
                    0 => (Bd::I(a), Bd::E(b)),
                    1 if a == 0 => (Bd::U, Bd::E(b)),
                    2 if b == len => (Bd::I(a), Bd::U),
                    3 if b > 0 => (Bd::I(a), Bd::I(b - 1)),
                    4 if a > 0 => (Bd::E(a - 1), Bd::E(b)),
                    5 if a == 0 && b > 0 => (Bd::U, Bd::I(b - 1)),
                    _ => (Bd::I(a), Bd::E(b)),
                };
                one(Op::Drain { sb, eb, take: (form % 3) * 2, back: form % 2, forget: false });
                one(Op::ReplaceRange { sb, eb, t: if form % 2 == 0 { instr.clone() } else { ins.to_string() } });
            }
        }
        one(Op::Drain { sb: Bd::U, eb: Bd::I(usize::MAX), take: 1, back: 0, forget: false });
        one(Op::ReplaceRange { sb: Bd::U, eb: Bd::I(usize::MAX), t: instr.clone() });
        one(Op::Drain { sb: Bd::E(usize::MAX), eb: Bd::U, take: 0, back: 0, forget: false });
        let n = base.chars().count();
        let masks: Vec<Vec<bool>> = vec![
            (0..n).map(|i| i != 0).collect(),
            (0..n).map(|i| i % 2 == 0).collect(),
            (0..n).map(|i| i % 2 == 1).collect(),
            (0..n).map(|_| r.chance(1, 2)).collect(),
            vec![true; n],
            vec![false; n],
        ];
        for m in masks {
            one(Op::Retain { ans: m.clone(), panic: None });
            for k in 0..n {
                one(Op::Retain { ans: m.clone(), panic: Some(k) });
            }
        }
        self.queue = q.into();
    }

    pub fn next(&mut self, cur: Option<&str>) -> Option<Op> {
        if self.remaining == 0 {
            return None;
        }
        self.remaining -= 1;
        if let Some(op) = self.queue.pop_front() {
            return Some(op);
        }
        let r = &mut self.rng;
        let cur = match cur {
            None => {
                return Some(match r.weighted(&[60, 15, 10, 15]) {
                    0 => Op::FromStr(rand_text(r, 8)),
                    1 => Op::New,
                    2 => Op::WithCap(r.pick(&[0usize, 1, 3, 8, 40])),
                    _ => Op::FromIter(rand_text(r, 6).chars().collect()),
                })
            }
            Some(c) => c,
        };
        //            push pstr pop ins istr rem trunc clr ret drain repl split extc exts clone write fmt ibs resv shrink ctor
        let w: [u32; 21] = match self.profile {
            Profile::Index => [6, 6, 4, 16, 12, 16, 12, 1, 2, 3, 3, 10, 2, 2, 1, 1, 0, 1, 1, 0, 1],
            Profile::Range => [6, 8, 2, 3, 3, 3, 2, 1, 2, 30, 30, 2, 2, 2, 1, 1, 0, 1, 0, 0, 1],
            Profile::Retain => [8, 10, 2, 3, 3, 3, 2, 1, 50, 3, 3, 2, 3, 3, 1, 1, 0, 1, 0, 0, 1],
            Profile::Build => [14, 14, 6, 3, 3, 3, 3, 2, 3, 2, 2, 3, 10, 10, 6, 6, 5, 3, 4, 3, 3],
            _ => [8, 8, 5, 7, 6, 7, 5, 1, 7, 8, 8, 5, 4, 4, 3, 3, 2, 2, 2, 1, 2],
        };
        Some(match r.weighted(&w) {
            0 => Op::Push(rand_char(r)),
            1 => Op::PushStr(rand_text(r, 4)),
            2 => Op::Pop,
            3 => Op::Insert(rand_index(r, cur), rand_char(r)),
            4 => Op::InsertStr(rand_index(r, cur), rand_text(r, 3)),
            5 => Op::Remove(rand_index(r, cur)),
            6 => if r.chance(2, 5) { Op::Index { kind: r.below(6) as u8, a: rand_index(r, cur), b: rand_index(r, cur) } } else { Op::Truncate(rand_index(r, cur)) },
            7 => Op::Clear,
            8 => {
                let n = cur.chars().count();
                let keep_num = r.pick(&[1u64, 2, 3]);
                let ans: Vec<bool> = (0..n + r.below(2) as usize).map(|_| r.chance(keep_num, 4)).collect();
                let panic = if n > 0 && r.chance(2, 5) { Some(r.below(n as u64 + 1) as usize) } else { None };
                Op::Retain { ans, panic }
            }
            9 => {
                let (sb, eb) = rand_range(r, cur);
                Op::Drain { sb, eb, take: r.pick(&[0usize, 0, 1, 2, 100]), back: r.pick(&[0usize, 0, 1, 100]), forget: r.chance(1, 12) }
            }
            10 => {
                let (sb, eb) = rand_range(r, cur);
                Op::ReplaceRange { sb, eb, t: rand_text(r, 3) }
            }
            11 => Op::SplitOff { at: rand_index(r, cur), swap: r.chance(1, 3) },
            12 => Op::ExtendChars { k: r.below(2) as u8, cs: rand_text(r, 4).chars().collect() },
            13 => Op::ExtendStrs { k: r.below(4) as u8, ts: (0..r.below(4)).map(|_| rand_text(r, 3)).collect() },
            14 => if r.chance(1, 2) { Op::CloneS { swap: r.chance(1, 2) } } else { Op::CloneFrom(rand_text(r, 5)) },
            15 => Op::Write { t: rand_text(r, 3), n: r.pick(&[0i64, 7, -1, 42, 1234567, i64::MIN, i64::MAX]) },
            16 => Op::Format { t: rand_text(r, 3), n: r.pick(&[0i64, -5, 99, 1000]) },
            17 => Op::IntoBumpStr,
            18 => Op::Reserve(r.pick(&[0usize, 1, 5, 17, 100, usize::MAX])),
            19 => Op::Shrink,
            _ => Op::FromStr(rand_text(r, 8)),
        })
    }
}
