//! Decoders: `from_utf8_lossy_in` vs `String::from_utf8_lossy`, `from_utf8` vs std,
//! `from_utf16_in` vs `String::from_utf16`.
use crate::exec::{profile_name, Outp};
use crate::ops::*;
use crate::util::Rng;
use bumpalo::collections::String as BString;
use bumpalo::collections::Vec as BVec;
use bumpalo::Bump;
use std::fmt::Write as _;
use std::panic::{catch_unwind, AssertUnwindSafe};

/// 24 bytes at the edges of every lead / continuation class of Unicode Table 3-7
pub const ALPHA: [u8; 24] = [
    0x00, 0x7F, 0x80, 0x8F, 0x90, 0x9F, 0xA0, 0xBF, 0xC0, 0xC1, 0xC2, 0xDF, 0xE0, 0xE1, 0xEC, 0xED, 0xEE, 0xEF, 0xF0, 0xF1, 0xF3, 0xF4, 0xF5, 0xFF,
];
/// UTF-16 units around the surrogate boundaries
pub const UNITS: [u16; 13] = [0x0000, 0x0041, 0x00E9, 0x20AC, 0xD7FF, 0xD800, 0xD801, 0xDBFF, 0xDC00, 0xDC01, 0xDFFF, 0xE000, 0xFFFF];

fn lossy_both(bump: &Bump, b: &[u8]) -> (Result<Vec<u8>, ()>, Vec<u8>) {
    let got = catch_unwind(AssertUnwindSafe(|| BString::from_utf8_lossy_in(b, bump).as_bytes().to_vec())).map_err(|_| ());
    let want = String::from_utf8_lossy(b).as_bytes().to_vec();
    (got, want)
}
fn utf8_both(bump: &Bump, b: &[u8]) -> (Result<String, ()>, String) {
    let got = catch_unwind(AssertUnwindSafe(|| {
        let v = BVec::from_iter_in(b.iter().copied(), bump);
        match BString::from_utf8(v) {
            Ok(s) => format!("ok:{}", hexs(s.as_bytes())),
            Err(e) => {
                let ue = e.utf8_error();
                let same = e.as_bytes() == b;
                format!("err:{}:{}{}", ue.valid_up_to(), ue.error_len().map(|n| n.to_string()).unwrap_or("-".into()), if same { "" } else { ":bytes-changed" })
            }
        }
    }))
    .map_err(|_| ());
    let want = match String::from_utf8(b.to_vec()) {
        Ok(s) => format!("ok:{}", hexs(s.as_bytes())),
        Err(e) => {
            let ue = e.utf8_error();
            format!("err:{}:{}", ue.valid_up_to(), ue.error_len().map(|n| n.to_string()).unwrap_or("-".into()))
        }
    };
    (got, want)
}
fn utf16_both(bump: &Bump, u: &[u16]) -> (Result<String, ()>, String) {
    let got = catch_unwind(AssertUnwindSafe(|| match BString::from_utf16_in(u, bump) {
        Ok(s) => format!("ok:{}", hexs(s.as_bytes())),
        Err(_) => "err".to_string(),
    }))
    .map_err(|_| ());
    let want = match String::from_utf16(u) {
        Ok(s) => format!("ok:{}", hexs(s.as_bytes())),
        Err(_) => "err".to_string(),
    };
    (got, want)
}

/// -> (RES text, oracle failures (name, detail))
pub fn run_one(bump: &Bump, op: &Op) -> (String, Vec<(&'static str, String)>) {
    let mut fails = vec![];
    let res = match op {
        Op::Lossy(b) => {
            let (got, want) = lossy_both(bump, b);
            match got {
                Ok(g) => {
                    if g != want {
                        fails.push(("lossy-std", format!("bumpalo={} std={}", hexs(&g), hexs(&want))));
                    }
                    if std::str::from_utf8(&g).is_err() {
                        fails.push(("lossy-invalid", format!("bumpalo={}", hexs(&g))));
                    }
                    format!("ok:{}", hexs(&g))
                }
                Err(()) => {
                    fails.push(("lossy-std", format!("bumpalo=panic std={}", hexs(&want))));
                    "panic".to_string()
                }
            }
        }
        Op::Utf8(b) => {
            let (got, want) = utf8_both(bump, b);
            match got {
                Ok(g) => {
                    if g != want {
                        fails.push(("utf8-std", format!("bumpalo={} std={}", g, want)));
                    }
                    g
                }
                Err(()) => {
                    fails.push(("utf8-std", format!("bumpalo=panic std={}", want)));
                    "panic".to_string()
                }
            }
        }
        Op::Utf16(u) => {
            let (got, want) = utf16_both(bump, u);
            match got {
                Ok(g) => {
                    if g != want {
                        fails.push(("utf16-std", format!("bumpalo={} std={}", g, want)));
                    }
                    g
                }
                Err(()) => {
                    fails.push(("utf16-std", format!("bumpalo=panic std={}", want)));
                    "panic".to_string()
                }
            }
        }
        Op::Glue(a, b) => {
            for (what, c, s) in glue_both(bump, a, b) {
                if c != s {
                    fails.push(("glue-std", format!("{}: bumpalo={} std={}", what, c, s)));
                }
            }
            "ok".to_string()
        }
        _ => "unsupported".to_string(),
    };
    (res, fails)
}

/// every trait impl of `collections::String` that has a counterpart on `std::string::String`, on the pair (a, b):
/// (what, the crate's answer, std's answer) as text; a panic on either side is the answer "panic"
fn glue_both(bump: &Bump, a: &str, b: &str) -> Vec<(&'static str, String, String)> {
    use std::borrow::{Borrow, Cow};
    use std::collections::hash_map::DefaultHasher;
    use std::hash::{Hash, Hasher};
    use std::panic::{catch_unwind, AssertUnwindSafe};
    type BS<'x> = bumpalo::collections::String<'x>;
    let h = |x: &dyn Fn(&mut DefaultHasher)| { let mut s = DefaultHasher::new(); x(&mut s); s.finish() };
    let g = |f: &dyn Fn() -> String| catch_unwind(AssertUnwindSafe(f)).unwrap_or_else(|_| "panic".to_string());
    let (ca, cb) = (BS::from_str_in(a, bump), BS::from_str_in(b, bump));
    let (sa, sb) = (a.to_string(), b.to_string());
    let mut v: Vec<(&'static str, String, String)> = vec![];
    v.push(("eq/ne", g(&|| format!("{} {}", ca == cb, ca != cb)), g(&|| format!("{} {}", sa == sb, sa != sb))));
    v.push(("eq-str", g(&|| format!("{} {} {} {}", ca == *b, ca != *b, *b == ca, *b != ca)), g(&|| format!("{} {} {} {}", sa == *b, sa != *b, *b == sa, *b != sa))));
    v.push(("eq-&str", g(&|| format!("{} {} {} {}", ca == b, ca != b, b == ca, b != ca)), g(&|| format!("{} {} {} {}", sa == b, sa != b, b == sa, b != sa))));
    v.push(("eq-cow", g(&|| { let c: Cow<str> = Cow::Borrowed(b); format!("{} {} {} {}", ca == c, ca != c, c == ca, c != ca) }),
            g(&|| { let c: Cow<str> = Cow::Borrowed(b); format!("{} {} {} {}", sa == c, sa != c, c == sa, c != sa) })));
    v.push(("eq-std-string", g(&|| format!("{} {} {} {}", ca == sb, ca != sb, sb == ca, sb != ca)), g(&|| format!("{} {} {} {}", sa == sb, sa != sb, sb == sa, sb != sa))));
    v.push(("ord", g(&|| format!("{:?} {:?} {} {} {} {}", ca.partial_cmp(&cb), ca.cmp(&cb), ca < cb, ca <= cb, ca > cb, ca >= cb)),
            g(&|| format!("{:?} {:?} {} {} {} {}", sa.partial_cmp(&sb), sa.cmp(&sb), sa < sb, sa <= sb, sa > sb, sa >= sb))));
    v.push(("hash", g(&|| format!("{}", h(&|s| ca.hash(s)))), g(&|| format!("{}", h(&|s| sa.hash(s))))));
    v.push(("fmt", g(&|| format!("{}|{:?}|{:>7}|{:.2}", ca, ca, ca, ca)), g(&|| format!("{}|{:?}|{:>7}|{:.2}", sa, sa, sa, sa))));
    v.push(("views", g(&|| { let r: &str = ca.as_ref(); let y: &[u8] = ca.as_ref(); let z: &str = ca.borrow(); format!("{:?} {:?} {:?} {:?} {:?} {}", r, y, z, &*ca, ca.as_str(), ca.len()) }),
            g(&|| { let r: &str = sa.as_ref(); let y: &[u8] = sa.as_ref(); let z: &str = sa.borrow(); format!("{:?} {:?} {:?} {:?} {:?} {}", r, y, z, &*sa, sa.as_str(), sa.len()) })));
    v.push(("add", g(&|| { let mut x = BS::from_str_in(a, bump) + b; x += b; format!("{:?}", x) }), g(&|| { let mut x = a.to_string() + b; x += b; format!("{:?}", x) })));
    v.push(("drain-iter", g(&|| { let mut x = BS::from_str_in(a, bump); let r = { let mut d = x.drain(..); let p = (d.size_hint(), d.next(), d.next_back(), d.next()); let rest: std::string::String = d.collect(); format!("{:?} {:?}", p, rest) }; format!("{} {:?}", r, x) }),
            g(&|| { let mut x = a.to_string(); let r = { let mut d = x.drain(..); let p = (d.size_hint(), d.next(), d.next_back(), d.next()); let rest: std::string::String = d.collect(); format!("{:?} {:?}", p, rest) }; format!("{} {:?}", r, x) })));
    v.push(("from-utf8", g(&|| { let bytes = bumpalo::collections::Vec::from_iter_in(a.bytes().chain(b.bytes().take(1)).chain(std::iter::once(0xFFu8)), bump);
                                 match BS::from_utf8(bytes) { Ok(s) => format!("ok {:?}", s), Err(e) => { let t = format!("err {:?} {}", e.as_bytes(), e.utf8_error()); format!("{} {:?}", t, e.into_bytes().len()) } } }),
            g(&|| { let bytes: Vec<u8> = a.bytes().chain(b.bytes().take(1)).chain(std::iter::once(0xFFu8)).collect();
                    match std::string::String::from_utf8(bytes) { Ok(s) => format!("ok {:?}", s), Err(e) => { let t = format!("err {:?} {}", e.as_bytes(), e.utf8_error()); format!("{} {:?}", t, e.into_bytes().len()) } } })));
    v
}

fn emit(out: &mut Outp, bump: &Bump, op: Op, idx: usize, line: bool) {
    let (res, fails) = run_one(bump, &op);
    out.checked += 1;
    if line || !fails.is_empty() {
        let t = op.to_text();
        writeln!(out.trace, "{} | RES {} | OBS -", t, res).unwrap();
        *out.kinds.entry(format!("{}:{}", op.name(), res.split(':').next().unwrap_or(""))).or_insert(0) += 1;
        out.n_ops += 1;
        for (name, detail) in fails {
            out.fails.push(format!("ORACLE C14 {} plan={} op={} {} {} profile={}", name, idx, out.n_ops - 1, t, detail, profile_name()));
        }
    }
}

/// all sequences over `alpha` of length exactly `len`, visiting `f`
fn for_seqs<T: Copy>(alpha: &[T], len: usize, f: &mut dyn FnMut(&[T])) {
    let mut idx = vec![0usize; len];
    let mut cur: Vec<T> = idx.iter().map(|i| alpha[*i]).collect();
    loop {
        f(&cur);
        let mut k = len;
        loop {
            if k == 0 {
                return;
            }
            k -= 1;
            idx[k] += 1;
            if idx[k] < alpha.len() {
                cur[k] = alpha[idx[k]];
                break;
            }
            idx[k] = 0;
            cur[k] = alpha[0];
        }
    }
}

/// `mode`:
///  exh   — every byte string of length <= maxlen whose first byte is in part i of n; compared with std in-process, no trace lines unless failing
///  alpha — every string over the 24-byte class alphabet up to maxlen; trace lines for the model
///  short — every byte string of length <= 2 (+ every 3-byte string starting with a lead in `leads`); trace lines
///  struct — n random strings of length 5-12 assembled from lead/continuation classes; trace lines
///  utf16 — every sequence over the surrogate-boundary units up to maxlen; trace lines
pub fn run(mode: &str, maxlen: usize, part: (usize, usize), n: usize, seed: u64, out: &mut Outp) {
    let mut bump = Bump::new();
    let header = format!("PLAN idx=0 seed={} gen=dec-{} profile={} ovf={} dbg={}", seed, mode, profile_name(), crate::exec::ovf() as u8, crate::exec::DBG as u8);
    crate::begin_plan(&header);
    writeln!(out.trace, "{}", header).unwrap();
    out.n_plans += 1;
    let mut count = 0usize;
    let mut tick = |bump: &mut Bump| {
        count += 1;
        if count % 4096 == 0 {
            bump.reset();
        }
    };
    match mode {
        "glue" => {
            let texts = ["", "a", "b", "ab", "aé", "é", "éa", "z\u{10FFFF}", "a\0", "\u{7FF}\u{800}", "ab\"c\\", "日本"];
            let mut i = 0usize;
            for a in texts.iter() {
                for b in texts.iter() {
                    emit(out, &bump, Op::Glue(a.to_string(), b.to_string()), 0, i % 12 == 0);
                    i += 1;
                    tick(&mut bump);
                }
            }
        }
        "exh" => {
            let all: Vec<u8> = (0..=255u8).collect();
            if part.0 == 0 {
                emit(out, &bump, Op::Lossy(vec![]), 0, true);
                emit(out, &bump, Op::Utf8(vec![]), 0, true);
            }
            for first in 0..256usize {
                if first % part.1 != part.0 {
                    continue;
                }
                for len in 1..=maxlen {
                    for_seqs(&all, len - 1, &mut |rest| {
                        let mut b = Vec::with_capacity(len);
                        b.push(first as u8);
                        b.extend_from_slice(rest);
                        emit(out, &bump, Op::Lossy(b.clone()), 0, false);
                        emit(out, &bump, Op::Utf8(b), 0, false);
                        tick(&mut bump);
                    });
                }
            }
        }
        "alpha" => {
            for len in 0..=maxlen {
                for_seqs(&ALPHA, len, &mut |b| {
                    if b.len() == len {
                        emit(out, &bump, Op::Lossy(b.to_vec()), 0, true);
                        emit(out, &bump, Op::Utf8(b.to_vec()), 0, true);
                        tick(&mut bump);
                    }
                });
            }
        }
        "short" => {
            let all: Vec<u8> = (0..=255u8).collect();
            for len in 0..=2usize {
                for_seqs(&all, len, &mut |b| {
                    emit(out, &bump, Op::Lossy(b.to_vec()), 0, true);
                    emit(out, &bump, Op::Utf8(b.to_vec()), 0, true);
                    tick(&mut bump);
                });
            }
            // three-byte strings with a three/four-byte lead and every second byte, third byte from the alphabet
            for lead in [0xE0u8, 0xE1, 0xEC, 0xED, 0xEE, 0xEF, 0xF0, 0xF1, 0xF3, 0xF4, 0xF5, 0xC2, 0xDF] {
                for second in 0..=255u8 {
                    for third in ALPHA {
                        emit(out, &bump, Op::Lossy(vec![lead, second, third]), 0, true);
                        tick(&mut bump);
                    }
                }
            }
        }
        "struct" => {
            let mut r = Rng::new(seed);
            for _ in 0..n {
                let target = 5 + r.below(8) as usize;
                let mut b: Vec<u8> = vec![];
                while b.len() < target {
                    match r.weighted(&[30, 30, 12, 10, 8, 10]) {
                        0 => {
                            // a well-formed scalar
                            let c = crate::gen::rand_char(&mut r);
                            let mut buf = [0u8; 4];
                            b.extend_from_slice(c.encode_utf8(&mut buf).as_bytes());
                        }
                        1 => {
                            // a lead followed by continuation-class bytes, possibly too few / out of its narrow range
                            let lead = r.pick(&[0xC2u8, 0xDF, 0xE0, 0xE1, 0xEC, 0xED, 0xEE, 0xEF, 0xF0, 0xF1, 0xF3, 0xF4]);
                            b.push(lead);
                            for _ in 0..r.below(4) {
                                b.push(r.pick(&[0x80u8, 0x8F, 0x90, 0x9F, 0xA0, 0xBF]));
                            }
                        }
                        2 => b.push(r.pick(&[0x80u8, 0x8F, 0x90, 0x9F, 0xA0, 0xBF])),
                        3 => b.push(r.pick(&[0xC0u8, 0xC1, 0xF5, 0xF8, 0xFE, 0xFF])),
                        4 => b.push(r.below(256) as u8),
                        _ => b.push(r.pick(&[0x00u8, 0x41, 0x7F])),
                    }
                }
                b.truncate(12);
                emit(out, &bump, Op::Lossy(b.clone()), 0, true);
                emit(out, &bump, Op::Utf8(b), 0, true);
                tick(&mut bump);
            }
        }
        "utf16" => {
            for len in 0..=maxlen {
                for_seqs(&UNITS, len, &mut |u| {
                    if u.len() == len {
                        emit(out, &bump, Op::Utf16(u.to_vec()), 0, true);
                        tick(&mut bump);
                    }
                });
            }
            let mut r = Rng::new(seed);
            for _ in 0..n {
                let len = r.below(9) as usize;
                let u: Vec<u16> = (0..len)
                    .map(|_| match r.weighted(&[30, 25, 25, 20]) {
                        0 => r.below(0x10000) as u16,
                        1 => 0xD800 + r.below(0x400) as u16,
                        2 => 0xDC00 + r.below(0x400) as u16,
                        _ => r.pick(&UNITS),
                    })
                    .collect();
                emit(out, &bump, Op::Utf16(u), 0, true);
                tick(&mut bump);
            }
        }
        _ => {
            eprintln!("unknown decoder mode {}", mode);
            std::process::exit(2);
        }
    }
    writeln!(out.trace, "END").unwrap();
}
