//! Executes a plan on `bumpalo::collections::Vec<T>` and on `std::vec::Vec<S>` side by side,
//! writes the trace and evaluates the model-independent oracles.
use crate::elems::*;
use crate::galloc;
use crate::plan::*;
use crate::util::*;
use bumpalo::collections::CollectIn;
use bumpalo::collections::String as BString;
use bumpalo::collections::Vec as BVec;
use bumpalo::Bump;
use std::collections::HashSet;
use std::panic::{catch_unwind, AssertUnwindSafe};

/// Source iterator handed to extend/splice/from_iter_in: controlled `size_hint`, can panic at
/// the k-th `next` call.  Items not yet handed out are dropped with the iterator.
pub struct SrcIter<T> {
    it: std::vec::IntoIter<T>,
    hint: usize,
    consumed: usize,
    calls: u32,
    panic_at: Option<u32>,
    /// what `size_hint().1` reports: 0 = None, 1 = Some(tight), 2 = Some(usize::MAX) — all honest upper bounds;
    /// derived from (hint, number of items) so that plans need no extra field (the forked algorithms do not read it)
    upper_mode: u8,
}
impl<T> SrcIter<T> {
    fn new(items: Vec<T>, hint: usize, panic_at: Option<u32>) -> Self {
        let upper_mode = ((hint + 2 * items.len()) % 3) as u8;
        SrcIter { it: items.into_iter(), hint, consumed: 0, calls: 0, panic_at, upper_mode }
    }
}
impl<T> Iterator for SrcIter<T> {
    type Item = T;
    fn next(&mut self) -> Option<T> {
        let k = self.calls;
        self.calls += 1;
        if self.panic_at == Some(k) {
            self.panic_at = None;
            set_fired();
            panic!("injected iterator panic");
        }
        let x = self.it.next();
        if x.is_some() {
            self.consumed += 1;
        }
        x
    }
    fn size_hint(&self) -> (usize, Option<usize>) {
        let lower = self.hint.saturating_sub(self.consumed);
        let upper = match self.upper_mode {
            0 => None,
            1 => Some(lower.max(self.it.len())),
            _ => Some(usize::MAX),
        };
        (lower, upper)
    }
}

pub struct Out {
    pub trace: String,
    pub oracle_fails: Vec<String>,
    pub n_ops: usize,
    pub res_kinds: Vec<(String, usize)>,
}

struct Env<'b, T: El, S: SEl> {
    bump: &'b Bump,
    bv: Vec<Option<BVec<'b, T>>>,
    sv: Vec<Option<Vec<S>>>,
    raws: Vec<(*const u8, usize, u8)>,
    nb_str: BString<'b>,
    nb_str_ref: String,
    nb_box: bumpalo::boxed::Box<'b, u64>,
    /// ids handed to the caller (returned values), already disposed of by the harness
    moved: HashSet<u64>,
    /// ids that may stay undropped: leaked on purpose, by a forgotten iterator or by a panic
    leaked_ok: HashSet<u64>,
    z_leaked: u64,
    panic_fired_in_plan: bool,
    /// iterator panic index replayed on the std side (extend / splice only)
    std_ipanic: Option<u32>,
    /// plan index + op index: picks between two spellings of the same call, reproducibly
    tick: usize,
    own_checks_off: bool,
}

fn pred_answer(ans: &[bool], calls: &mut u32, panic_at: Option<u32>) -> bool {
    let k = *calls;
    *calls += 1;
    if panic_at == Some(k) {
        set_fired();
        panic!("injected predicate panic");
    }
    ans.get(k as usize).copied().unwrap_or(false)
}

fn two_mut<X>(v: &mut [X], a: usize, b: usize) -> (&mut X, &mut X) {
    assert!(a != b);
    if a < b {
        let (l, r) = v.split_at_mut(b);
        (&mut l[a], &mut r[0])
    } else {
        let (l, r) = v.split_at_mut(a);
        (&mut r[0], &mut l[b])
    }
}

fn shows<T: El>(xs: &[T]) -> String {
    format!("[{}]", xs.iter().map(|e| e.show()).collect::<Vec<_>>().join(","))
}
fn vals_of<T: El>(xs: &[T]) -> Vec<u32> {
    xs.iter().map(|e| e.val()).collect()
}
fn svals<S: SEl>(xs: &[S]) -> Vec<u32> {
    xs.iter().map(|e| e.val()).collect()
}

/// result of one side: tag, values handed to the caller, values shown (slices looked at)
struct SideRes {
    tag: String,
    ret_vals: Vec<u32>,
    shown_vals: Vec<u32>,
}

const SKIP: &str = "skip";

impl<'b, T: El + PartialEq, S: SEl> Env<'b, T, S> {
    fn pk(op: &Op, k: Pk) -> Option<u32> {
        match op.panic {
            Some((kk, at)) if kk == k => Some(at),
            _ => None,
        }
    }

    /// the operation on the crate's Vec.  `args`: elements created for this call (moved in as
    /// needed), `src`: elements the call only borrows, `ret`: values handed back to the caller
    /// (kept outside so that they survive unwinding), `shown`: contents of returned slices.
    fn crate_op(&mut self, op: &Op, args: &mut Vec<T>, src: &[Vec<T>], ret: &mut Vec<T>, shown: &mut Vec<String>, shown_vals: &mut Vec<u32>) -> &'static str {
        let bump = self.bump;
        let name = op.name.as_str();
        let (v, w) = (op.v, op.w);
        let nv = self.bv.len();
        if v >= nv {
            return SKIP;
        }
        let creates = matches!(name, "new" | "with_cap" | "from_iter" | "collect_in" | "vmacro_n" | "vmacro_list");
        if creates {
            if self.bv[v].is_some() {
                return SKIP;
            }
        } else if self.bv[v].is_none() {
            return SKIP;
        }
        if matches!(name, "clone" | "split_off") && (w >= nv || w == v || self.bv[w].is_some()) {
            return SKIP;
        }
        if name == "append" && (w >= nv || w == v || self.bv[w].is_none()) {
            return SKIP;
        }
        if T::KIND == 'Z' && matches!(name, "resize" | "vmacro_n") && op.n > (1 << 16) {
            return SKIP; // would loop for ever on both sides
        }
        if T::KIND != 'C' && matches!(name, "extend_copy" | "extend_refs" | "extend_slices") {
            return SKIP;
        }
        let ipanic = Self::pk(op, Pk::Iter);
        let ppanic = Self::pk(op, Pk::Pred);
        match name {
            "new" => {
                self.bv[v] = Some(BVec::new_in(bump));
                "ok"
            }
            "with_cap" => {
                self.bv[v] = Some(BVec::with_capacity_in(op.n, bump));
                "ok"
            }
            "from_iter" => {
                let it = SrcIter::new(std::mem::take(args), op.hint, ipanic);
                self.bv[v] = Some(BVec::from_iter_in(it, bump));
                "ok"
            }
            "collect_in" => {
                let it = SrcIter::new(std::mem::take(args), op.hint, ipanic);
                self.bv[v] = Some(it.collect_in::<BVec<'b, T>>(bump));
                "ok"
            }
            "vmacro_n" => {
                let n = op.n;
                let nv = bumpalo::vec![in bump; args.pop().unwrap(); n];
                self.bv[v] = Some(nv);
                "ok"
            }
            "vmacro_list" => {
                let mut a = std::mem::take(args).into_iter();
                let mut nx = || a.next().unwrap();
                let nv: BVec<'b, T> = match op.xs.len() {
                    0 => bumpalo::vec![in bump],
                    1 => bumpalo::vec![in bump; nx()],
                    2 => bumpalo::vec![in bump; nx(), nx()],
                    3 => bumpalo::vec![in bump; nx(), nx(), nx()],
                    4 => bumpalo::vec![in bump; nx(), nx(), nx(), nx()],
                    5 => bumpalo::vec![in bump; nx(), nx(), nx(), nx(), nx()],
                    _ => bumpalo::vec![in bump; nx(), nx(), nx(), nx(), nx(), nx()],
                };
                self.bv[v] = Some(nv);
                "ok"
            }
            "push" => {
                self.bv[v].as_mut().unwrap().push(args.pop().unwrap());
                "ok"
            }
            "pop" => match self.bv[v].as_mut().unwrap().pop() {
                Some(e) => {
                    ret.push(e);
                    "some"
                }
                None => "none",
            },
            "insert" => {
                self.bv[v].as_mut().unwrap().insert(op.i, args.pop().unwrap());
                "ok"
            }
            "remove" => {
                let e = self.bv[v].as_mut().unwrap().remove(op.i);
                ret.push(e);
                "ok"
            }
            "swap_remove" => {
                let e = self.bv[v].as_mut().unwrap().swap_remove(op.i);
                ret.push(e);
                "ok"
            }
            "truncate" => {
                self.bv[v].as_mut().unwrap().truncate(op.n);
                "ok"
            }
            "clear" => {
                self.bv[v].as_mut().unwrap().clear();
                "ok"
            }
            "resize" => {
                self.bv[v].as_mut().unwrap().resize(op.n, args.pop().unwrap());
                "ok"
            }
            "extend" => {
                let it = SrcIter::new(std::mem::take(args), op.hint, ipanic);
                self.bv[v].as_mut().unwrap().extend(it);
                "ok"
            }
            "extend_from_slice" => {
                self.bv[v].as_mut().unwrap().extend_from_slice(&src[0]);
                "ok"
            }
            "extend_copy" => {
                T::extend_copy(self.bv[v].as_mut().unwrap(), &src[0]);
                "ok"
            }
            "extend_refs" => {
                // `Extend<&'a T> for Vec<T>` (`T: Copy`)
                T::extend_refs(self.bv[v].as_mut().unwrap(), &src[0]);
                "ok"
            }
            "extend_slices" => {
                let refs: Vec<&[T]> = src.iter().map(|s| &s[..]).collect();
                T::extend_slices(self.bv[v].as_mut().unwrap(), &refs);
                "ok"
            }
            "append" => {
                let (a, b) = two_mut(&mut self.bv, v, w);
                a.as_mut().unwrap().append(b.as_mut().unwrap());
                "ok"
            }
            "split_off" => {
                let o = self.bv[v].as_mut().unwrap().split_off(op.i);
                self.bv[w] = Some(o);
                "ok"
            }
            "drain" => {
                let vec = self.bv[v].as_mut().unwrap();
                let mut d = vec.drain((op.s.to_std(), op.e.to_std()));
                for _ in 0..op.take {
                    match d.next() {
                        Some(x) => ret.push(x),
                        None => break,
                    }
                }
                for _ in 0..op.back {
                    match d.next_back() {
                        Some(x) => ret.push(x),
                        None => break,
                    }
                }
                if op.forget {
                    std::mem::forget(d);
                } else {
                    drop(d);
                }
                "items"
            }
            "splice" => {
                let it = SrcIter::new(std::mem::take(args), op.hint, ipanic);
                let vec = self.bv[v].as_mut().unwrap();
                let mut sp = vec.splice((op.s.to_std(), op.e.to_std()), it);
                for _ in 0..op.take {
                    match sp.next() {
                        Some(x) => ret.push(x),
                        None => break,
                    }
                }
                drop(sp);
                "items"
            }
            "drain_filter" => {
                let mut calls = 0u32;
                let ans = &op.ans;
                let vec = self.bv[v].as_mut().unwrap();
                let mut df = vec.drain_filter(|_e| pred_answer(ans, &mut calls, ppanic));
                for _ in 0..op.take {
                    match df.next() {
                        Some(x) => ret.push(x),
                        None => break,
                    }
                }
                if op.forget {
                    std::mem::forget(df);
                } else {
                    drop(df);
                }
                "items"
            }
            "retain" => {
                let mut calls = 0u32;
                let ans = &op.ans;
                self.bv[v].as_mut().unwrap().retain(|_e| pred_answer(ans, &mut calls, ppanic));
                "ok"
            }
            "dedup" => {
                self.bv[v].as_mut().unwrap().dedup();
                "ok"
            }
            "dedup_by_lt" => {
                // an asymmetric relation of the two elements: `a` is the candidate, `b` the last element kept
                self.bv[v].as_mut().unwrap().dedup_by(|a, b| a.val() < b.val());
                "ok"
            }
            "dedup_by" => {
                let mut calls = 0u32;
                let ans = &op.ans;
                self.bv[v].as_mut().unwrap().dedup_by(|_a, _b| pred_answer(ans, &mut calls, ppanic));
                "ok"
            }
            "dedup_by_key" => {
                let mut calls = 0u32;
                let m = op.m;
                self.bv[v].as_mut().unwrap().dedup_by_key(|e| {
                    let k = calls;
                    calls += 1;
                    if ppanic == Some(k) {
                        set_fired();
                        panic!("injected key panic");
                    }
                    e.val() % m
                });
                "ok"
            }
            "reserve" => {
                self.bv[v].as_mut().unwrap().reserve(op.n);
                "ok"
            }
            "reserve_exact" => {
                self.bv[v].as_mut().unwrap().reserve_exact(op.n);
                "ok"
            }
            "try_reserve" => match self.bv[v].as_mut().unwrap().try_reserve(op.n) {
                Ok(()) => "ok",
                Err(bumpalo::collections::CollectionAllocErr::CapacityOverflow) => "err:cap",
                Err(bumpalo::collections::CollectionAllocErr::AllocErr) => "err:alloc",
            },
            "try_reserve_exact" => match self.bv[v].as_mut().unwrap().try_reserve_exact(op.n) {
                Ok(()) => "ok",
                Err(bumpalo::collections::CollectionAllocErr::CapacityOverflow) => "err:cap",
                Err(bumpalo::collections::CollectionAllocErr::AllocErr) => "err:alloc",
            },
            "shrink" => {
                if self.tick % 2 == 1 {
                    // identity: take the vector apart and put it together again (`from_raw_parts_in`)
                    let mut vec = std::mem::ManuallyDrop::new(self.bv[v].take().unwrap());
                    let (p, l, c) = (vec.as_mut_ptr(), vec.len(), vec.capacity());
                    self.bv[v] = Some(unsafe { BVec::from_raw_parts_in(p, l, c, bump) });
                }
                self.bv[v].as_mut().unwrap().shrink_to_fit();
                "ok"
            }
            "clone" => {
                let c = self.bv[v].as_ref().unwrap().clone();
                self.bv[w] = Some(c);
                "ok"
            }
            "into_iter" => {
                let vec = self.bv[v].take().unwrap();
                let mut it = vec.into_iter();
                for _ in 0..op.take {
                    match it.next() {
                        Some(x) => ret.push(x),
                        None => break,
                    }
                }
                for _ in 0..op.back {
                    match it.next_back() {
                        Some(x) => ret.push(x),
                        None => break,
                    }
                }
                if op.forget {
                    std::mem::forget(it);
                } else {
                    drop(it);
                }
                "items"
            }
            "into_iter_nth" => {
                // an iterator adaptor the crate does not override: Iterator::nth on the owning iterator
                let vec = self.bv[v].take().unwrap();
                let mut it = vec.into_iter();
                if let Some(x) = it.nth(op.n) {
                    ret.push(x);
                }
                drop(it);
                "items"
            }
            "into_bump_slice" => {
                let vec = self.bv[v].take().unwrap();
                // the `_mut` flavour must be the same conversion: taken for every other call
                let s: &'b [T] = if self.tick % 2 == 1 { vec.into_bump_slice_mut() } else { vec.into_bump_slice() };
                for e in s {
                    shown.push(e.show());
                    shown_vals.push(e.val());
                }
                "slice"
            }
            "into_boxed" => {
                let vec = self.bv[v].take().unwrap();
                let b = vec.into_boxed_slice();
                for e in b.iter() {
                    shown.push(e.show());
                    shown_vals.push(e.val());
                }
                drop(b);
                "slice"
            }
            "drop" => {
                let vec = self.bv[v].take().unwrap();
                drop(vec);
                "ok"
            }
            _ => SKIP,
        }
    }

    /// the same call on `std::vec::Vec` (the reference for values, contents, length and
    /// panic/no-panic).  `drain_filter` does not exist in today's std: its reference is the
    /// documented meaning (remove exactly the elements for which the predicate holds, in order,
    /// also when the iterator is dropped early); `dedup_by` with answers by call index likewise
    /// is the documented meaning written out.
    fn std_op(&mut self, op: &Op) -> SideRes {
        let name = op.name.as_str();
        let (v, w) = (op.v, op.w);
        let mut ret: Vec<u32> = vec![];
        let mut shown: Vec<u32> = vec![];
        let mk = |xs: &[u32]| -> Vec<S> { xs.iter().map(|x| S::mk(*x)).collect() };
        let tag: &str = match name {
            "new" => {
                self.sv[v] = Some(Vec::new());
                "ok"
            }
            "with_cap" => {
                self.sv[v] = Some(Vec::with_capacity(op.n));
                "ok"
            }
            "from_iter" | "collect_in" => {
                let it = SrcIter::new(mk(&op.xs), op.hint, None);
                self.sv[v] = Some(it.collect());
                "ok"
            }
            "vmacro_n" => {
                self.sv[v] = Some(vec![S::mk(op.x); op.n]);
                "ok"
            }
            "vmacro_list" => {
                self.sv[v] = Some(mk(&op.xs[..op.xs.len().min(6)]));
                "ok"
            }
            "push" => {
                self.sv[v].as_mut().unwrap().push(S::mk(op.x));
                "ok"
            }
            "pop" => match self.sv[v].as_mut().unwrap().pop() {
                Some(e) => {
                    ret.push(e.val());
                    "some"
                }
                None => "none",
            },
            "insert" => {
                self.sv[v].as_mut().unwrap().insert(op.i, S::mk(op.x));
                "ok"
            }
            "remove" => {
                let e = self.sv[v].as_mut().unwrap().remove(op.i);
                ret.push(e.val());
                "ok"
            }
            "swap_remove" => {
                let e = self.sv[v].as_mut().unwrap().swap_remove(op.i);
                ret.push(e.val());
                "ok"
            }
            "truncate" => {
                self.sv[v].as_mut().unwrap().truncate(op.n);
                "ok"
            }
            "clear" => {
                self.sv[v].as_mut().unwrap().clear();
                "ok"
            }
            "resize" => {
                self.sv[v].as_mut().unwrap().resize(op.n, S::mk(op.x));
                "ok"
            }
            "extend" => {
                let it = SrcIter::new(mk(&op.xs), op.hint, self.std_ipanic);
                self.sv[v].as_mut().unwrap().extend(it);
                "ok"
            }
            "extend_from_slice" | "extend_copy" | "extend_refs" => {
                self.sv[v].as_mut().unwrap().extend_from_slice(&mk(&op.xs));
                "ok"
            }
            "extend_slices" => {
                for xs in &op.xss {
                    self.sv[v].as_mut().unwrap().extend_from_slice(&mk(xs));
                }
                "ok"
            }
            "append" => {
                let (a, b) = two_mut(&mut self.sv, v, w);
                a.as_mut().unwrap().append(b.as_mut().unwrap());
                "ok"
            }
            "split_off" => {
                let o = self.sv[v].as_mut().unwrap().split_off(op.i);
                self.sv[w] = Some(o);
                "ok"
            }
            "drain" => {
                let vec = self.sv[v].as_mut().unwrap();
                let mut d = vec.drain((op.s.to_std(), op.e.to_std()));
                for _ in 0..op.take {
                    match d.next() {
                        Some(x) => ret.push(x.val()),
                        None => break,
                    }
                }
                for _ in 0..op.back {
                    match d.next_back() {
                        Some(x) => ret.push(x.val()),
                        None => break,
                    }
                }
                drop(d);
                "items"
            }
            "splice" => {
                let it = SrcIter::new(mk(&op.xs), op.hint, self.std_ipanic);
                let vec = self.sv[v].as_mut().unwrap();
                let mut sp = vec.splice((op.s.to_std(), op.e.to_std()), it);
                for _ in 0..op.take {
                    match sp.next() {
                        Some(x) => ret.push(x.val()),
                        None => break,
                    }
                }
                drop(sp);
                "items"
            }
            "drain_filter" => {
                // documented meaning: every element for which the predicate holds is removed (the
                // first `take` of them are handed to the caller), the others stay in order
                let vec = self.sv[v].as_mut().unwrap();
                let old = std::mem::take(vec);
                for (k, e) in old.into_iter().enumerate() {
                    if op.ans.get(k).copied().unwrap_or(false) {
                        if ret.len() < op.take {
                            ret.push(e.val());
                        }
                    } else {
                        vec.push(e);
                    }
                }
                "items"
            }
            "retain" => {
                let mut k = 0usize;
                self.sv[v].as_mut().unwrap().retain(|_| {
                    k += 1;
                    op.ans.get(k - 1).copied().unwrap_or(false)
                });
                "ok"
            }
            "dedup" => {
                self.sv[v].as_mut().unwrap().dedup();
                "ok"
            }
            "dedup_by_lt" => {
                self.sv[v].as_mut().unwrap().dedup_by(|a, b| a.val() < b.val());
                "ok"
            }
            "dedup_by" => {
                // documented meaning with the answers given per comparison, in slice order: an
                // element is removed when it is in the same bucket as the last kept one
                let vec = self.sv[v].as_mut().unwrap();
                let old = std::mem::take(vec);
                let mut k = 0usize;
                for (i, e) in old.into_iter().enumerate() {
                    if i == 0 {
                        vec.push(e);
                    } else {
                        let same = op.ans.get(k).copied().unwrap_or(false);
                        k += 1;
                        if !same {
                            vec.push(e);
                        }
                    }
                }
                "ok"
            }
            "dedup_by_key" => {
                let m = op.m;
                self.sv[v].as_mut().unwrap().dedup_by_key(|e| e.val() % m);
                "ok"
            }
            "reserve" => {
                self.sv[v].as_mut().unwrap().reserve(op.n);
                "ok"
            }
            "reserve_exact" => {
                self.sv[v].as_mut().unwrap().reserve_exact(op.n);
                "ok"
            }
            "try_reserve" | "try_reserve_exact" => {
                // `1 << 44` elements: the arena refuses; the reference must not really try
                if std::mem::size_of::<S>() != 0 && op.n == 1 << 44 {
                    "err:alloc"
                } else {
                    let r = if name == "try_reserve" { self.sv[v].as_mut().unwrap().try_reserve(op.n) } else { self.sv[v].as_mut().unwrap().try_reserve_exact(op.n) };
                    match r {
                        Ok(()) => "ok",
                        // the kind is only visible through `Debug` on stable
                        Err(e) => if format!("{:?}", e).contains("CapacityOverflow") { "err:cap" } else { "err:alloc" },
                    }
                }
            }
            "shrink" => {
                self.sv[v].as_mut().unwrap().shrink_to_fit();
                "ok"
            }
            "clone" => {
                let c = self.sv[v].as_ref().unwrap().clone();
                self.sv[w] = Some(c);
                "ok"
            }
            "into_iter" => {
                let vec = self.sv[v].take().unwrap();
                let mut it = vec.into_iter();
                for _ in 0..op.take {
                    match it.next() {
                        Some(x) => ret.push(x.val()),
                        None => break,
                    }
                }
                for _ in 0..op.back {
                    match it.next_back() {
                        Some(x) => ret.push(x.val()),
                        None => break,
                    }
                }
                "items"
            }
            "into_iter_nth" => {
                let vec = self.sv[v].take().unwrap();
                let mut it = vec.into_iter();
                if let Some(x) = it.nth(op.n) {
                    ret.push(x.val());
                }
                "items"
            }
            "into_bump_slice" => {
                let vec = self.sv[v].take().unwrap();
                let s: &'static mut [S] = vec.leak();
                shown = svals(s);
                // give the memory back (the reference side has no arena)
                drop(unsafe { Box::from_raw(s as *mut [S]) });
                "slice"
            }
            "into_boxed" => {
                let vec = self.sv[v].take().unwrap();
                let b = vec.into_boxed_slice();
                shown = svals(&b);
                "slice"
            }
            "drop" => {
                self.sv[v] = None;
                "ok"
            }
            _ => SKIP,
        };
        SideRes { tag: tag.to_string(), ret_vals: ret, shown_vals: shown }
    }

    fn resync_std(&mut self) {
        for j in 0..self.bv.len() {
            self.sv[j] = self.bv[j].as_ref().map(|b| b.iter().map(|e| S::mk(e.val())).collect());
        }
    }

    fn owned_ids(&self) -> Vec<u64> {
        let mut ids = vec![];
        for b in self.bv.iter().flatten() {
            for e in b.iter() {
                ids.push(e.id());
            }
        }
        ids
    }

    fn neighbours_ok(&self) -> Option<String> {
        for (k, (p, n, byte)) in self.raws.iter().enumerate() {
            let s = unsafe { std::slice::from_raw_parts(*p, *n) };
            if s.iter().any(|b| *b != *byte) {
                return Some(format!("raw-block#{} size={}", k, n));
            }
        }
        if self.nb_str.as_str() != self.nb_str_ref {
            return Some("string-neighbour".to_string());
        }
        if *self.nb_box != 0xB0B0_CAFE_F00D_u64 {
            return Some("box-neighbour".to_string());
        }
        None
    }
}

fn ids_text(ids: &[u64], kind: char) -> String {
    if kind == 'Z' {
        format!("[{}]", ids.iter().map(|_| "z").collect::<Vec<_>>().join(","))
    } else {
        format!("[{}]", ids.iter().map(|i| i.to_string()).collect::<Vec<_>>().join(","))
    }
}

pub fn run_plan<T: El + PartialEq, S: SEl>(plan: &mut Plan, gen: Option<(Profile, usize)>, ovf: bool, dbg: bool) -> Out {
    let mut out = Out { trace: String::new(), oracle_fails: vec![], n_ops: 0, res_kinds: vec![] };
    let header = plan.header(ovf, dbg);
    crate::begin_plan(&header);
    out.trace.push_str(&header);
    out.trace.push('\n');
    reset_plan();
    let mut kinds: std::collections::BTreeMap<String, usize> = Default::default();
    let bump = Bump::new();
    let mut rng = Rng::new(plan.seed);
    let kind = T::KIND;
    {
        let nv = plan.nv;
        let mut env: Env<T, S> = Env {
            bump: &bump,
            bv: (0..nv).map(|_| None).collect(),
            sv: (0..nv).map(|_| None).collect(),
            raws: vec![],
            nb_str: BString::from_str_in("nb:", &bump),
            nb_str_ref: "nb:".to_string(),
            nb_box: bumpalo::boxed::Box::new_in(0xB0B0_CAFE_F00D_u64, &bump),
            moved: HashSet::new(),
            leaked_ok: HashSet::new(),
            z_leaked: 0,
            panic_fired_in_plan: false,
            std_ipanic: None,
            tick: 0,
            own_checks_off: false,
        };
        let n_target = gen.map(|g| g.1).unwrap_or(plan.ops.len());
        let mut i = 0usize;
        while i < n_target {
            let op = if let Some((prof, _)) = gen {
                let view = GenView { lens: env.bv.iter().map(|b| b.as_ref().map(|b| b.len())).collect() };
                let op = gen_op(&mut rng, prof, kind, &view);
                plan.ops.push(op.clone());
                op
            } else {
                plan.ops[i].clone()
            };
            crate::set_current(plan.idx, i, &op.to_text());
            let id0 = next_id();
            let name = op.name.as_str();
            // ---- operations that only touch the neighbours ----
            if matches!(name, "raw" | "nb_str" | "iowrite") {
                let mut res = "ok".to_string();
                match name {
                    "raw" => {
                        let byte = (0xA0 + (env.raws.len() % 64)) as u8;
                        let s = bump.alloc_slice_fill_copy(op.n.min(4096), byte);
                        env.raws.push((s.as_ptr(), s.len(), byte));
                    }
                    "nb_str" => {
                        for k in 0..op.n.min(64) {
                            let c = (b'a' + ((i + k) % 26) as u8) as char;
                            env.nb_str.push(c);
                            env.nb_str_ref.push(c);
                        }
                    }
                    _ => {
                        use std::io::Write;
                        let data: Vec<u8> = (0..op.n.min(256)).map(|k| (k * 7 + i) as u8).collect();
                        let mut bw: BVec<u8> = BVec::new_in(&bump);
                        let mut sw: Vec<u8> = Vec::new();
                        let half = data.len() / 2;
                        let r1 = bw.write(&data[..half]).ok();
                        let r2 = sw.write(&data[..half]).ok();
                        bw.write_all(&data[half..]).unwrap();
                        sw.write_all(&data[half..]).unwrap();
                        let _ = bw.flush();
                        if r1 != r2 || &bw[..] != &sw[..] {
                            out.oracle_fails.push(format!("ORACLE C13 std-mismatch plan={} op={} iowrite contents differ", plan.idx, i));
                            res = "bad".to_string();
                        }
                    }
                }
                if let Some(nb) = env.neighbours_ok() {
                    out.oracle_fails.push(format!("ORACLE C13 neighbour-disturbed plan={} op={} {} by {}", plan.idx, i, nb, name));
                }
                out.trace.push_str(&format!("{} id0={} | RES {} | OBS -\n", op.to_text(), id0, res));
                *kinds.entry(format!("{}:{}", name, res)).or_insert(0) += 1;
                out.n_ops += 1;
                i += 1;
                continue;
            }
            // ---- arguments (created before the call, in this order) ----
            let mut args: Vec<T> = vec![];
            let mut src: Vec<Vec<T>> = vec![];
            match name {
                "push" | "insert" | "resize" | "vmacro_n" => args.push(T::mk(op.x)),
                "extend" | "splice" | "from_iter" | "collect_in" => args = op.xs.iter().map(|x| T::mk(*x)).collect(),
                "vmacro_list" => args = op.xs.iter().take(6).map(|x| T::mk(*x)).collect(),
                "extend_from_slice" | "extend_copy" | "extend_refs" => src.push(op.xs.iter().map(|x| T::mk(*x)).collect()),
                "extend_slices" => {
                    for xs in &op.xss {
                        src.push(xs.iter().map(|x| T::mk(*x)).collect());
                    }
                }
                _ => {}
            }
            let arg_ids: Vec<u64> = args.iter().map(|e| e.id()).collect();
            let pre_owned: Vec<u64> = if kind == 'E' { env.owned_ids() } else { vec![] };
            let pre_caps: Vec<Option<usize>> = env.bv.iter().map(|b| b.as_ref().map(|b| b.capacity())).collect();
            let pre_contents: Vec<Option<Vec<u64>>> = env.bv.iter().map(|b| b.as_ref().map(|b| b.iter().map(|e| e.id()).collect())).collect();
            let pre_len = env.bv.get(op.v).and_then(|b| b.as_ref().map(|b| b.len())).unwrap_or(0);
            let (z_created0, z_dropped0) = z_counts();
            // ---- the call on the crate ----
            let mut ret: Vec<T> = vec![];
            let mut shown: Vec<String> = vec![];
            let mut shown_vals: Vec<u32> = vec![];
            env.tick = plan.idx as usize + i;
            begin_op(Env::<T, S>::pk(&op, Pk::Clone), Env::<T, S>::pk(&op, Pk::Drop));
            let (r, _evs) = galloc::record(|| {
                catch_unwind(AssertUnwindSafe(|| env.crate_op(&op, &mut args, &src, &mut ret, &mut shown, &mut shown_vals)))
            });
            let fired = disarm();
            let op_drops = take_op_drops();
            let mut alloc_refused = false;
            let crate_tag: String = match r {
                Ok(t) => t.to_string(),
                Err(payload) => {
                    // environment observation only (never compared): did the arena refuse?
                    let msg = payload.downcast_ref::<String>().map(|s| s.as_str()).or_else(|| payload.downcast_ref::<&str>().copied()).unwrap_or("");
                    alloc_refused = msg.contains("allocation error");
                    "panic".to_string()
                }
            };
            if crate_tag == SKIP {
                drop(args);
                drop(src);
                take_op_drops();
                out.trace.push_str(&format!("{} id0={} | RES skip | OBS -\n", op.to_text(), id0));
                out.n_ops += 1;
                i += 1;
                continue;
            }
            let panicked = crate_tag == "panic";
            if fired {
                env.panic_fired_in_plan = true;
            }
            alloc_refused = alloc_refused || (crate_tag.starts_with("err") && op.n == 1 << 44);
            // what the caller now holds
            let moved_ids: Vec<u64> = ret.iter().map(|e| e.id()).collect();
            let ret_vals = vals_of(&ret);
            let ret_show = shows(&ret);
            let n_ret = ret.len();
            // leftovers the call never took (still the caller's)
            let leftover_ids: HashSet<u64> = args.iter().map(|e| e.id()).chain(src.iter().flatten().map(|e| e.id())).collect();
            let n_leftover = args.len() + src.iter().map(|s| s.len()).sum::<usize>();
            // ---- phase B: the caller disposes of what it holds ----
            drop(ret);
            drop(args);
            drop(src);
            let _caller_drops = take_op_drops();
            for id in &moved_ids {
                env.moved.insert(*id);
            }
            // ---- trace line ----
            let res_text = match crate_tag.as_str() {
                "items" | "some" => format!("{} {}", crate_tag, ret_show),
                "slice" => format!("slice [{}]", shown.join(",")),
                "ok" if n_ret > 0 => format!("ok {}", ret_show),
                t => t.to_string(),
            };
            let mut obs = format!("drops={} moved={}", ids_text(&op_drops, kind), ids_text(&moved_ids, kind));
            for (j, b) in env.bv.iter().enumerate() {
                match b {
                    None => obs.push_str(&format!(" v{}=-", j)),
                    Some(b) => obs.push_str(&format!(" v{}={}:{}:{}", j, b.len(), b.capacity(), shows(&b[..]))),
                }
            }
            out.trace.push_str(&format!("{} id0={}{} | RES {} | OBS {}\n", op.to_text(), id0, if alloc_refused { " env=allocfail" } else { "" }, res_text, obs));
            *kinds.entry(format!("{}:{}", name, crate_tag)).or_insert(0) += 1;
            out.n_ops += 1;
            let mut fail = |prop: &str, oname: &str, detail: String| {
                out.oracle_fails.push(format!("ORACLE {} {} plan={} op={} {} {}", prop, oname, plan.idx, i, name, detail));
            };
            // ---- C13: capacity promises, neighbours ----
            for (j, b) in env.bv.iter().enumerate() {
                if let Some(b) = b {
                    if b.capacity() < b.len() {
                        fail("C13", "cap-lt-len", format!("v{} len={} cap={}", j, b.len(), b.capacity()));
                    }
                }
            }
            if matches!(name, "reserve" | "reserve_exact" | "try_reserve" | "try_reserve_exact" | "with_cap") && crate_tag == "ok" {
                let b = env.bv[op.v].as_ref().unwrap();
                if b.capacity() < b.len().saturating_add(op.n) && b.len().checked_add(op.n).is_some() {
                    fail("C13", "reserve-not-honoured", format!("len={} n={} cap={}", b.len(), op.n, b.capacity()));
                }
            }
            // C13: a promise made by `reserve` / `with_capacity_in` stays good: no method other than the shrinking ones gives capacity
            // back (std's `Vec` never does), neither of the receiver nor of the other vector of `append`
            if matches!(name, "push" | "pop" | "insert" | "remove" | "swap_remove" | "truncate" | "clear" | "extend" | "extend_from_slice" | "extend_copy" | "extend_refs"
                | "extend_slices" | "append" | "resize" | "reserve" | "reserve_exact" | "try_reserve" | "try_reserve_exact" | "retain" | "dedup"
                | "dedup_by" | "dedup_by_lt" | "dedup_by_key")
            {
                for j in [op.v, op.w] {
                    if j != op.v && name != "append" {
                        continue;
                    }
                    if let (Some(Some(c0)), Some(Some(b))) = (pre_caps.get(j), env.bv.get(j).map(|b| b.as_ref())) {
                        if b.capacity() < *c0 {
                            fail("C13", "capacity-given-back", format!("v{} cap {} -> {} (len={})", j, c0, b.capacity(), b.len()));
                        }
                    }
                }
            }
            // C18 (Vec part): amortised growth — when one of the growing methods has to enlarge the buffer the
            // new capacity is at least twice the old one (RawVec: max(2*cap, required)); reserve_exact is exempt
            if matches!(name, "push" | "insert" | "extend" | "extend_from_slice" | "extend_copy" | "extend_refs" | "extend_slices" | "append"
                | "resize" | "reserve" | "try_reserve") && kind != 'Z'
            {
                if let (Some(Some(c0)), Some(Some(b))) = (pre_caps.get(op.v), env.bv.get(op.v).map(|b| b.as_ref())) {
                    if b.capacity() > *c0 && *c0 > 0 && b.capacity() < c0.saturating_mul(2) {
                        fail("C18", "growth-not-geometric", format!("v{} cap {} -> {} (len={})", op.v, c0, b.capacity(), b.len()));
                    }
                }
            }
            // C13: the slice views are the same elements as indexing/iteration shows
            if !panicked {
                if let Some(Some(b)) = env.bv.get_mut(op.v).map(|b| b.as_mut()) {
                    let n = b.len();
                    let by_iter: Vec<u64> = b.iter().map(|e| e.id()).collect();
                    let a: Vec<u64> = b.as_slice().iter().map(|e| e.id()).collect();
                    let m: Vec<u64> = b.as_mut_slice().iter().map(|e| e.id()).collect();
                    let (p0, p1) = (b.as_ptr() as usize, b.as_mut_ptr() as usize);
                    if a != by_iter || m != by_iter || a.len() != n || p0 != p1 {
                        fail("C13", "view-mismatch", format!("v{} len={} as_slice={} as_mut_slice={} iter={} as_ptr==as_mut_ptr:{}", op.v, n, a.len(), m.len(), by_iter.len(), p0 == p1));
                    }
                }
            }
            // C19 (Vec part): a reservation whose element count or byte size cannot be represented must be refused
            // (Err from the fallible methods, panic from the others), for every element size including zero
            if matches!(name, "reserve" | "reserve_exact" | "try_reserve" | "try_reserve_exact" | "with_cap") {
                let base = if name == "with_cap" { 0 } else { pre_len };
                let esz = std::mem::size_of::<T>();
                let impossible = match base.checked_add(op.n) {
                    None => true,
                    Some(need) => esz > 0 && need.checked_mul(esz).map_or(true, |b| b > isize::MAX as usize),
                };
                if impossible && !panicked && !crate_tag.starts_with("err") {
                    fail("C19", "unrepresentable-capacity-accepted", format!("{} len={} n={} elem-size={} -> {}", name, base, op.n, esz, crate_tag));
                }
            }
            if let Some(nb) = env.neighbours_ok() {
                fail("C13", "neighbour-disturbed", nb);
            }
            for (j, pre) in pre_contents.iter().enumerate() {
                let involved = j == op.v || (matches!(name, "append" | "split_off" | "clone") && j == op.w);
                if involved || kind == 'Z' {
                    continue;
                }
                let now: Option<Vec<u64>> = env.bv[j].as_ref().map(|b| b.iter().map(|e| e.id()).collect());
                if &now != pre {
                    fail("C13", "neighbour-disturbed", format!("sibling vector v{} changed", j));
                }
            }
            // ---- C13: std side by side ----
            let injected_panic = panicked && fired;
            if injected_panic || op.forget || (fired && !panicked) {
                // unwinding / leaking paths have no reference in std: only ownership is checked
                if !injected_panic && !(fired && !panicked) {
                    // forgotten iterator: run nothing on std, take the crate's contents
                }
                // A panicking *source iterator* in extend / splice is the one unwinding path whose outcome is
                // fixed by the algorithm the crate forked (every item taken so far has been written and counted;
                // Drain's drop then moves the tail behind them): replay it on std with the same panic index.
                let ip = Env::<T, S>::pk(&op, Pk::Iter);
                if injected_panic && kind != 'Z' && ip.is_some() && matches!(name, "extend" | "splice") && env.sv[op.v].is_some() {
                    env.std_ipanic = ip;
                    let sr = catch_unwind(AssertUnwindSafe(|| env.std_op(&op)));
                    env.std_ipanic = None;
                    let _ = disarm();
                    if sr.is_err() {
                        let c: Option<Vec<u32>> = env.bv[op.v].as_ref().map(|b| vals_of(&b[..]));
                        let s: Option<Vec<u32>> = env.sv[op.v].as_ref().map(|b| svals(&b[..]));
                        if c != s {
                            fail("C13", "std-mismatch-after-unwind", format!("contents v{} crate={:?} std={:?} {}", op.v, c, s, op.to_text()));
                        }
                    }
                }
                env.resync_std();
            } else {
                let crate_clones = clone_calls();
                let sr = catch_unwind(AssertUnwindSafe(|| env.std_op(&op)));
                // C13: where the number of `Clone::clone` calls is part of what `std` documents (`vec![x; n]` and a growing `resize`
                // clone n - 1 times and move the original in last; `extend_from_slice` / `clone` clone once per element), a user
                // `Clone` with side effects — or one that panics on its k-th call — sees the same calls (the std side of this
                // harness works on plain values, so the expected count is computed)
                let expected_clones: Option<usize> = match name {
                    "vmacro_n" => Some(op.n.saturating_sub(1)),
                    "resize" => Some(op.n.saturating_sub(pre_len).saturating_sub(1)),
                    "extend_from_slice" => Some(op.xs.len()),
                    "clone" => Some(pre_len),
                    _ => None,
                };
                if let Some(exp) = expected_clones {
                    if !panicked && sr.is_ok() && kind == 'E' && crate_tag == "ok" && crate_clones as usize != exp {
                        fail("C13", "clone-call-count", format!("{} crate made {} Clone calls, std makes {}", op.to_text(), crate_clones, exp));
                    }
                }
                let (stag, sret, sshown) = match sr {
                    Ok(s) => (s.tag, s.ret_vals, s.shown_vals),
                    Err(_) => ("panic".to_string(), vec![], vec![]),
                };
                let mut mismatch: Option<String> = None;
                if stag != crate_tag {
                    if (stag == "panic") != panicked {
                        mismatch = Some(format!("panic-mismatch crate={} std={} ovf={} {}", if panicked { "panic" } else { "ok" }, if stag == "panic" { "panic" } else { "ok" }, ovf as u8, op.to_text()));
                    } else {
                        mismatch = Some(format!("result-kind crate={} std={}", crate_tag, stag));
                    }
                } else if !panicked && kind != 'Z' && (sret != ret_vals || sshown != shown_vals) {
                    mismatch = Some(format!("returned-values crate={:?}{:?} std={:?}{:?}", ret_vals, shown_vals, sret, sshown));
                } else if !panicked && kind == 'Z' && (sret.len() != n_ret || sshown.len() != shown_vals.len()) {
                    mismatch = Some(format!("returned-count crate={} std={}", n_ret, sret.len()));
                }
                if mismatch.is_none() {
                    for j in 0..env.bv.len() {
                        let c: Option<Vec<u32>> = env.bv[j].as_ref().map(|b| vals_of(&b[..]));
                        let s: Option<Vec<u32>> = env.sv[j].as_ref().map(|b| svals(&b[..]));
                        if c != s {
                            mismatch = Some(format!("contents v{} crate={:?} std={:?}", j, c, s));
                            break;
                        }
                    }
                }
                if let Some(m) = mismatch {
                    fail("C13", "std-mismatch", m);
                    env.resync_std();
                }
            }
            // ---- C15 / C16: ownership ----
            let prop = if env.panic_fired_in_plan { "C16" } else { "C15" };
            let class = if name == "drain_filter" && injected_panic {
                // how many elements the caller's next() calls had deleted when the predicate panicked
                let at = Env::<T, S>::pk(&op, Pk::Pred).unwrap_or(0) as usize;
                let del = op.ans.iter().take(at).filter(|b| **b).count();
                format!("{} {} ppanic={} ans={} take={} ", if del < op.take { "panic-in-next" } else { "panic-in-drop" }, if del > 0 { "del>0" } else { "del=0" }, at,
                    op.ans.iter().map(|b| if *b { '1' } else { '0' }).collect::<String>(), op.take)
            } else if fired {
                format!("after-{}panic ", if panicked { "" } else { "swallowed-" })
            } else {
                String::new()
            };
            if kind == 'E' && !env.own_checks_off {
                let owned = env.owned_ids();
                let mut seen: HashSet<u64> = HashSet::new();
                let mut bad: Option<(&str, String)> = None;
                for id in &owned {
                    if !seen.insert(*id) {
                        bad = Some(("dup-reachable", format!("id {} reachable twice, ids={:?}", id, owned)));
                        break;
                    }
                    if drop_count(*id) > 0 {
                        bad = Some(("dropped-reachable", format!("id {} was dropped and is still reachable", id)));
                        break;
                    }
                    if env.moved.contains(id) {
                        bad = Some(("moved-reachable", format!("id {} was handed to the caller and is still reachable", id)));
                        break;
                    }
                }
                if bad.is_none() {
                    for id in op_drops.iter().chain(moved_ids.iter()) {
                        if drop_count(*id) > 1 {
                            bad = Some(("double-drop", format!("id {} dropped {} times", id, drop_count(*id))));
                            break;
                        }
                    }
                }
                if bad.is_none() && name == "into_bump_slice" && !op_drops.is_empty() {
                    bad = Some(("bump-slice-dropped", format!("into_bump_slice ran destructors of {:?}", op_drops)));
                }
                // conservation over this call: everything owned before or created for the call is
                // now owned, dropped once, or in the caller's hands (leaks only where allowed)
                if bad.is_none() {
                    let dropped: HashSet<u64> = op_drops.iter().copied().collect();
                    let movedset: HashSet<u64> = moved_ids.iter().copied().collect();
                    let leak_allowed = op.forget || fired || name == "into_bump_slice";
                    let created: Vec<u64> = (id0..next_id()).collect();
                    let mut lost = vec![];
                    for id in pre_owned.iter().chain(arg_ids.iter()).chain(created.iter()) {
                        if seen.contains(id) || dropped.contains(id) || movedset.contains(id) || leftover_ids.contains(id) {
                            continue;
                        }
                        lost.push(*id);
                    }
                    lost.sort();
                    lost.dedup();
                    if !lost.is_empty() {
                        if leak_allowed {
                            for id in &lost {
                                env.leaked_ok.insert(*id);
                            }
                        } else {
                            bad = Some(("leak", format!("ids {:?} are neither owned, dropped nor returned after a call that did not panic", lost)));
                        }
                    }
                }
                if let Some((oname, detail)) = bad {
                    if matches!(oname, "dup-reachable" | "dropped-reachable" | "moved-reachable") {
                        // C13: a std Vec never exposes a value twice, nor one whose destructor already ran or that was
                        // handed out — whatever the call did (also after an unwinding destructor), the contents are not
                        // those of any vector
                        fail("C13", "dead-or-duplicate-element-reachable", format!("{}{} {}", class, oname, detail));
                    }
                    fail(prop, "ownership", format!("{}{} {}", class, oname, detail));
                    env.own_checks_off = true; // the ledger is now inconsistent by construction
                }
            }
            if kind == 'Z' && !env.own_checks_off {
                let (zc, zd) = z_counts();
                let owned: u64 = env.bv.iter().flatten().map(|b| b.len() as u64).sum();
                if name == "into_bump_slice" && !panicked {
                    env.z_leaked += shown_vals.len() as u64;
                }
                let accounted = owned + zd + env.z_leaked;
                let leak_allowed = op.forget || fired;
                if accounted > zc {
                    fail(prop, "ownership", format!("{}double-drop zero-sized: created={} owned={} dropped={} leaked={}", class, zc, owned, zd, env.z_leaked));
                    env.own_checks_off = true;
                } else if accounted < zc {
                    if leak_allowed {
                        env.z_leaked += zc - accounted;
                    } else {
                        fail(prop, "ownership", format!("{}leak zero-sized: created={} owned={} dropped={} leaked={}", class, zc, owned, zd, env.z_leaked));
                        env.own_checks_off = true;
                    }
                }
                let _ = (z_created0, z_dropped0, n_leftover);
            }
            let _ = pre_len;
            i += 1;
        }
        // ---- end of plan: drop every container, then (below) the arena ----
        let prop = if env.panic_fired_in_plan { "C16" } else { "C15" };
        begin_op(None, None);
        let held: Vec<u64> = env.owned_ids();
        for j in 0..env.bv.len() {
            env.bv[j] = None;
            env.sv[j] = None;
        }
        let end_drops = take_op_drops();
        out.trace.push_str(&format!("END drops={}\n", ids_text(&end_drops, kind)));
        if !env.own_checks_off {
            if kind == 'E' {
                for id in &end_drops {
                    if drop_count(*id) > 1 {
                        out.oracle_fails.push(format!("ORACLE {} ownership plan={} op={} end double-drop id {} dropped {} times when the containers were dropped", prop, plan.idx, plan.ops.len(), id, drop_count(*id)));
                        break;
                    }
                }
                let hs: HashSet<u64> = end_drops.iter().copied().collect();
                if held.iter().any(|id| !hs.contains(id)) {
                    out.oracle_fails.push(format!("ORACLE {} ownership plan={} op={} end not-dropped held={:?} dropped={:?}", prop, plan.idx, plan.ops.len(), held, end_drops));
                }
                // every id ever created: dropped exactly once unless deliberately leaked
                for id in 1..next_id() {
                    let c = drop_count(id);
                    if c > 1 || (c == 0 && !env.leaked_ok.contains(&id)) {
                        out.oracle_fails.push(format!("ORACLE {} ownership plan={} op={} end ledger id {} dropped {} times (leak allowed: {})", prop, plan.idx, plan.ops.len(), id, c, env.leaked_ok.contains(&id)));
                        break;
                    }
                }
            } else if kind == 'Z' {
                let (zc, zd) = z_counts();
                if zd + env.z_leaked != zc {
                    out.oracle_fails.push(format!("ORACLE {} ownership plan={} op={} end ledger zero-sized created={} dropped={} leaked={}", prop, plan.idx, plan.ops.len(), zc, zd, env.z_leaked));
                }
            }
        }
        if overflowed() {
            out.trace.push_str("# ledger overflow: ownership checks of this plan are incomplete\n");
        }
        // the arena's own drop must not run destructors
        drop(env);
    }
    begin_op(None, None);
    drop(bump);
    let after = take_op_drops();
    if !after.is_empty() {
        out.oracle_fails.push(format!("ORACLE C15 ownership plan={} op={} end arena-drop-ran-destructors ids={:?}", plan.idx, plan.ops.len(), after));
    }
    out.res_kinds = kinds.into_iter().collect();
    out
}
