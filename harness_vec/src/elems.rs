//! Element types with observable destructors, and the drop ledger.
//!
//! The ledger is thread-local and pre-reserved, so that recording a drop never allocates
//! (destructors run inside crate calls and during unwinding).
use std::cell::RefCell;

pub const MAX_IDS: usize = 1 << 17;

pub struct Ledger {
    pub next_id: u64,
    /// per id: how many times its destructor ran
    pub count: Vec<u8>,
    /// ids dropped since `begin_op`, in order (0 for zero-sized elements)
    pub op_drops: Vec<u64>,
    /// number of zero-sized elements created / dropped in this plan
    pub z_created: u64,
    pub z_dropped: u64,
    pub clone_calls: u32,
    pub drop_calls: u32,
    pub clone_panic_at: Option<u32>,
    pub drop_panic_at: Option<u32>,
    pub fired: bool,
    pub overflow: bool,
}

thread_local! {
    pub static LEDGER: RefCell<Ledger> = RefCell::new(Ledger {
        next_id: 1, count: Vec::new(), op_drops: Vec::new(), z_created: 0, z_dropped: 0,
        clone_calls: 0, drop_calls: 0, clone_panic_at: None, drop_panic_at: None, fired: false, overflow: false,
    });
}

pub fn reset_plan() {
    LEDGER.with(|l| {
        let mut l = l.borrow_mut();
        l.next_id = 1;
        l.count.clear();
        l.count.resize(MAX_IDS, 0);
        l.op_drops.clear();
        l.op_drops.reserve(1 << 16);
        l.z_created = 0;
        l.z_dropped = 0;
        l.clone_calls = 0;
        l.drop_calls = 0;
        l.clone_panic_at = None;
        l.drop_panic_at = None;
        l.fired = false;
        l.overflow = false;
    });
}

/// start of an operation: clears the per-op drop log and call counters, arms triggers
pub fn begin_op(clone_panic_at: Option<u32>, drop_panic_at: Option<u32>) {
    LEDGER.with(|l| {
        let mut l = l.borrow_mut();
        l.op_drops.clear();
        l.clone_calls = 0;
        l.drop_calls = 0;
        l.clone_panic_at = clone_panic_at;
        l.drop_panic_at = drop_panic_at;
        l.fired = false;
    });
}
/// number of `Clone::clone` calls on elements since `begin_op` / the last `reset_clone_calls`
pub fn clone_calls() -> u32 {
    LEDGER.with(|l| l.borrow().clone_calls)
}
pub fn reset_clone_calls() {
    LEDGER.with(|l| l.borrow_mut().clone_calls = 0);
}

pub fn disarm() -> bool {
    LEDGER.with(|l| {
        let mut l = l.borrow_mut();
        l.clone_panic_at = None;
        l.drop_panic_at = None;
        l.fired
    })
}
pub fn set_fired() {
    LEDGER.with(|l| l.borrow_mut().fired = true);
}
pub fn take_op_drops() -> Vec<u64> {
    LEDGER.with(|l| {
        let mut l = l.borrow_mut();
        let v = l.op_drops.clone();
        l.op_drops.clear();
        v
    })
}
pub fn next_id() -> u64 {
    LEDGER.with(|l| l.borrow().next_id)
}
pub fn drop_count(id: u64) -> u8 {
    LEDGER.with(|l| l.borrow().count.get(id as usize).copied().unwrap_or(0))
}
pub fn z_counts() -> (u64, u64) {
    LEDGER.with(|l| {
        let l = l.borrow();
        (l.z_created, l.z_dropped)
    })
}
pub fn overflowed() -> bool {
    LEDGER.with(|l| l.borrow().overflow)
}

fn fresh_id() -> u64 {
    LEDGER.with(|l| {
        let mut l = l.borrow_mut();
        let id = l.next_id;
        l.next_id += 1;
        if id as usize >= MAX_IDS {
            l.overflow = true;
        }
        id
    })
}

/// records a destructor call; returns true if this call must panic
fn record_drop(id: u64, zst: bool) -> bool {
    LEDGER
        .try_with(|l| {
            let mut l = match l.try_borrow_mut() {
                Ok(l) => l,
                Err(_) => return false,
            };
            if zst {
                l.z_dropped += 1;
            } else if (id as usize) < l.count.len() {
                let c = l.count[id as usize];
                l.count[id as usize] = c.saturating_add(1);
            }
            if l.op_drops.len() < l.op_drops.capacity() {
                l.op_drops.push(id);
            } else {
                l.overflow = true;
            }
            let k = l.drop_calls;
            l.drop_calls += 1;
            if l.drop_panic_at == Some(k) && !std::thread::panicking() {
                l.drop_panic_at = None;
                l.fired = true;
                true
            } else {
                false
            }
        })
        .unwrap_or(false)
}

/// records a clone call; returns true if this call must panic
fn record_clone() -> bool {
    LEDGER.with(|l| {
        let mut l = l.borrow_mut();
        let k = l.clone_calls;
        l.clone_calls += 1;
        if l.clone_panic_at == Some(k) {
            l.clone_panic_at = None;
            l.fired = true;
            true
        } else {
            false
        }
    })
}

pub trait El: Clone + 'static {
    const KIND: char;
    const SIZE: usize;
    fn mk(val: u32) -> Self;
    fn id(&self) -> u64;
    fn val(&self) -> u32;
    fn show(&self) -> String;
    fn extend_copy<'b>(_v: &mut bumpalo::collections::Vec<'b, Self>, _xs: &[Self]) {
        unreachable!("extend_from_slice_copy needs a Copy element")
    }
    fn extend_slices<'b>(_v: &mut bumpalo::collections::Vec<'b, Self>, _xs: &[&[Self]]) {
        unreachable!("extend_from_slices_copy needs a Copy element")
    }
    fn extend_refs<'b>(_v: &mut bumpalo::collections::Vec<'b, Self>, _xs: &[Self]) {
        unreachable!("Extend<&T> needs a Copy element")
    }
}

/// sized element with a unique id, a value, a logging destructor and a Clone that makes a fresh id
#[derive(Debug)]
pub struct Elem {
    pub id: u64,
    pub val: u32,
}
impl Drop for Elem {
    fn drop(&mut self) {
        if record_drop(self.id, false) {
            panic!("injected destructor panic");
        }
    }
}
impl Clone for Elem {
    fn clone(&self) -> Self {
        if record_clone() {
            panic!("injected clone panic");
        }
        Elem { id: fresh_id(), val: self.val }
    }
}
impl PartialEq for Elem {
    fn eq(&self, o: &Self) -> bool {
        self.val == o.val
    }
}
impl El for Elem {
    const KIND: char = 'E';
    const SIZE: usize = 16;
    fn mk(val: u32) -> Self {
        Elem { id: fresh_id(), val }
    }
    fn id(&self) -> u64 {
        self.id
    }
    fn val(&self) -> u32 {
        self.val
    }
    fn show(&self) -> String {
        format!("{}:{}", self.id, self.val)
    }
}

/// zero-sized element with a counting destructor
#[derive(Debug)]
pub struct Zst;
impl Drop for Zst {
    fn drop(&mut self) {
        if record_drop(0, true) {
            panic!("injected destructor panic");
        }
    }
}
impl Clone for Zst {
    fn clone(&self) -> Self {
        if record_clone() {
            panic!("injected clone panic");
        }
        Zst::mk(0)
    }
}
impl PartialEq for Zst {
    fn eq(&self, _o: &Self) -> bool {
        true
    }
}
impl El for Zst {
    const KIND: char = 'Z';
    const SIZE: usize = 0;
    fn mk(_val: u32) -> Self {
        LEDGER.with(|l| l.borrow_mut().z_created += 1);
        Zst
    }
    fn id(&self) -> u64 {
        0
    }
    fn val(&self) -> u32 {
        0
    }
    fn show(&self) -> String {
        "z".to_string()
    }
}

/// plain-data element (Copy): copies share the id, no destructor
#[derive(Debug, Clone, Copy)]
pub struct CElem {
    pub id: u64,
    pub val: u32,
}
impl PartialEq for CElem {
    fn eq(&self, o: &Self) -> bool {
        self.val == o.val
    }
}
impl El for CElem {
    const KIND: char = 'C';
    const SIZE: usize = 16;
    fn mk(val: u32) -> Self {
        CElem { id: fresh_id(), val }
    }
    fn id(&self) -> u64 {
        self.id
    }
    fn val(&self) -> u32 {
        self.val
    }
    fn show(&self) -> String {
        format!("{}:{}", self.id, self.val)
    }
    fn extend_copy<'b>(v: &mut bumpalo::collections::Vec<'b, Self>, xs: &[Self]) {
        v.extend_from_slice_copy(xs)
    }
    fn extend_slices<'b>(v: &mut bumpalo::collections::Vec<'b, Self>, xs: &[&[Self]]) {
        v.extend_from_slices_copy(xs)
    }
    fn extend_refs<'b>(v: &mut bumpalo::collections::Vec<'b, Self>, xs: &[Self]) {
        v.extend(xs.iter())
    }
}

/// element of the `std::vec::Vec` run side by side: only the value
pub trait SEl: Clone + PartialEq + 'static {
    fn mk(val: u32) -> Self;
    fn val(&self) -> u32;
}
/// same size as `Elem`, so that the same counts overflow the same way on both sides
#[derive(Clone, PartialEq, Debug)]
pub struct SE {
    pub val: u32,
    pub pad: u64,
}
impl SEl for SE {
    fn mk(val: u32) -> Self {
        SE { val, pad: 0 }
    }
    fn val(&self) -> u32 {
        self.val
    }
}
impl SEl for () {
    fn mk(_val: u32) -> Self {}
    fn val(&self) -> u32 {
        0
    }
}
