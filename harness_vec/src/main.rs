//! `bvh_vec vec seed= plans= ops= profile= out= curplan=`  |  `bvh_vec replay <file> out=`
//! Drives `bumpalo::collections::Vec` and `std::vec::Vec` side by side through generated or
//! replayed plans, writes the trace read by the Lean driver `bvdrv_vec`, and reports
//! `ORACLE <prop> <name> plan=<k> op=<i> <detail>` lines.
mod elems;
mod exec;
mod galloc;
mod plan;
mod util;

use elems::*;
use exec::*;
use plan::*;
use std::io::Write;
use std::sync::Mutex;
use util::*;

#[global_allocator]
static GLOBAL: galloc::G = galloc::G;

static CURRENT: Mutex<String> = Mutex::new(String::new());
static OUT_PATH: Mutex<String> = Mutex::new(String::new());
static CURPLAN: Mutex<Option<std::fs::File>> = Mutex::new(None);

pub fn begin_plan(header: &str) {
    if let Ok(mut g) = CURPLAN.lock() {
        if let Some(f) = g.as_mut() {
            use std::io::{Seek, SeekFrom};
            let _ = f.set_len(0);
            let _ = f.seek(SeekFrom::Start(0));
            let _ = writeln!(f, "{}", header);
        }
    }
}

pub fn set_current(plan: usize, op_idx: usize, text: &str) {
    if let Ok(mut c) = CURRENT.lock() {
        c.clear();
        use std::fmt::Write as _;
        let _ = write!(c, "plan={} op={} {}", plan, op_idx, text);
    }
    if let Ok(mut g) = CURPLAN.lock() {
        if let Some(f) = g.as_mut() {
            let _ = writeln!(f, "{}", text);
        }
    }
    if std::env::var_os("BVH_TRACE_OPS").is_some() {
        eprintln!("BEGIN plan={} op={} {}", plan, op_idx, text);
    }
}

/// Called from inside the allocator when a crate call keeps asking after 300k refusals.
pub fn hang_exit() -> ! {
    galloc::recording_off();
    let cur = CURRENT.try_lock().map(|c| c.clone()).unwrap_or_default();
    let path = OUT_PATH.try_lock().map(|c| c.clone()).unwrap_or_default();
    if let Ok(mut f) = std::fs::OpenOptions::new().append(true).open(&path) {
        let _ = writeln!(f, "\nORACLE C13 does-not-terminate {}", cur);
    }
    std::process::exit(3);
}

/// is this binary (and so the crate under test) built with overflow checks?
fn overflow_checks_on() -> bool {
    let x: u8 = std::hint::black_box(255);
    std::panic::catch_unwind(|| {
        let y = std::hint::black_box(x) + std::hint::black_box(1u8);
        std::hint::black_box(y);
    })
    .is_err()
}

fn run_kind(plan: &mut Plan, gen: Option<(Profile, usize)>, ovf: bool, dbg: bool) -> Out {
    match plan.kind {
        'Z' => run_plan::<Zst, ()>(plan, gen, ovf, dbg),
        'C' => run_plan::<CElem, SE>(plan, gen, ovf, dbg),
        _ => run_plan::<Elem, SE>(plan, gen, ovf, dbg),
    }
}

/// C19, fixed boundary scenarios that no generated plan reaches (element counts around `usize::MAX` need zero-sized
/// elements; there is no `std` counterpart of `extend_from_slices_copy`, the reference is the same slices appended one
/// by one with `extend_from_slice_copy`).  Each line returned is an oracle failure.
fn boundary() -> Vec<String> {
    use bumpalo::collections::Vec as BVec;
    use std::panic::{catch_unwind, AssertUnwindSafe};
    let mut fails = vec![];
    let mut trace = String::from("# BOUNDARY\n");
    static BIG: [(); usize::MAX] = [(); usize::MAX];
    let few = [(); 3];
    // (slices, length before) — totals on both sides of usize::MAX
    let cases: [(&str, std::vec::Vec<&[()]>, usize); 6] = [
        ("max", vec![&BIG[..]], 0),
        ("max+3", vec![&BIG[..], &few[..]], 0),
        ("3+max", vec![&few[..], &BIG[..]], 0),
        ("max+max", vec![&BIG[..], &BIG[..]], 0),
        ("len2+max-3+3", vec![&BIG[..usize::MAX - 3], &few[..]], 2),
        ("len0+max-3+3", vec![&BIG[..usize::MAX - 3], &few[..]], 0),
    ];
    for (name, slices, pre) in cases.iter() {
        let b = bumpalo::Bump::new();
        let total: Option<usize> = slices.iter().try_fold(*pre, |a, s| a.checked_add(s.len()));
        let mut v: BVec<()> = BVec::new_in(&b);
        for _ in 0..*pre {
            v.push(());
        }
        let r = catch_unwind(AssertUnwindSafe(|| v.extend_from_slices_copy(slices)));
        let mut u: BVec<()> = BVec::new_in(&b);
        for _ in 0..*pre {
            u.push(());
        }
        let r1 = catch_unwind(AssertUnwindSafe(|| {
            for s in slices.iter() {
                u.extend_from_slice_copy(s);
            }
        }));
        trace.push_str(&format!("# boundary {} total={:?} slices_copy: panicked={} len={} | one-by-one: panicked={} len={}\n", name, total, r.is_err(), v.len(), r1.is_err(), u.len()));
        // C13: no `std` method of this name; the reference is the same slices appended one by one (same panics, same length)
        if r.is_err() != r1.is_err() || (r.is_ok() && v.len() != u.len()) {
            fails.push(format!(
                "ORACLE C13 std-mismatch boundary={} extend_from_slices_copy: panicked={} len={} but the same slices appended one by one: panicked={} len={}",
                name, r.is_err(), v.len(), r1.is_err(), u.len()));
        }
        match total {
            None if r.is_ok() => fails.push(format!(
                "ORACLE C19 unrepresentable-total-accepted boundary={} extend_from_slices_copy of zero-sized slices whose lengths sum above usize::MAX returned with len={} (one by one: panicked={})",
                name, v.len(), r1.is_err())),
            Some(t) if r.is_err() || v.len() != t => fails.push(format!(
                "ORACLE C19 representable-total-refused boundary={} total={} panicked={} len={}", name, t, r.is_err(), v.len())),
            _ => {}
        }
    }
    // C13, the iterator structs as iterators (no model for these: `std` side by side): double-ended / exact-size use of
    // `Splice`, `Drain`, `IntoIter`, and the by-reference `IntoIterator` impls
    {
        let b = bumpalo::Bump::new();
        let base: std::vec::Vec<u32> = (1..=8).collect();
        fn mk<'a>(b: &'a bumpalo::Bump) -> bumpalo::collections::Vec<'a, u32> {
            bumpalo::collections::Vec::from_iter_in(1..=8u32, b)
        }
        let mut glue = |name: &str, c: String, s: String| {
            let (c, s) = (c.replace('\n', "\\n"), s.replace('\n', "\\n"));      // one line per scenario in the trace
            trace.push_str(&format!("\n# glue {} crate={} std={}", name, c, s));
            if c != s {
                fails.push(format!("ORACLE C13 std-mismatch boundary=glue-{} crate={} std={}", name, c, s));
            }
        };
        for (lo, hi, repl) in [(1usize, 4usize, vec![10u32, 20]), (0, 8, vec![]), (2, 2, vec![7, 8, 9]), (3, 7, vec![1, 2, 3, 4, 5, 6])] {
            let (mut cv, mut sv) = (mk(&b), base.clone());
            let c: std::vec::Vec<u32> = cv.splice(lo..hi, repl.clone()).rev().collect();
            let s: std::vec::Vec<u32> = sv.splice(lo..hi, repl.clone()).rev().collect();
            glue(&format!("splice-rev-{}-{}", lo, hi), format!("{:?}/{:?}", c, &cv[..]), format!("{:?}/{:?}", s, sv));
            let (mut cv, mut sv) = (mk(&b), base.clone());
            let c = { let mut it = cv.splice(lo..hi, repl.clone()); let h0 = it.size_hint(); let x = (it.next(), it.next_back(), it.next_back(), it.next()); (h0, x, it.size_hint(), it.len()) };
            let s = { let mut it = sv.splice(lo..hi, repl.clone()); let h0 = it.size_hint(); let x = (it.next(), it.next_back(), it.next_back(), it.next()); (h0, x, it.size_hint(), it.len()) };
            glue(&format!("splice-mixed-{}-{}", lo, hi), format!("{:?}/{:?}", c, &cv[..]), format!("{:?}/{:?}", s, sv));
            let (mut cv, mut sv) = (mk(&b), base.clone());
            let c = { let mut it = cv.drain(lo..hi); let h0 = it.size_hint(); let x = (it.next_back(), it.next(), it.next_back()); (h0, x, it.size_hint()) };
            let s = { let mut it = sv.drain(lo..hi); let h0 = it.size_hint(); let x = (it.next_back(), it.next(), it.next_back()); (h0, x, it.size_hint()) };
            glue(&format!("drain-mixed-{}-{}", lo, hi), format!("{:?}/{:?}", c, &cv[..]), format!("{:?}/{:?}", s, sv));
        }
        let (cv, sv) = (mk(&b), base.clone());
        let c = { let mut it = cv.into_iter(); let h0 = it.size_hint(); let x = (it.next(), it.next_back(), it.next()); (h0, x, it.size_hint(), it.as_slice().to_vec(), it.count()) };
        let s = { let mut it = sv.into_iter(); let h0 = it.size_hint(); let x = (it.next(), it.next_back(), it.next()); (h0, x, it.size_hint(), it.as_slice().to_vec(), it.count()) };
        glue("into-iter-mixed", format!("{:?}", c), format!("{:?}", s));
        let (mut cv, mut sv) = (mk(&b), base.clone());
        for x in &mut cv { *x += 1; }
        for x in &mut sv { *x += 1; }
        let c: std::vec::Vec<u32> = (&cv).into_iter().rev().copied().collect();
        let s: std::vec::Vec<u32> = (&sv).into_iter().rev().copied().collect();
        glue("by-ref-iter", format!("{:?}", c), format!("{:?}", s));
        // trait impls of `Vec` on pairs of contents
        {
            use std::borrow::Borrow;
            use std::collections::hash_map::DefaultHasher;
            use std::hash::{Hash, Hasher};
            let h = |x: &dyn Fn(&mut DefaultHasher)| { let mut s = DefaultHasher::new(); x(&mut s); s.finish() };
            let texts: [&[u32]; 6] = [&[], &[1], &[2], &[1, 2], &[1, 2, 3], &[1, 3]];
            for a in texts.iter() {
                for bb in texts.iter() {
                    let (ca, cb): (BVec<u32>, BVec<u32>) = (BVec::from_iter_in(a.iter().copied(), &b), BVec::from_iter_in(bb.iter().copied(), &b));
                    let (sa, sb): (std::vec::Vec<u32>, std::vec::Vec<u32>) = (a.to_vec(), bb.to_vec());
                    let arr3 = [1u32, 2, 3];
                    let c = format!("{} {} | {} {} | {} {} | {} {} | {:?} {:?} {} {} {} {} | {} | {:?} {:#?} | {:?} {:?} {:?} {:?} {} {:?}",
                        ca == cb, ca != cb, ca == &bb[..], ca != &bb[..], ca == *bb, ca == arr3, ca == &arr3, ca != arr3,
                        ca.partial_cmp(&cb), ca.cmp(&cb), ca < cb, ca <= cb, ca > cb, ca >= cb,
                        h(&|s| ca.hash(s)), ca, cb,
                        { let r: &[u32] = ca.as_ref(); r }, { let r: &[u32] = ca.borrow(); r }, &*ca, &ca[..], ca.len(), ca.get(1));
                    let s_ = format!("{} {} | {} {} | {} {} | {} {} | {:?} {:?} {} {} {} {} | {} | {:?} {:#?} | {:?} {:?} {:?} {:?} {} {:?}",
                        sa == sb, sa != sb, sa == &bb[..], sa != &bb[..], sa == *bb, sa == arr3, sa == &arr3, sa != arr3,
                        sa.partial_cmp(&sb), sa.cmp(&sb), sa < sb, sa <= sb, sa > sb, sa >= sb,
                        h(&|s| sa.hash(s)), sa, sb,
                        { let r: &[u32] = sa.as_ref(); r }, { let r: &[u32] = sa.borrow(); r }, &*sa, &sa[..], sa.len(), sa.get(1));
                    glue(&format!("traits-{:?}-{:?}", a, bb), c, s_);
                }
            }
        }
        let zc: BVec<()> = BVec::from_iter_in(std::iter::repeat(()).take(5), &b);
        let zs: std::vec::Vec<()> = vec![(); 5];
        let c = { let mut it = zc.into_iter(); (it.size_hint(), it.next().is_some(), it.next_back().is_some(), it.size_hint(), it.count()) };
        let s = { let mut it = zs.into_iter(); (it.size_hint(), it.next().is_some(), it.next_back().is_some(), it.size_hint(), it.count()) };
        glue("into-iter-zst", format!("{:?}", c), format!("{:?}", s));
    }
    let mut out = vec![trace.trim_end().to_string()];
    out.extend(fails);
    out
}

fn main() {
    let args: Vec<String> = std::env::args().collect();
    let toks: Vec<&str> = args.iter().map(|s| s.as_str()).collect();
    std::panic::set_hook(Box::new(|info| {
        galloc::recording_off();
        if std::env::var_os("BVH_SHOW_PANICS").is_some() {
            eprintln!("panic: {}", info);
        }
    }));
    let ovf = overflow_checks_on();
    let dbg = cfg!(debug_assertions);
    let cmd = toks.get(1).copied().unwrap_or("");
    let out_path = kv(&toks, "out").unwrap_or("/dev/stdout").to_string();
    *OUT_PATH.lock().unwrap() = out_path.clone();
    if let Some(cp) = kv(&toks, "curplan") {
        *CURPLAN.lock().unwrap() = std::fs::File::create(cp).ok();
    }
    let mut out = std::io::BufWriter::new(std::fs::File::create(&out_path).expect("open out"));
    let mut summary: std::collections::BTreeMap<String, usize> = Default::default();
    let (mut n_ops, mut n_plans, mut n_fails) = (0usize, 0usize, 0usize);
    let mut do_plan = |plan: &mut Plan, gen: Option<(Profile, usize)>, out: &mut dyn Write| {
        let o = run_kind(plan, gen, ovf, dbg);
        out.write_all(o.trace.as_bytes()).unwrap();
        for f in &o.oracle_fails {
            writeln!(out, "{}", f).unwrap();
            n_fails += 1;
        }
        out.flush().unwrap();
        n_ops += o.n_ops;
        n_plans += 1;
        for (k, v) in o.res_kinds {
            *summary.entry(k).or_insert(0) += v;
        }
    };
    match cmd {
        "vec" => {
            let seed: u64 = kv(&toks, "seed").and_then(|s| s.parse().ok()).unwrap_or(1);
            let n: usize = kv_usize(&toks, "plans").unwrap_or(10);
            let n_ops_per: usize = kv_usize(&toks, "ops").unwrap_or(40);
            let prof = profile_from_str(kv(&toks, "profile").unwrap_or("general"));
            let mut r = Rng::new(seed);
            for i in 0..n {
                let pseed = r.next() >> 1;
                let mut kr = Rng::new(pseed ^ 0xC0FFEE);
                let kind = kind_of(prof, &mut kr);
                let nv = 2 + kr.below(3) as usize;
                let mut plan = Plan { idx: i, seed: pseed, kind, nv, ops: vec![] };
                do_plan(&mut plan, Some((prof, n_ops_per)), &mut out);
            }
        }
        "boundary" => {
            for f in boundary() {
                writeln!(out, "{}", f).unwrap();
            }
        }
        "replay" => {
            let path = toks.get(2).expect("replay <file>");
            let text = std::fs::read_to_string(path).expect("read plan file");
            if text.lines().any(|l| l.trim() == "BOUNDARY") {
                for f in boundary() {
                    writeln!(out, "{}", f).unwrap();
                }
            }
            for mut plan in Plan::parse(&text) {
                do_plan(&mut plan, None, &mut out);
            }
        }
        _ => {
            eprintln!("usage: bvh_vec vec seed=N plans=N ops=N profile=general|iters|panics|bounds|growth|zst|copy out=FILE [curplan=FILE] | bvh_vec replay FILE out=FILE");
            std::process::exit(2);
        }
    }
    drop(do_plan);
    writeln!(out, "SUMMARY plans={} ops={} oracle_fails={} ovf={} dbg={} kinds={}", n_plans, n_ops, n_fails, ovf as u8, dbg as u8,
        summary.iter().map(|(k, v)| format!("{}={}", k, v)).collect::<Vec<_>>().join(",")).unwrap();
    out.flush().unwrap();
}
