//! Plan grammar (replayable input, no addresses), text form, parser and generator.
use crate::util::*;

#[derive(Clone, Copy, Debug, PartialEq, Eq)]
pub enum Bd {
    Inc(usize),
    Exc(usize),
    Unb,
}
impl Bd {
    pub fn text(&self) -> String {
        match self {
            Bd::Inc(n) => format!("i:{}", n),
            Bd::Exc(n) => format!("x:{}", n),
            Bd::Unb => "u".to_string(),
        }
    }
    pub fn parse(s: &str) -> Bd {
        if let Some(r) = s.strip_prefix("i:") {
            Bd::Inc(parse_usize(r).unwrap_or(0))
        } else if let Some(r) = s.strip_prefix("x:") {
            Bd::Exc(parse_usize(r).unwrap_or(0))
        } else {
            Bd::Unb
        }
    }
    pub fn to_std(&self) -> std::ops::Bound<usize> {
        match *self {
            Bd::Inc(n) => std::ops::Bound::Included(n),
            Bd::Exc(n) => std::ops::Bound::Excluded(n),
            Bd::Unb => std::ops::Bound::Unbounded,
        }
    }
}

#[derive(Clone, Copy, Debug, PartialEq, Eq)]
pub enum Pk {
    Clone,
    Iter,
    Pred,
    Drop,
}

#[derive(Clone, Debug)]
pub struct Op {
    pub name: String,
    pub v: usize,
    pub w: usize,
    pub i: usize,
    pub n: usize,
    pub x: u32,
    pub xs: Vec<u32>,
    pub xss: Vec<Vec<u32>>,
    pub ans: Vec<bool>,
    pub hint: usize,
    pub take: usize,
    pub back: usize,
    pub forget: bool,
    pub s: Bd,
    pub e: Bd,
    pub m: u32,
    pub panic: Option<(Pk, u32)>,
}

impl Op {
    pub fn new(name: &str) -> Op {
        Op {
            name: name.to_string(), v: 0, w: 0, i: 0, n: 0, x: 0, xs: vec![], xss: vec![], ans: vec![], hint: 0,
            take: 0, back: 0, forget: false, s: Bd::Unb, e: Bd::Unb, m: 1, panic: None,
        }
    }
    /// keys printed for each operation name (in this order)
    pub fn keys(name: &str) -> &'static [&'static str] {
        match name {
            "new" | "pop" | "clear" | "dedup" | "dedup_by_lt" | "shrink" | "into_bump_slice" | "into_boxed" | "drop" => &["v"],
            "with_cap" | "truncate" | "reserve" | "reserve_exact" | "try_reserve" | "try_reserve_exact" | "into_iter_nth" => &["v", "n"],
            "push" => &["v", "x"],
            "insert" => &["v", "i", "x"],
            "remove" | "swap_remove" => &["v", "i"],
            "resize" => &["v", "n", "x"],
            "extend" | "from_iter" | "collect_in" => &["v", "xs", "hint"],
            "extend_from_slice" | "extend_copy" | "extend_refs" | "vmacro_list" => &["v", "xs"],
            "extend_slices" => &["v", "xss"],
            "append" | "clone" => &["v", "w"],
            "split_off" => &["v", "i", "w"],
            "drain" => &["v", "s", "e", "take", "back", "fin"],
            "splice" => &["v", "s", "e", "xs", "hint", "take"],
            "drain_filter" => &["v", "ans", "take", "fin"],
            "retain" | "dedup_by" => &["v", "ans"],
            "dedup_by_key" => &["v", "m"],
            "into_iter" => &["v", "take", "back", "fin"],
            "vmacro_n" => &["v", "x", "n"],
            "raw" | "nb_str" | "iowrite" => &["n"],
            _ => &[],
        }
    }
    pub fn to_text(&self) -> String {
        let mut s = self.name.clone();
        for k in Op::keys(&self.name) {
            s.push(' ');
            s.push_str(k);
            s.push('=');
            match *k {
                "v" => s.push_str(&self.v.to_string()),
                "w" => s.push_str(&self.w.to_string()),
                "i" => s.push_str(&self.i.to_string()),
                "n" => s.push_str(&self.n.to_string()),
                "x" => s.push_str(&self.x.to_string()),
                "xs" => s.push_str(&list_text(&self.xs)),
                "xss" => {
                    if self.xss.is_empty() {
                        s.push('-')
                    } else {
                        s.push_str(&self.xss.iter().map(|x| list_text(x)).collect::<Vec<_>>().join("|"))
                    }
                }
                "ans" => {
                    if self.ans.is_empty() {
                        s.push('-')
                    } else {
                        s.push_str(&self.ans.iter().map(|b| if *b { '1' } else { '0' }).collect::<String>())
                    }
                }
                "hint" => s.push_str(&self.hint.to_string()),
                "take" => s.push_str(&self.take.to_string()),
                "back" => s.push_str(&self.back.to_string()),
                "fin" => s.push_str(if self.forget { "forget" } else { "drop" }),
                "s" => s.push_str(&self.s.text()),
                "e" => s.push_str(&self.e.text()),
                "m" => s.push_str(&self.m.to_string()),
                _ => {}
            }
        }
        if let Some((k, at)) = self.panic {
            let key = match k {
                Pk::Clone => "cpanic",
                Pk::Iter => "ipanic",
                Pk::Pred => "ppanic",
                Pk::Drop => "dpanic",
            };
            s.push_str(&format!(" {}={}", key, at));
        }
        s
    }
    pub fn parse(line: &str) -> Option<Op> {
        let toks: Vec<&str> = line.split_whitespace().collect();
        let name = *toks.first()?;
        if Op::keys(name).is_empty() {
            return None;
        }
        let mut op = Op::new(name);
        let num = |k: &str| kv_usize(&toks, k).unwrap_or(0);
        op.v = num("v");
        op.w = num("w");
        op.i = num("i");
        op.n = num("n");
        op.x = num("x") as u32;
        op.xs = parse_list(kv(&toks, "xs").unwrap_or("-"));
        op.xss = match kv(&toks, "xss") {
            None | Some("-") => vec![],
            Some(t) => t.split('|').map(parse_list).collect(),
        };
        op.ans = match kv(&toks, "ans") {
            None | Some("-") => vec![],
            Some(t) => t.chars().map(|c| c == '1').collect(),
        };
        op.hint = num("hint");
        op.take = num("take");
        op.back = num("back");
        op.forget = kv(&toks, "fin") == Some("forget");
        op.s = Bd::parse(kv(&toks, "s").unwrap_or("u"));
        op.e = Bd::parse(kv(&toks, "e").unwrap_or("u"));
        op.m = kv_usize(&toks, "m").unwrap_or(1).max(1) as u32;
        for (key, k) in [("cpanic", Pk::Clone), ("ipanic", Pk::Iter), ("ppanic", Pk::Pred), ("dpanic", Pk::Drop)] {
            if let Some(at) = kv_usize(&toks, key) {
                op.panic = Some((k, at as u32));
            }
        }
        Some(op)
    }
}

fn list_text(xs: &[u32]) -> String {
    if xs.is_empty() {
        "-".to_string()
    } else {
        xs.iter().map(|x| x.to_string()).collect::<Vec<_>>().join(",")
    }
}
fn parse_list(s: &str) -> Vec<u32> {
    if s == "-" || s.is_empty() {
        vec![]
    } else {
        s.split(',').filter_map(|t| t.parse().ok()).collect()
    }
}

#[derive(Clone, Debug)]
pub struct Plan {
    pub idx: usize,
    pub seed: u64,
    pub kind: char, // E sized with destructor, Z zero-sized with destructor, C plain Copy data
    pub nv: usize,
    pub ops: Vec<Op>,
}

impl Plan {
    pub fn header(&self, ovf: bool, dbg: bool) -> String {
        format!(
            "PLAN idx={} seed={} kind={} esz={} nv={} ovf={} dbg={}",
            self.idx,
            self.seed,
            self.kind,
            if self.kind == 'Z' { 0 } else { 16 },
            self.nv,
            ovf as u8,
            dbg as u8
        )
    }
    pub fn parse(text: &str) -> Vec<Plan> {
        let mut plans = vec![];
        let mut cur: Option<Plan> = None;
        for raw in text.lines() {
            let line = raw.split(" | ").next().unwrap_or("").trim();
            if line.is_empty() || line.starts_with('#') {
                continue;
            }
            if line.starts_with("PLAN") {
                if let Some(p) = cur.take() {
                    plans.push(p);
                }
                let toks: Vec<&str> = line.split_whitespace().collect();
                cur = Some(Plan {
                    idx: kv_usize(&toks, "idx").unwrap_or(plans.len()),
                    seed: kv(&toks, "seed").and_then(|s| s.parse().ok()).unwrap_or(0),
                    kind: kv(&toks, "kind").and_then(|s| s.chars().next()).unwrap_or('E'),
                    nv: kv_usize(&toks, "nv").unwrap_or(3).clamp(1, 8),
                    ops: vec![],
                });
            } else if line.starts_with("END") {
                if let Some(p) = cur.take() {
                    plans.push(p);
                }
            } else if line.starts_with("ORACLE") || line.starts_with("SUMMARY") {
                continue;
            } else if let (Some(p), Some(op)) = (cur.as_mut(), Op::parse(line)) {
                p.ops.push(op);
            }
        }
        if let Some(p) = cur.take() {
            plans.push(p);
        }
        plans
    }
}

#[derive(Clone, Copy, Debug, PartialEq, Eq)]
pub enum Profile {
    General,
    Iters,
    Panics,
    Bounds,
    Growth,
    Zst,
    Copy,
}
pub fn profile_from_str(s: &str) -> Profile {
    match s {
        "iters" => Profile::Iters,
        "panics" => Profile::Panics,
        "bounds" => Profile::Bounds,
        "growth" => Profile::Growth,
        "zst" => Profile::Zst,
        "copy" => Profile::Copy,
        _ => Profile::General,
    }
}
pub fn kind_of(p: Profile, r: &mut Rng) -> char {
    match p {
        Profile::Zst => 'Z',
        Profile::Copy => 'C',
        Profile::General | Profile::Bounds => {
            if r.chance(1, 8) {
                'Z'
            } else {
                'E'
            }
        }
        _ => 'E',
    }
}

/// What the generator knows about the vectors (an approximation maintained from the observed
/// lengths; the executor tells it the real lengths after every operation).
pub struct GenView {
    pub lens: Vec<Option<usize>>,
}

const HUGE: [usize; 5] = [usize::MAX, usize::MAX - 1, usize::MAX / 2 + 1, (isize::MAX as usize) / 16 + 1, 1 << 60];

fn vals(r: &mut Rng, n: usize) -> Vec<u32> {
    let narrow = r.chance(1, 2);
    (0..n).map(|_| if narrow { r.below(3) as u32 } else { r.below(1000) as u32 }).collect()
}
fn val(r: &mut Rng) -> u32 {
    if r.chance(1, 2) {
        r.below(3) as u32
    } else {
        r.below(1000) as u32
    }
}
fn answers(r: &mut Rng, n: usize) -> Vec<bool> {
    let p = r.pick(&[1u64, 2, 3, 5]);
    (0..n).map(|_| r.below(6) < p).collect()
}
/// an index around `len`: mostly valid, sometimes one past, sometimes far out
fn index(r: &mut Rng, len: usize, wild: bool) -> usize {
    let w = if wild { [40u32, 20, 20, 20] } else { [88u32, 8, 3, 1] };
    match r.weighted(&w) {
        0 => r.below(len.max(1) as u64) as usize,
        1 => len,
        2 => len + 1 + r.below(3) as usize,
        _ => r.pick(&HUGE),
    }
}
fn bound(r: &mut Rng, len: usize, wild: bool, end: bool) -> Bd {
    let at = |r: &mut Rng| {
        let w = if wild { [50u32, 20, 15, 15] } else { [85u32, 10, 4, 1] };
        match r.weighted(&w) {
            0 => r.below(len as u64 + 1) as usize,
            1 => len,
            2 => len + 1 + r.below(2) as usize,
            _ => r.pick(&[usize::MAX, usize::MAX - 1]),
        }
    };
    match r.weighted(&[45, 25, 30]) {
        0 => {
            if end {
                Bd::Exc(at(r))
            } else {
                Bd::Inc(at(r))
            }
        }
        1 => {
            if end {
                Bd::Inc(at(r).saturating_sub(if r.chance(3, 4) { 1 } else { 0 }))
            } else {
                Bd::Exc(at(r).saturating_sub(if r.chance(3, 4) { 1 } else { 0 }))
            }
        }
        _ => Bd::Unb,
    }
}

/// next operation for the plan, given what is known about the vectors
pub fn gen_op(r: &mut Rng, prof: Profile, kind: char, view: &GenView) -> Op {
    let nv = view.lens.len();
    let live: Vec<usize> = (0..nv).filter(|j| view.lens[*j].is_some()).collect();
    let dead: Vec<usize> = (0..nv).filter(|j| view.lens[*j].is_none()).collect();
    let wild = prof == Profile::Bounds;
    let inject = prof == Profile::Panics && kind != 'C';
    // make sure there is something to work on
    if live.is_empty() || (!dead.is_empty() && r.chance(1, 7)) {
        let v = if dead.is_empty() { 0 } else { r.pick(&dead) };
        let mut op = match r.weighted(&[30, 25, 15, 8, 10, 12]) {
            0 => Op::new("new"),
            1 => {
                let mut o = Op::new("with_cap");
                o.n = if wild && r.chance(1, 4) { r.pick(&HUGE) } else { r.below(12) as usize };
                o
            }
            2 => {
                let mut o = Op::new("from_iter");
                let n = r.below(9) as usize;
                o.xs = vals(r, n);
                o.hint = hint(r, n);
                o
            }
            3 => {
                let mut o = Op::new("collect_in");
                let n = r.below(9) as usize;
                o.xs = vals(r, n);
                o.hint = hint(r, n);
                o
            }
            4 => {
                let mut o = Op::new("vmacro_n");
                o.x = val(r);
                o.n = r.below(7) as usize;
                o
            }
            _ => {
                let mut o = Op::new("vmacro_list");
                let n = r.below(7) as usize;
                o.xs = vals(r, n);
                o
            }
        };
        op.v = v;
        if inject && r.chance(1, 2) {
            match op.name.as_str() {
                "from_iter" | "collect_in" => op.panic = Some((Pk::Iter, r.below(op.xs.len() as u64 + 2) as u32)),
                "vmacro_n" => op.panic = Some((Pk::Clone, r.below(op.n.max(1) as u64) as u32)),
                _ => {}
            }
        }
        return op;
    }
    let v = r.pick(&live);
    let len = view.lens[v].unwrap_or(0);
    // weights per profile: (name, weight)
    let table: &[(&str, u32)] = match prof {
        Profile::General | Profile::Bounds => &[
            ("push", 16), ("pop", 6), ("insert", 8), ("remove", 7), ("swap_remove", 6), ("truncate", 5), ("clear", 2),
            ("resize", 5), ("extend", 5), ("extend_from_slice", 5), ("append", 4), ("split_off", 4), ("drain", 7),
            ("splice", 5), ("drain_filter", 4), ("retain", 4), ("dedup", 2), ("dedup_by", 3), ("dedup_by_lt", 3), ("dedup_by_key", 2),
            ("reserve", 3), ("reserve_exact", 2), ("try_reserve", 2), ("try_reserve_exact", 1), ("shrink", 3), ("clone", 3),
            ("into_iter", 2), ("into_iter_nth", 1), ("into_bump_slice", 1), ("into_boxed", 1), ("drop", 2), ("raw", 3), ("nb_str", 2), ("iowrite", 1),
        ],
        Profile::Iters => &[
            ("push", 10), ("extend", 8), ("drain", 16), ("splice", 16), ("drain_filter", 12), ("retain", 6), ("into_iter", 6), ("into_iter_nth", 4),
            ("dedup_by", 5), ("dedup_by_lt", 3), ("dedup_by_key", 3), ("dedup", 2), ("append", 3), ("split_off", 3), ("clone", 3), ("insert", 3),
            ("raw", 2), ("shrink", 2), ("drop", 1), ("into_boxed", 1), ("into_bump_slice", 1),
        ],
        Profile::Panics => &[
            ("push", 8), ("extend", 8), ("retain", 10), ("drain_filter", 14), ("dedup_by", 8), ("dedup_by_lt", 4), ("dedup_by_key", 6), ("resize", 10),
            ("extend_from_slice", 8), ("clone", 8), ("splice", 10), ("truncate", 6), ("clear", 3), ("drop", 4), ("into_iter", 6), ("into_iter_nth", 3),
            ("drain", 8), ("into_boxed", 2), ("insert", 2), ("remove", 2),
        ],
        Profile::Growth => &[
            ("push", 30), ("extend", 10), ("extend_from_slice", 8), ("reserve", 10), ("reserve_exact", 6), ("try_reserve", 5),
            ("try_reserve_exact", 3), ("shrink", 8), ("insert", 6), ("resize", 5), ("raw", 8), ("nb_str", 4), ("append", 3),
            ("clone", 3), ("truncate", 3), ("pop", 3), ("splice", 4), ("clear", 1),
        ],
        Profile::Zst => &[
            ("push", 14), ("pop", 5), ("insert", 6), ("remove", 5), ("swap_remove", 4), ("truncate", 4), ("clear", 1), ("resize", 5),
            ("extend", 4), ("extend_from_slice", 3), ("append", 3), ("split_off", 3), ("drain", 6), ("splice", 4), ("drain_filter", 4),
            ("retain", 3), ("dedup_by", 2), ("reserve", 4), ("reserve_exact", 2), ("try_reserve", 3), ("shrink", 2), ("clone", 2),
            ("into_iter", 3), ("into_iter_nth", 3), ("into_bump_slice", 1), ("into_boxed", 1), ("drop", 1), ("raw", 1),
        ],
        Profile::Copy => &[
            ("push", 12), ("extend_copy", 14), ("extend_refs", 12), ("extend_slices", 12), ("extend_from_slice", 4), ("pop", 3), ("insert", 4), ("remove", 3),
            ("truncate", 3), ("drain", 4), ("splice", 3), ("retain", 3), ("dedup", 2), ("reserve", 3), ("shrink", 2), ("clone", 3),
            ("append", 3), ("split_off", 2), ("resize", 3), ("into_iter", 1), ("raw", 2), ("iowrite", 3), ("drop", 1), ("swap_remove", 2),
        ],
    };
    let ws: Vec<u32> = table.iter().map(|t| t.1).collect();
    let name = table[r.weighted(&ws)].0;
    let mut op = Op::new(name);
    op.v = v;
    match name {
        "push" => op.x = val(r),
        "insert" => {
            op.i = if r.chance(1, 5) { len } else { index(r, len, wild) };
            op.x = val(r);
        }
        "remove" | "swap_remove" => op.i = index(r, len, wild),
        "truncate" => op.n = if r.chance(1, 6) { len + r.below(3) as usize } else { r.below(len as u64 + 1) as usize },
        "resize" => {
            op.n = if wild && kind != 'Z' && r.chance(1, 6) {
                r.pick(&HUGE)
            } else if r.chance(1, 2) {
                len + r.below(6) as usize
            } else {
                r.below(len as u64 + 1) as usize
            };
            op.x = val(r);
        }
        "extend" => {
            let n = r.below(8) as usize;
            op.xs = vals(r, n);
            op.hint = hint(r, n);
        }
        "extend_from_slice" | "extend_copy" | "extend_refs" => {
            let n = r.below(8) as usize;
            op.xs = vals(r, n);
        }
        "extend_slices" => {
            let k = r.below(4) as usize;
            op.xss = (0..k).map(|_| { let n = r.below(5) as usize; vals(r, n) }).collect();
        }
        "append" | "clone" | "split_off" => {
            if name == "append" {
                let others: Vec<usize> = live.iter().copied().filter(|j| *j != v).collect();
                if others.is_empty() {
                    let mut o = Op::new("push");
                    o.v = v;
                    o.x = val(r);
                    return o;
                }
                op.w = r.pick(&others);
            } else {
                if dead.is_empty() {
                    let mut o = Op::new("drop");
                    o.v = r.pick(&live);
                    return o;
                }
                op.w = r.pick(&dead);
                if name == "split_off" {
                    op.i = index(r, len, wild);
                }
            }
        }
        "drain" | "splice" => {
            op.s = bound(r, len, wild, false);
            op.e = bound(r, len, wild, true);
            // mostly well-formed ranges: swap if both are plain numbers and reversed
            if let (Some(a), Some(b)) = (lo_of(op.s), hi_of(op.e)) {
                if a > b && r.chance(4, 5) {
                    op.s = Bd::Inc(b.min(len));
                    op.e = Bd::Exc(a.min(len));
                }
            }
            let span = len + 1;
            op.take = r.below(span as u64 + 1) as usize;
            if r.chance(1, 3) {
                op.take = 0;
            }
            if name == "drain" {
                op.back = if r.chance(1, 2) { 0 } else { r.below(3) as usize };
                op.forget = r.chance(1, 8);
            } else {
                let n = r.below(7) as usize;
                op.xs = vals(r, n);
                op.hint = hint(r, n);
                if r.chance(1, 3) {
                    op.hint = r.below(n as u64 + 1) as usize;
                }
            }
        }
        "drain_filter" => {
            { let extra = r.below(2) as usize; op.ans = answers(r, len + extra); }
            op.take = if r.chance(1, 3) { 0 } else { r.below(len as u64 + 2) as usize };
            op.forget = r.chance(1, 10);
        }
        "retain" => { let extra = r.below(2) as usize; op.ans = answers(r, len + extra); }
        "dedup_by" => op.ans = answers(r, len),
        "dedup_by_key" => op.m = r.pick(&[1u32, 2, 3, 7]),
        "reserve" | "reserve_exact" | "try_reserve" | "try_reserve_exact" => {
            op.n = if (wild || prof == Profile::Zst) && r.chance(1, 4) {
                r.pick(&HUGE)
            } else if name.starts_with("try_") && kind != 'Z' && r.chance(1, 8) {
                // around the largest byte size `Layout::array` accepts (isize::MAX rounded down to the alignment): below it the
                // arena refuses (`AllocErr`), above it the request is unrepresentable (`CapacityOverflow`); elements are 8..64 bytes
                let per = r.pick(&[8usize, 16, 24, 32, 64]);
                ((isize::MAX as usize) / per).saturating_sub(len).saturating_add(r.below(5) as usize).saturating_sub(2)
            } else if name.starts_with("try_") && r.chance(1, 8) {
                1 << 44 // a valid layout the arena cannot serve: Err(AllocErr), nothing changes
            } else if wild && r.chance(1, 6) {
                (usize::MAX - len).saturating_add(r.below(2) as usize)
            } else {
                r.below(24) as usize
            };
        }
        "into_iter_nth" => op.n = r.below(len as u64 + 2) as usize,
        "into_iter" => {
            op.take = r.below(len as u64 + 2) as usize;
            op.back = r.below(3) as usize;
            op.forget = r.chance(1, 8);
        }
        "raw" => op.n = r.pick(&[1usize, 3, 8, 24, 100, 600]),
        "nb_str" => op.n = r.range(1, 20) as usize,
        "iowrite" => op.n = r.below(40) as usize,
        _ => {}
    }
    if inject && r.chance(3, 5) {
        let calls = len as u64 + 2;
        op.panic = match name {
            // a third of the time the destructor of a removed element panics instead of the callback
            "retain" | "drain_filter" | "dedup_by" | "dedup_by_key" | "dedup" if r.chance(1, 3) => Some((Pk::Drop, r.below(calls) as u32)),
            "retain" | "drain_filter" | "dedup_by" => Some((Pk::Pred, r.below(calls) as u32)),
            "dedup_by_key" => Some((Pk::Pred, r.below(2 * calls) as u32)),
            "resize" => {
                if op.n > len {
                    Some((Pk::Clone, r.below((op.n - len) as u64 + 1) as u32))
                } else {
                    Some((Pk::Drop, r.below(calls) as u32))
                }
            }
            "extend_from_slice" => Some((Pk::Clone, r.below(op.xs.len() as u64 + 1) as u32)),
            "clone" => Some((Pk::Clone, r.below(calls) as u32)),
            // a destructor of a drained-but-not-yet-yielded element panics while the `Splice` is dropped
            "splice" if r.chance(2, 5) => Some((Pk::Drop, r.below(calls) as u32)),
            "extend" | "splice" => Some((Pk::Iter, r.below(op.xs.len() as u64 + 2) as u32)),
            "truncate" | "clear" | "drop" | "into_iter" | "into_iter_nth" | "drain" | "into_boxed" => Some((Pk::Drop, r.below(calls) as u32)),
            _ => None,
        };
        if name == "drain_filter" {
            // panics inside the caller's next() calls are the interesting ones
            op.take = op.take.max(r.below(len as u64 + 2) as usize);
            op.forget = false;
        }
    }
    op
}

fn hint(r: &mut Rng, n: usize) -> usize {
    match r.weighted(&[55, 20, 15, 10]) {
        0 => n,
        1 => 0,
        2 => r.below(n as u64 + 1) as usize,
        _ => n + 1 + r.below(3) as usize,
    }
}
fn lo_of(b: Bd) -> Option<usize> {
    match b {
        Bd::Inc(n) => Some(n),
        _ => None,
    }
}
fn hi_of(b: Bd) -> Option<usize> {
    match b {
        Bd::Exc(n) => Some(n),
        _ => None,
    }
}
