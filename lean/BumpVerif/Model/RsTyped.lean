import BumpVerif.Model.Rs
/-!
# Primitives of the translator for the typed allocation methods of `Bump` (`tools/rs2lean_typed.py`)

The arena state of the main translator, plus two logs: the typed writes (`ptr::write(p, v)`: `(p, v)`, oldest first) and the
arguments of the closure calls made so far.  A value of the element type is an opaque token; a closure is a function of its
argument and the state (it may allocate from the same arena through `t.st`, write, or panic).
-/
namespace Bump.RsT
open Bump

abbrev Val := Nat

structure TS where
  st : St
  wr : List (Nat × Val) := []
  calls : List Nat := []
  /-- how many items the iterator argument has handed out -/
  iterPos : Nat := 0

abbrev Clo := Nat → TS → TS × Outcome Val

@[inline] def bind {α β : Type} (x : TS × Outcome α) (f : TS → α → TS × Outcome β) : TS × Outcome β :=
  match x with
  | (t, .ok a) => f t a
  | (t, .err) => (t, .err)
  | (t, .panic) => (t, .panic)
  | (t, .bad w) => (t, .bad w)
  | (t, .envBad) => (t, .envBad)

/-- a method of `Bump` translated over `St` -/
def liftS {α : Type} (f : St → St × Outcome α) (t : TS) : TS × Outcome α :=
  let r := f t.st
  ({ t with st := r.1 }, r.2)

/-- `ptr::write(p, v)` -/
def write (p : Nat) (v : Val) (t : TS) : TS × Outcome Unit := ({ t with wr := t.wr ++ [(p, v)] }, .ok ())

/-- reading a typed value back: what the last `ptr::write` to that address stored -/
def read_val (p : Nat) (t : TS) : Option Val := (t.wr.reverse.find? (fun x => x.1 == p)).map (·.2)

/-- calling a closure: the call is logged, then the closure runs -/
def call (f : Clo) (i : Nat) (t : TS) : TS × Outcome Val := f i { t with calls := t.calls ++ [i] }

/-- `ptr::copy_nonoverlapping(src.as_ptr(), dst, n)` from a `&[T]`: element `i` lands at `dst + i * size_of::<T>()` -/
def copy_in (esz : Nat) (src : List Val) (dst n : Nat) (t : TS) : TS × Outcome Unit :=
  ({ t with wr := t.wr ++ (List.range n).map fun i => (dst + i * esz, src.getD i 0) }, .ok ())

/-- `iter.next()` on the iterator argument (its items as a list, its position in the state) -/
def iter_next (items : List Val) (t : TS) : TS × Outcome (Option Val) :=
  ({ t with iterPos := t.iterPos + 1 }, .ok items[t.iterPos]?)

/-- `|| v` / `|_| v` -/
def constClo (v : Val) : Clo := fun _ t => (t, .ok v)

end Bump.RsT
