import BumpVerif.Model.RsVec
import BumpVerif.Model.Vec
/-!
# Primitives of the function-body translator for `src/collections/vec.rs`

`Vec<'bump, T>` methods are translated with the element type as a configuration (`c : V.Cfg`) and the pair
(vector model, effects) `s : VW = V.VS × V.W` as the threaded state.  What the translation *assumes* is this table:

* a pointer into the vector's buffer (`self.as_ptr()`, `self.buf.ptr()`, `p.add(i)`, `p.offset(±1)`,
  `self.get_unchecked(i)`, `&mut self[i]` after its bounds check) is the *slot index* it points at;
* `ptr::write / read / copy / replace / drop_in_place` on such pointers are the slot steps of `Model/RawVec.lean`
  (`VS.write`, `VS.read`, `VS.copy`, `dropElem`); reading an uninitialised slot is `bad` (UB in the source);
* a value of type `T` held by a local (a by-value parameter, the result of `ptr::read`) is *owned* by that local until
  it is written into the buffer or returned; when the function unwinds, the locals it still owns are dropped, newest
  first (`bindU`'s clean-up argument); a guard object (`SetLenOnDrop`) stores its length when its scope ends, also by
  unwinding;
* returning a `T` (or `Some(T)`) to the caller is the event `moveOut`.

`toModel` turns the translator's result shape into the hand model's (`none` = panicked; a `bad` step is a flag in
`W.bad`), so that the equivalence theorems of `Props/GenFnVec.lean` are plain equalities.
-/
namespace Bump.RsM
open Bump Bump.V

abbrev VW := VS × W

@[inline] def bindW {α β : Type} (x : VW × Outcome α) (f : VW → α → VW × Outcome β) : VW × Outcome β :=
  match x with
  | (s, .ok a) => f s a
  | (s, .err) => (s, .err)
  | (s, .panic) => (s, .panic)
  | (s, .bad w) => (s, .bad w)
  | (s, .envBad) => (s, .envBad)

@[inline] def pureW {α β : Type} (s : VW) (o : Outcome α) (f : VW → α → VW × Outcome β) : VW × Outcome β :=
  bindW (s, o) f

/-- a call that may unwind through a frame holding owned locals / guards: `cleanup` is that frame's drop glue -/
@[inline] def bindU {α β : Type} (x : VW × Outcome α) (cleanup : VW → VW) (f : VW → α → VW × Outcome β) : VW × Outcome β :=
  match x with
  | (s, .ok a) => f s a
  | (s, .err) => (s, .err)
  | (s, .panic) => (cleanup s, .panic)
  | (s, .bad w) => (s, .bad w)
  | (s, .envBad) => (s, .envBad)

/-- a `RawVec` method (state: the vector) called on `self.buf` -/
def liftV {α : Type} (f : VS → VS × Outcome α) (s : VW) : VW × Outcome α :=
  let r := f s.1
  ((r.1, s.2), r.2)

/-- `self.len = n` -/
def set_len (n : Nat) (s : VW) : VW × Outcome Unit := (({ s.1 with len := n }, s.2), .ok ())

/-- what a `SetLenOnDrop` guard does when its scope ends (also by unwinding) -/
def store_len (n : Nat) (s : VW) : VW := ({ s.1 with len := n }, s.2)

/-- `ptr::write(p.add(i), e)` -/
def write (c : Cfg) (i : Nat) (e : Elem) (s : VW) : VW × Outcome Unit := (s.1.write c i e s.2, .ok ())

/-- `ptr::read(p.add(i))` (`none`: the slot is uninitialised / outside the buffer) -/
def read (i : Nat) (s : VW) : Option Elem := s.1.read i

/-- `ptr::copy(p.add(src), p.add(dst), n)` -/
def copy (c : Cfg) (src dst n : Nat) (s : VW) : VW × Outcome Unit := (s.1.copy c src dst n s.2, .ok ())

/-- `mem::swap(&mut *p.add(i), &mut *p.add(j))` -/
def swap (i j : Nat) (s : VW) : VW × Outcome Unit := (({ s.1 with slots := swapSlots s.1.slots i j }, s.2), .ok ())

/-- `slice::Iter::next` over slots `[it.1, it.2)` of the buffer (std's iterator is not translated) -/
def slice_iter_next (it : Nat × Nat) : Option Nat × (Nat × Nat) :=
  if it.1 < it.2 then (some it.1, (it.1 + 1, it.2)) else (none, it)

/-- `slice::Iter::next_back` -/
def slice_iter_next_back (it : Nat × Nat) : Option Nat × (Nat × Nat) :=
  if it.1 < it.2 then (some (it.2 - 1), (it.1, it.2 - 1)) else (none, it)

/-- `mem::zeroed::<T>()` for a zero-sized `T`: a value made up from nothing (the model's zero-sized elements carry an
identity for the drop accounting; the made-up value has none, so the equalities about `IntoIter` are stated for
`size_of::<T>() ≠ 0` and the zero-sized branch is characterised separately) -/
def zst_any : Elem := default

/-- a call that may unwind, in a method that reports unwinding as a value (`handler` builds that value from the frame) -/
@[inline] def bindK {α β : Type} (x : VW × Outcome α) (handler : VW → VW × Outcome β) (f : VW → α → VW × Outcome β) : VW × Outcome β :=
  match x with
  | (s, .ok a) => f s a
  | (s, .err) => (s, .err)
  | (s, .panic) => handler s
  | (s, .bad w) => (s, .bad w)
  | (s, .envBad) => (s, .envBad)

/-- the state a guard's destructor leaves behind while unwinding -/
def stateOf {α : Type} (x : VW × Outcome α) : VW := x.1

/-- `ptr::copy_nonoverlapping(p.add(src), p.add(dst), n)` inside one buffer -/
def copy_nonoverlapping (c : Cfg) (src dst n : Nat) (s : VW) : VW × Outcome Unit :=
  if src + n ≤ dst ∨ dst + n ≤ src then (s.1.copy c src dst n s.2, .ok ())
  else (s, .bad "copy_nonoverlapping on overlapping ranges")

/-- `ptr::copy_nonoverlapping(src, p.add(dst), n)` from a slice outside the buffer (its first `n` slots) -/
def copy_in (c : Cfg) (src : List (Option Elem)) (dst n : Nat) (s : VW) : VW × Outcome Unit :=
  (s.1.copyFrom c (src.take n) dst s.2, .ok ())

/-- `let mut v = Vec::new_in(..)` / `Vec::with_capacity_in(n, ..)` in a function that builds a vector: from here on the threaded
vector is the new one -/
def new_vec (o : Outcome VS) (s : VW) : VW × Outcome Unit :=
  match o with
  | .ok v => ((v, s.2), .ok ())
  | .panic => (s, .panic)
  | .err => (s, .err)
  | .bad w => (s, .bad w)
  | .envBad => (s, .envBad)

/-- `Drop for Vec` while unwinding: the elements it holds are dropped (the buffer goes back to the arena, which the vector model
does not see) -/
def drop_vec (c : Cfg) (s : VW) : VW := (s.1, (dropVec c s.1 s.2).1)

/-- `iter.next()` on an iterator the frame holds by value (`none` = it panicked) -/
def it_next (c : Cfg) (it : It) (s : VW) : VW × It × Option (Option Elem) :=
  let r := It.next c s.2 it
  ((s.1, r.1), r.2.1, r.2.2)

/-- dropping the iterator while unwinding (a second panic here would abort the process) -/
def it_drop (c : Cfg) (it : It) (s : VW) : VW := (s.1, it.dropRest c s.2)

/-- what `It.dropRest` does, with the "a destructor panicked" flag kept -/
def dropRestP (c : Cfg) (w : W) : It → W × Bool
  | .src s => dropAll c s.items w
  | .cloned _ => (w, false)
  | .owned r => dropAll c r w

/-- the iterator reaches the end of its scope: what it still owns is dropped (and a destructor may panic) -/
def it_drop_end (c : Cfg) (it : It) (s : VW) : VW × Outcome Unit :=
  let r := dropRestP c s.2 it
  ((s.1, r.1), if r.2 then .panic else .ok ())

/-- `ptr::copy_nonoverlapping(self.as_ptr().add(src), other.as_mut_ptr(), n)`: `n` slots of the receiver's buffer into the start of
a second vector's buffer (that vector is a value next to the threaded one) -/
def copy_out (c : Cfg) (src n : Nat) (other : VS) (s : VW) : VW × Outcome VS :=
  let r := other.copyFrom c ((s.1.slots.drop src).take n) 0 s.2
  ((s.1, r.2), .ok r.1)

/-- drop glue of an owned local while unwinding (a second panic here would abort the process) -/
def drop_elem (c : Cfg) (e : Elem) (s : VW) : VW := (s.1, (dropElem c s.2 e).1)

/-- `ptr::drop_in_place(p.add(i))`: the destructor may panic -/
def drop_in_place (c : Cfg) (what : String) (i : Nat) (s : VW) : VW × Outcome Unit :=
  match s.1.read i with
  | none => (s, .bad what)
  | some e =>
    let r := dropElem c s.2 e
    ((s.1, r.1), if r.2 then .panic else .ok ())

/-- an owned local reaches the end of its scope: its destructor runs (and may panic) -/
def drop_local (c : Cfg) (e : Elem) (s : VW) : VW × Outcome Unit :=
  let r := dropElem c s.2 e
  ((s.1, r.1), if r.2 then .panic else .ok ())

/-- `ExtendElement::next`: `self.0.clone()` (may panic) -/
def clone_next (c : Cfg) (x : Elem) (s : VW) : VW × Outcome Elem :=
  match cloneElem c s.2 x with
  | (w, none) => ((s.1, w), .panic)
  | (w, some e) => ((s.1, w), .ok e)

/-- the value is handed to the caller -/
def moved (e : Elem) (s : VW) : VW := (s.1, s.2.moved e)

/-- the hand model's result shape: `none` = panicked; a `bad` step is recorded in `W.bad` -/
def toModel {α : Type} : VW × Outcome α → VS × W × Option α
  | (s, .ok a) => (s.1, s.2, some a)
  | (s, .panic) => (s.1, s.2, none)
  | (s, .bad why) => (s.1, s.2.flag why, none)
  | (s, .err) => (s.1, s.2.flag "unexpected AllocErr", none)
  | (s, .envBad) => (s.1, s.2.flag "unexpected envBad", none)


/-! ### `Splice::drop` (tools/rs2lean_splicedrop.py) -/

/-- `vec.extend(it.by_ref())`: `Extend` through a borrowed iterator — the model's `extendRef` (the translated `Vec::extend`,
`gen_vec_extend_raw`, is this followed by the drop of the iterator); `false` = a panic (of the iterator or of the growth) -/
def extend_by_ref (c : V.Cfg) (it : V.It) (s : VW) : VW × V.It × Outcome Unit :=
  match V.extendRef c s.1 it s.2 with
  | (v, it, w, ok) => ((v, w), it, if ok then .ok () else .panic)

/-- `collected.extend(it.by_ref())` into a second, private vector holding `acc0`: what the iterator still yields, in order; when
the iterator panics the unwinding drops the partly filled vector (growth of that vector is outside the model: it cannot fail
short of running out of memory) -/
def collect_by_ref (c : V.Cfg) (acc0 : List V.Elem) (it : V.It) (s : VW) : VW × V.It × Outcome (List V.Elem) :=
  match V.collectRest c (it.remaining + 1) it s.2 acc0 with
  | (it, w, acc, true) => ((s.1, w), it, .ok acc)
  | (it, w, acc, false) => ((s.1, (V.dropAll c acc w).1), it, .panic)

/-- an owning iterator the frame holds goes out of scope: what it has left is dropped -/
def drop_it (c : V.Cfg) (it : V.It) (s : VW) : VW × Outcome Unit := ((s.1, it.dropRest c s.2), .ok ())

end Bump.RsM
