/-!
# Model of `bumpalo::boxed::Box` (src/boxed.rs) as an ownership machine

A program is a list of operations over a table of *slots* (the client's variables).  A slot
holds a `Box` (an owned element id at an arena address), a pinned box, a boxed array / slice /
`str` / `dyn Any` / closure, an arena `Vec`, a raw pointer obtained from `into_raw` (escaped),
a leaked reference, or nothing.  Elements are `Cell`s: a unique id plus a value.

What the unsafe code of `boxed.rs` does is written as *primitive steps* on the by-value `Box`
argument of each function (`Frame`): wrapping it in `ManuallyDrop`, reading the pointee out
with `ptr::read` (logs `moved`), running the pointee's destructor with `drop_in_place`
(logs `drops`), and the implicit `impl Drop for Box` at the end of the callee's scope unless
the handle was disarmed.  Every API function below is the source's sequence of those steps, so
"exactly one drop, never two" is a theorem about the sequences (Proofs/Box*.lean), not an
assumption.  `Box` holds no reference to its arena, so no step can touch the arena: its
accounting (`allocated_bytes`, number of chunks, bytes in use) changes only in operations that
call `Bump::alloc*` (constructors) or `RawVec`'s deallocation (dropping an arena `Vec`); there
the new figures are inputs from the environment.

The comparison / hash / format / iterate / poll impls of `Box` forward to the pointee
(`PartialEq::eq(&**self, &**other)` …): in the model their result *is* the pointee's by
definition; that clause is validated by the differential run against `std::boxed::Box`.
-/
namespace Bump.Bx

structure Cell where
  id : Nat
  val : Nat
  deriving DecidableEq, Repr

/-- a variable of the client program -/
inductive Slot where
  | empty
  /-- `Box<'a, T>`; `tag` names the concrete `T` (0 = element, 1 = `Wrap<element>`) -/
  | box (tag : Nat) (c : Cell)
  /-- `Pin<Box<'a, T>>` -/
  | pin (c : Cell)
  /-- `Box<'a, [T; N]>`, `N = cs.length`; `cap` (ghost, informational) = capacity of the block the elements were created in, when known -/
  | arr (cs : List Cell) (cap : Option Nat)
  /-- `Box<'a, [T]>` -/
  | slice (cs : List Cell) (cap : Option Nat)
  /-- `Box<'a, dyn Any>` whose concrete type has tag `tag` -/
  | any (tag : Nat) (c : Cell)
  /-- `Box<'a, dyn Fn(u32) -> u32>`: a closure that captured the element -/
  | fn (c : Cell)
  /-- `collections::Vec<'a, T>`: the initialised prefix (`len = cs.length`) and the capacity -/
  | vec (cs : List Cell) (cap : Nat)
  /-- `Box<'a, str>` (no destructors) -/
  | str (bytes : List Nat)
  /-- `*mut T` from `Box::into_raw` -/
  | raw (tag : Nat) (c : Cell)
  /-- `*mut [T]` from `Box::into_raw` -/
  | rawSlice (cs : List Cell) (cap : Option Nat)
  /-- `&'a mut T` from `Box::leak` -/
  | leaked (tag : Nat) (c : Cell)
  /-- `&'a mut [T]` from `Box::leak` -/
  | leakedSlice (cs : List Cell) (cap : Option Nat)
  deriving DecidableEq, Repr

def Slot.cells : Slot → List Cell
  | .empty | .str _ => []
  | .box _ c | .pin c | .any _ c | .fn c | .raw _ c | .leaked _ c => [c]
  | .arr cs _ | .slice cs _ | .vec cs _ | .rawSlice cs _ | .leakedSlice cs _ => cs

def Slot.ids (s : Slot) : List Nat := s.cells.map (·.id)

inductive Cat where
  | none | owned | escaped | leaked
  deriving DecidableEq, Repr

/-- who is responsible for the elements reachable through a slot -/
def Slot.cat : Slot → Cat
  | .empty => .none
  | .box .. | .pin _ | .arr .. | .slice .. | .any .. | .fn _ | .vec .. | .str _ => .owned
  | .raw .. | .rawSlice .. => .escaped
  | .leaked .. | .leakedSlice .. => .leaked

/-- the arena's observable accounting -/
structure Acct where
  ab : Nat       -- allocated_bytes()
  chunks : Nat   -- number of chunks
  used : Nat     -- bytes handed out (sum of the lengths yielded by the chunk iterator)
  deriving DecidableEq, Repr

/-- what the environment reports for an operation that calls into the arena -/
structure Env where
  acct : Acct
  evt : Nat      -- global-allocator events during the call
  deriving Repr

structure W where
  slots : List Slot
  /-- ids whose destructor ran, in order (whole history) -/
  drops : List Nat := []
  /-- ids read out to the caller with `ptr::read` (whole history) -/
  moved : List Nat := []
  /-- ids ever created -/
  created : List Nat := []
  nextId : Nat := 1
  acct : Acct := ⟨0, 0, 0⟩
  deriving Repr

def W.init (ns : Nat) : W := { slots := List.replicate ns .empty }

/-- ids reachable through some slot -/
def W.live (w : W) : List Nat := w.slots.flatMap Slot.ids
def W.idsOf (w : W) (c : Cat) : List Nat := (w.slots.filter (·.cat == c)).flatMap Slot.ids
def W.owned (w : W) : List Nat := w.idsOf .owned
def W.escaped (w : W) : List Nat := w.idsOf .escaped
def W.leaked (w : W) : List Nat := w.idsOf .leaked

/-! ## Primitive steps -/

/-- effects of a call on the two logs -/
structure Fx where
  drops : List Nat := []
  moved : List Nat := []
  deriving Repr, DecidableEq

/-- `ptr::drop_in_place(p)` for a sized pointee: its destructor runs -/
def dropInPlace1 (c : Cell) (fx : Fx) : Fx := { fx with drops := fx.drops ++ [c.id] }

/-- Drop glue of `[T]` / `[T; N]` (`ptr::drop_in_place::<[T]>`): destructors run front to back;
when the one at index `panicAt` unwinds, the glue goes on dropping the remaining elements
(a second panic would abort; at most one is injected).  Returns whether it unwound. -/
def dropGlue (panicAt : Option Nat) : List Cell → Nat → Bool → Fx → Bool × Fx
  | [], _, p, fx => (p, fx)
  | c :: rest, k, p, fx => dropGlue panicAt rest (k + 1) (p || panicAt == some k) (dropInPlace1 c fx)

/-- `ptr::read(p)`: a bitwise copy of the pointee is handed to the caller, who now owns it -/
def ptrRead (p : List Cell) (fx : Fx) : Fx := { fx with moved := fx.moved ++ p.map (·.id) }

/-- a by-value `Box` (or `Vec`) argument inside the callee's frame -/
structure Frame where
  cells : List Cell
  /-- wrapped in `ManuallyDrop` / `mem::forget`-ed: its `Drop` will not run -/
  disarmed : Bool := false

def Frame.arg (cs : List Cell) : Frame := { cells := cs }
/-- `ManuallyDrop::new(b)` / `mem::forget(v)` -/
def Frame.manuallyDrop (f : Frame) : Frame := { f with disarmed := true }
/-- End of scope of the handle: `impl Drop for Box { drop_in_place(self.0) }` (boxed.rs:337-344)
unless disarmed.  Returns (unwound?, effects). -/
def Frame.scopeEnd (f : Frame) (panicAt : Option Nat) (fx : Fx) : Bool × Fx :=
  if f.disarmed then (false, fx) else dropGlue panicAt f.cells 0 false fx

/-! ## The functions of boxed.rs (and `Vec::into_boxed_slice`) as step sequences -/

/-- `Box::into_raw` (boxed.rs:282-285): `let mut b = ManuallyDrop::new(b); b.deref_mut().0 as *mut T` -/
def intoRaw (b : List Cell) (fx : Fx) : List Cell × Fx :=
  let f := (Frame.arg b).manuallyDrop
  let p := f.cells
  (p, (f.scopeEnd none fx).2)

/-- `Box::from_raw` (236-238): `Box(&mut *raw)` -/
def fromRaw (p : List Cell) : List Cell := p

/-- `Box::into_inner` (187-191): `ptr::read(Box::into_raw(b))` -/
def intoInner (b : List Cell) (fx : Fx) : List Cell × Fx :=
  let (p, fx) := intoRaw b fx
  (p, ptrRead p fx)

/-- `Box::leak` (332-334): `&mut *Box::into_raw(b)` -/
def leak (b : List Cell) (fx : Fx) : List Cell × Fx := intoRaw b fx

/-- a `Box` going out of scope (dropped by its owner) -/
def boxDrop (b : List Cell) (panicAt : Option Nat) (fx : Fx) : Bool × Fx := (Frame.arg b).scopeEnd panicAt fx

/-- `Box<dyn Any>::downcast::<T>` (486-495): `if self.is::<T>() { from_raw(into_raw(self) as *mut T) } else { Err(self) }` -/
def downcast (tag target : Nat) (b : List Cell) (fx : Fx) : Bool × List Cell × Fx :=
  if tag == target then
    let (raw, fx) := intoRaw b fx
    (true, fromRaw raw, fx)
  else (false, b, fx)   -- `Err(self)`: the handle is moved into the result, not dropped

/-- `From<Box<[T; N]>> for Box<[T]>` (663-669): `ManuallyDrop::new(arr)`; `slice_from_raw_parts_mut(arr.as_mut_ptr(), N)`; `from_raw` -/
def arrToSlice (a : List Cell) (fx : Fx) : List Cell × Fx :=
  let f := (Frame.arg a).manuallyDrop
  let ptr := f.cells.take a.length
  (fromRaw ptr, (f.scopeEnd none fx).2)

/-- `TryFrom<Box<[T]>> for Box<[T; N]>` (672-683) -/
def sliceToArr (n : Nat) (s : List Cell) (fx : Fx) : Bool × List Cell × Fx :=
  if s.length == n then
    let f := (Frame.arg s).manuallyDrop
    let ptr := f.cells
    (true, fromRaw ptr, (f.scopeEnd none fx).2)
  else (false, s, fx)   -- `Err(slice)`

/-- `Vec::into_boxed_slice` (vec.rs:1699-1709): `from_raw_parts_mut(self.as_mut_ptr(), self.len)`;
`Box::from_raw(slice)`; `mem::forget(self)` — neither `Vec::drop` (drop_in_place of the elements)
nor `RawVec`'s deallocation runs.  `v` = the `len` initialised elements. -/
def intoBoxedSlice (v : List Cell) (fx : Fx) : List Cell × Fx :=
  let slice := v.take v.length
  let output := fromRaw slice
  let f := (Frame.arg v).manuallyDrop
  (output, (f.scopeEnd none fx).2)

/-- `Box::from_iter_in` (620-625): `Vec::new_in(a)`; `extend(iter)`; `into_boxed_slice()` -/
def fromIterIn (items : List Cell) (fx : Fx) : List Cell × Fx :=
  let vec : List Cell := [] ++ items
  intoBoxedSlice vec fx

/-- unsizing a `Box<T>` through raw pointers (the crate's substitute for coercion):
`Box::from_raw(Box::into_raw(b) as *mut dyn Trait)` -/
def unsize (b : List Cell) (fx : Fx) : List Cell × Fx :=
  let (p, fx) := intoRaw b fx
  (fromRaw p, fx)

/-- the documented raw-parts round trip `Vec::from_raw_parts_in(Box::into_raw(b) as *mut T, len, cap, bump)`
(the crate has no safe `Box<[T]> → Vec`), with `cap = len` -/
def sliceToVec (s : List Cell) (fx : Fx) : List Cell × Fx := intoRaw s fx

/-! ## Operations -/

inductive Op where
  | new (s x tag : Nat) | pin (s x : Nat) | newArr (s : Nat) (xs : List Nat) | fromIter (s : Nat) (xs : List Nat)
  | vec (s : Nat) (xs : List Nat) (cap : Nat) | newAny (s x tag : Nat) | newFn (s x : Nat) | newStr (s : Nat) (bytes : List Nat)
  | defaultSlice (s : Nat) | defaultStr (s : Nat)
  | drop (s : Nat) (panicAt : Option Nat) | intoInner (s : Nat) | intoRaw (s : Nat) | fromRaw (s : Nat) | leak (s : Nat)
  | toAny (s : Nat) | downcast (s t : Nat) | intoPin (s : Nat) | unpin (s : Nat) | arrToSlice (s : Nat) | sliceToArr (s n : Nat)
  | intoBoxedSlice (s : Nat) | fromVec (s : Nat) | sliceToVec (s : Nat) | vecPush (s x : Nat)
  | read (s : Nat) | views (s : Nat) | write (s i x : Nat) | call (s x : Nat) | cmp (a b : Nat) | fmt (s : Nat) | hash (s : Nat)
  | ptrfmt (s : Nat) | iterProbe (lo hi n : Nat) | pollProbe (x : Nat) | hasherProbe (x : Nat)
  deriving Repr

/-- what an operation does to the world -/
inductive Eff where
  /-- slots and logs unchanged; `alloc`: the call went into the arena (a probe that boxes a temporary) -/
  | nop (alloc : Bool)
  /-- slot `s` becomes `new`; `nfresh` new ids are created; the logs grow by `fx` -/
  | upd (s : Nat) (new : Slot) (nfresh : Nat) (fx : Fx) (alloc : Bool)
  deriving Repr

def Eff.alloc : Eff → Bool
  | .nop a => a
  | .upd _ _ _ _ a => a

def mkCells : Nat → List Nat → List Cell
  | _, [] => []
  | id0, x :: xs => ⟨id0, x⟩ :: mkCells (id0 + 1) xs

def setVal (cs : List Cell) (i x : Nat) : List Cell :=
  match cs[i]? with
  | some c => cs.set i { c with val := x }
  | none => cs

/-! ### text rendering (trace protocol) -/

def showCell (z : Bool) (c : Cell) : String := if z then "z" else s!"{c.id}:{c.val}"
def showCells (z : Bool) (cs : List Cell) : String := ",".intercalate (cs.map (showCell z))
def hexDigit (n : Nat) : Char := if n < 10 then Char.ofNat (48 + n) else Char.ofNat (87 + n)
def hexOf (bytes : List Nat) : String :=
  if bytes.isEmpty then "-" else String.ofList (bytes.flatMap fun b => [hexDigit (b / 16), hexDigit (b % 16)])
def textOf (bytes : List Nat) : String := String.ofList (bytes.map Char.ofNat)

def showSlot (z : Bool) : Slot → String
  | .empty => "-"
  | .box t c => s!"B{t}({showCell z c})"
  | .pin c => s!"P({showCell z c})"
  | .arr cs _ => s!"A[{showCells z cs}]"
  | .slice cs _ => s!"S[{showCells z cs}]"
  | .any t c => s!"Y{t}({showCell z c})"
  | .fn c => s!"F({showCell z c})"
  | .vec cs _ => s!"V[{showCells z cs}]"
  | .str b => s!"T{hexOf b}"
  | .raw t c => s!"R{t}({showCell z c})"
  | .rawSlice cs _ => s!"RS[{showCells z cs}]"
  | .leaked t c => s!"L{t}({showCell z c})"
  | .leakedSlice cs _ => s!"LS[{showCells z cs}]"

def showIds (z : Bool) (ids : List Nat) : String :=
  "[" ++ ",".intercalate (ids.map fun i => if z then "z" else toString i) ++ "]"

/-- lexicographic order on value lists (`Ord for [T]`, `Ord for str` on bytes) -/
def cmpList : List Nat → List Nat → Ordering
  | [], [] => .eq
  | [], _ :: _ => .lt
  | _ :: _, [] => .gt
  | a :: as, b :: bs => if a < b then .lt else if a > b then .gt else cmpList as bs

def ordCh : Ordering → String
  | .lt => "L" | .eq => "E" | .gt => "G"
def b01 (b : Bool) : String := if b then "1" else "0"

/-- the pointee's comparison results, which the `Box` impls return unchanged (boxed.rs:361-400) -/
def cmpText (o : Ordering) : String :=
  s!"ok eq={b01 (o == .eq)} ne={b01 (o != .eq)} lt={b01 (o == .lt)} le={b01 (o != .gt)} gt={b01 (o == .gt)} ge={b01 (o != .lt)} cmp={ordCh o} pcmp={ordCh o}"

def dbgCells (cs : List Cell) : String := "[" ++ ", ".intercalate (cs.map fun c => s!"E{c.val}") ++ "]"
def optText : Option Nat → String
  | some v => toString v
  | none => "-"

/-- the pointee's iterator results (`Range<u32>`), which `impl Iterator for Box<I>` forwards (564-598) -/
def iterProbeText (lo hi n : Nat) : String :=
  let l0 := List.range' lo (hi - lo)
  let len := l0.length
  let next := l0.head?
  let l1 := l0.drop 1
  let back := l1.getLast?
  let l2 := l1.dropLast
  let (nth, l3) := if n < l2.length then (l2[n]?, l2.drop (n + 1)) else (none, [])
  let (nthb, l4) := if n < l3.length then (l3[l3.length - 1 - n]?, l3.take (l3.length - 1 - n)) else (none, [])
  s!"ok len={len} hint={len},{len} next={optText next} back={optText back} nth={optText nth} nthb={optText nthb} len2={l4.length} last={optText l0.getLast?} sum={l0.foldl (· + ·) 0}"

/-! ### effect and result of each operation -/

def skip : Eff × String := (.nop false, "skip")

/-- `create`: slot `s` must be empty -/
def create (w : W) (s : Nat) (new : Slot) (nfresh : Nat) (fx : Fx) : Eff × String :=
  match w.slots[s]? with
  | some .empty => (.upd s new nfresh fx true, "ok")
  | _ => skip

/-- The operation's effect on the world and its result text.  `z`: zero-sized elements (rendering, and the capacity a `Vec` reports). -/
def effOf (z : Bool) (op : Op) (w : W) : Eff × String :=
  let id0 := w.nextId
  match op with
  -- constructors (boxed.rs:164-173, 346-359, 620-625; `Bump::alloc`)
  | .new s x tag => create w s (.box (if tag == 1 then 1 else 0) ⟨id0, x⟩) 1 {}
  | .pin s x => create w s (.pin ⟨id0, x⟩) 1 {}     -- `Box(a.alloc(x)).into()`
  | .newArr s xs => if xs.length ≤ 4 then create w s (.arr (mkCells id0 xs) (some xs.length)) xs.length {} else skip
  | .fromIter s xs =>
    let (out, fx) := fromIterIn (mkCells id0 xs) {}
    create w s (.slice out none) xs.length fx
  | .vec s xs cap => create w s (.vec (mkCells id0 xs) cap) xs.length {}
  | .newAny s x tag =>
    let (b, fx) := unsize [⟨id0, x⟩] {}
    match b with
    | [c] => create w s (.any (if tag == 1 then 1 else 0) c) 1 fx
    | _ => skip
  | .newFn s x =>
    let (b, fx) := unsize [⟨id0, x⟩] {}
    match b with
    | [c] => create w s (.fn c) 1 fx
    | _ => skip
  | .newStr s bytes => create w s (.str bytes) 0 {}
  | .defaultSlice s =>
    match w.slots[s]? with
    | some .empty => (.upd s (.slice [] (some 0)) 0 {} false, "ok")   -- `Box(&mut [])`: no arena call
    | _ => skip
  | .defaultStr s =>
    match w.slots[s]? with
    | some .empty => (.upd s (.str []) 0 {} false, "ok")
    | _ => skip
  -- ownership transfers
  | .drop s pa =>
    match w.slots[s]? with
    | some (.vec cs _) =>
      -- `Vec::drop`: drop_in_place of the initialised prefix, then RawVec gives the block back to the arena
      let (p, fx) := dropGlue pa cs 0 false {}
      (.upd s .empty 0 fx true, if p then "panic" else "ok")
    | some sl =>
      if sl.cat == .owned then
        let (p, fx) := boxDrop sl.cells pa {}
        (.upd s .empty 0 fx false, if p then "panic" else "ok")
      else skip
    | none => skip
  | .intoInner s =>
    match w.slots[s]? with
    | some (.box _ c) =>
      let (v, fx) := intoInner [c] {}
      (.upd s .empty 0 fx false, "ok " ++ showCells z v)
    | _ => skip
  | .intoRaw s =>
    match w.slots[s]? with
    | some (.box t c) =>
      let (p, fx) := intoRaw [c] {}
      match p with
      | [c] => (.upd s (.raw t c) 0 fx false, "ok")
      | _ => skip
    | some (.slice cs cap) =>
      let (p, fx) := intoRaw cs {}
      (.upd s (.rawSlice p cap) 0 fx false, "ok")
    | _ => skip
  | .fromRaw s =>
    match w.slots[s]? with
    | some (.raw t c) | some (.leaked t c) =>
      match fromRaw [c] with
      | [c] => (.upd s (.box t c) 0 {} false, "ok")
      | _ => skip
    | some (.rawSlice cs cap) | some (.leakedSlice cs cap) => (.upd s (.slice (fromRaw cs) cap) 0 {} false, "ok")
    | _ => skip
  | .leak s =>
    match w.slots[s]? with
    | some (.box t c) =>
      let (p, fx) := leak [c] {}
      match p with
      | [c] => (.upd s (.leaked t c) 0 fx false, "ok")
      | _ => skip
    | some (.slice cs cap) =>
      let (p, fx) := leak cs {}
      (.upd s (.leakedSlice p cap) 0 fx false, "ok")
    | _ => skip
  | .toAny s =>
    match w.slots[s]? with
    | some (.box t c) =>
      let (b, fx) := unsize [c] {}
      match b with
      | [c] => (.upd s (.any t c) 0 fx false, "ok")
      | _ => skip
    | _ => skip
  | .downcast s t =>
    match w.slots[s]? with
    | some (.any tag c) =>
      let (ok, b, fx) := downcast tag t [c] {}
      match b with
      | [c] => (.upd s (if ok then .box t c else .any tag c) 0 fx false, if ok then "Ok" else "Err")
      | _ => skip
    | _ => skip
  | .intoPin s =>
    match w.slots[s]? with
    | some (.box 0 c) => (.upd s (.pin c) 0 {} false, "ok")       -- `Pin::new_unchecked(boxed)`: the handle is moved
    | _ => skip
  | .unpin s =>
    match w.slots[s]? with
    | some (.pin c) => (.upd s (.box 0 c) 0 {} false, "ok")
    | _ => skip
  | .arrToSlice s =>
    match w.slots[s]? with
    | some (.arr cs cap) =>
      let (out, fx) := arrToSlice cs {}
      (.upd s (.slice out cap) 0 fx false, "ok")
    | _ => skip
  | .sliceToArr s n =>
    match w.slots[s]? with
    | some (.slice cs cap) =>
      if n ≤ 4 then
        let (ok, out, fx) := sliceToArr n cs {}
        (.upd s (if ok then .arr out cap else .slice out cap) 0 fx false, if ok then "Ok" else "Err")
      else skip
    | _ => skip
  | .intoBoxedSlice s | .fromVec s =>       -- `From<Vec<T>> for Box<[T]>` = `v.into_boxed_slice()` (vec.rs:2314-2319)
    match w.slots[s]? with
    | some (.vec cs cap) =>
      let (out, fx) := intoBoxedSlice cs {}
      -- a `Vec` method: it may (std's does) give spare capacity back to the arena, so the arena figures are the environment's
      (.upd s (.slice out (some cap)) 0 fx true, "ok")
    | _ => skip
  | .sliceToVec s =>
    match w.slots[s]? with
    | some (.slice cs _) =>
      let (p, fx) := sliceToVec cs {}
      -- capacity given = length; a `RawVec` of zero-sized elements reports `usize::MAX` whatever it was given
      (.upd s (.vec p (if z then 2 ^ 64 - 1 else cs.length)) 0 fx false, "ok")
    | _ => skip
  | .vecPush s x =>
    match w.slots[s]? with
    | some (.vec cs cap) => if cs.length < cap then (.upd s (.vec (cs ++ [⟨id0, x⟩]) cap) 1 {} false, "ok") else skip
    | _ => skip
  -- access through `Deref`/`DerefMut`/`AsRef`/`Borrow` (550-562, 628-650)
  | .read s =>
    match w.slots[s]? with
    | some .empty | none => skip
    | some (.str b) => (.nop false, "ok " ++ hexOf b)
    | some sl => (.nop false, s!"ok [{showCells z sl.cells}]")
  | .views s =>
    match w.slots[s]? with
    | some (.box 0 c) => let t := showCell z c; (.nop false, s!"ok a=[{t}] b=[{t}] am=[{t}] bm=[{t}]")
    | some (.slice cs _) => let t := showCells z cs; (.nop false, s!"ok a=[{t}] b=[{t}] am=[{t}] bm=[{t}]")
    | _ => skip
  | .write s i x =>
    match w.slots[s]? with
    | some (.box t c) => if i = 0 then (.upd s (.box t { c with val := x }) 0 {} false, "ok") else skip
    | some (.pin c) => if i = 0 then (.upd s (.pin { c with val := x }) 0 {} false, "ok") else skip
    | some (.any t c) => if i = 0 then (.upd s (.any t { c with val := x }) 0 {} false, "ok") else skip
    | some (.leaked t c) => if i = 0 then (.upd s (.leaked t { c with val := x }) 0 {} false, "ok") else skip
    | some (.arr cs cap) => if i < cs.length then (.upd s (.arr (setVal cs i x) cap) 0 {} false, "ok") else skip
    | some (.slice cs cap) => if i < cs.length then (.upd s (.slice (setVal cs i x) cap) 0 {} false, "ok") else skip
    | some (.vec cs cap) => if i < cs.length then (.upd s (.vec (setVal cs i x) cap) 0 {} false, "ok") else skip
    | some (.leakedSlice cs cap) => if i < cs.length then (.upd s (.leakedSlice (setVal cs i x) cap) 0 {} false, "ok") else skip
    | _ => skip
  | .call s x =>
    match w.slots[s]? with
    | some (.fn c) => (.nop false, s!"ok {(x + c.val) % 2 ^ 32}")
    | _ => skip
  -- delegating impls: the result is the pointee's, by definition
  | .cmp a b =>
    match w.slots[a]?, w.slots[b]? with
    | some (.box 0 p), some (.box 0 q) => (.nop false, cmpText (cmpList [p.val] [q.val]))
    | some (.slice p _), some (.slice q _) => (.nop false, cmpText (cmpList (p.map (·.val)) (q.map (·.val))))
    | some (.str p), some (.str q) => (.nop false, cmpText (cmpList p q))
    | _, _ => skip
  | .fmt s =>
    match w.slots[s]? with
    | some (.box 0 c) | some (.pin c) => (.nop false, s!"ok dbg=E{c.val} disp={c.val}")
    | some (.str b) => (.nop false, s!"ok dbg=\"{textOf b}\" disp={textOf b}")
    | some (.slice cs _) | some (.arr cs _) => (.nop false, s!"ok dbg={dbgCells cs} disp=-")
    | _ => skip
  | .hash s | .ptrfmt s =>
    match w.slots[s]? with
    | some (.box 0 _) | some (.slice ..) | some (.str _) => (.nop false, "ok same")
    | _ => skip
  | .iterProbe lo hi n => (.nop true, iterProbeText lo hi n)
  | .pollProbe x => (.nop true, s!"ok ready {x}")
  | .hasherProbe _ => (.nop true, "ok same")

/-- apply an effect; the arena accounting moves only when the call went into the arena -/
def applyEff (env : Env) (e : Eff) (w : W) : W :=
  match e with
  | .nop alloc => { w with acct := if alloc then env.acct else w.acct }
  | .upd s new nfresh fx alloc =>
    { slots := w.slots.set s new
      drops := w.drops ++ fx.drops
      moved := w.moved ++ fx.moved
      created := w.created ++ List.range' w.nextId nfresh
      nextId := w.nextId + nfresh
      acct := if alloc then env.acct else w.acct }

/-- allocator events of the call: none unless it went into the arena -/
def evtOf (env : Env) (e : Eff) : Nat := if e.alloc then env.evt else 0

def step (z : Bool) (env : Env) (op : Op) (w : W) : W := applyEff env (effOf z op w).1 w

def run (z : Bool) : List (Env × Op) → W → W
  | [], w => w
  | (env, op) :: rest, w => run z rest (step z env op w)

/-- end of the program: every owner still alive is dropped, in slot order; raw pointers and
leaked references are not -/
def endDrops (w : W) : List Nat := (w.slots.filter (·.cat == .owned)).flatMap Slot.ids

end Bump.Bx
