import BumpVerif.Model.RawVec
/-!
# `bumpalo::collections::Vec` — every method as the source's sequence of slot steps

Mirrors `src/collections/vec.rs`.  Conventions:

* a method returns the vector(s) and effects *after the call returned or unwound*; the last
  component says whether it panicked (`none` / `false` = panicked, depending on the method);
* user callbacks are data: `cb k e` is the answer of the `k`-th call on element `e`, `none` =
  that call panics; `Clone`/`Drop` panic through the one-shot triggers of `Cfg`;
* helper objects with destructors (`SetLenOnDrop`, `Drain`, `Splice`, `DrainFilter`,
  `IntoIter`) are explicit; on a panic the unwinding path runs their `Drop` in Rust's order;
* a second panic while unwinding aborts the process (no continuation to reason about): the
  model just stops that destructor; the harness never injects two panics into one call.
-/
namespace Bump.V
open Bump

/-! ## push / pop / insert / remove / swap_remove -/

/-- vec.rs:1425 -/
def push (c : Cfg) (v : VS) (e : Elem) (w : W) : VS × W × Option Unit :=
  if v.len = capOf c v then
    match rawReserve c v v.len 1 with
    | none => (v, (dropElem c w e).1, none)
    | some v1 =>
      let (v2, w) := v1.write c v1.len e w
      ({ v2 with len := v2.len + 1 }, w, some ())
  else
    let (v2, w) := v.write c v.len e w
    ({ v2 with len := v2.len + 1 }, w, some ())

/-- vec.rs:1455 (never panics) -/
def pop (v : VS) (w : W) : VS × W × Option Elem :=
  if v.len = 0 then (v, w, none)
  else
    let v1 := { v with len := v.len - 1 }
    match v1.read v1.len with
    | some e => (v1, w.moved e, some e)
    | none => (v1, w.flag "pop: read of an uninitialised slot", none)

/-- vec.rs:1221; `none` = panicked (`index > len` or capacity overflow), the element is
dropped by the unwinding -/
def insert (c : Cfg) (v : VS) (i : Nat) (e : Elem) (w : W) : VS × W × Option Unit :=
  let len := v.len
  if i > len then (v, (dropElem c w e).1, none)
  else
    match (if len = capOf c v then rawReserve c v v.len 1 else some v) with
    | none => (v, (dropElem c w e).1, none)
    | some v1 =>
      let (v2, w) := v1.copy c i (i + 1) (len - i) w
      let (v3, w) := v2.write c i e w
      ({ v3 with len := len + 1 }, w, some ())

/-- vec.rs:1264 -/
def remove (c : Cfg) (v : VS) (i : Nat) (w : W) : VS × W × Option Elem :=
  let len := v.len
  if ¬ i < len then (v, w, none)
  else
    match v.read i with
    | none => (v, w.flag "remove: read of an uninitialised slot", none)
    | some ret =>
      let (v1, w) := v.copy c (i + 1) i (len - i - 1) w
      ({ v1 with len := len - 1 }, w.moved ret, some ret)

/-- vec.rs:1189: bounds check on `self[index]`, read the last element, lower `len`, then
`ptr::replace(hole, last)` -/
def swapRemove (c : Cfg) (v : VS) (i : Nat) (w : W) : VS × W × Option Elem :=
  if ¬ i < v.len then (v, w, none)
  else
    match v.read (v.len - 1) with
    | none => (v, w.flag "swap_remove: read of an uninitialised slot", none)
    | some last =>
      let v1 := { v with len := v.len - 1 }
      match v1.read i with
      | none => (v1, w.flag "swap_remove: read of an uninitialised slot", none)
      | some old =>
        let (v2, w) := v1.write c i last w
        (v2, w.moved old, some old)

/-! ## truncate / clear / resize / extend_with -/

/-- the loop of `truncate` (vec.rs:944-961) with its `SetLenOnDrop`: `k` iterations left,
`l` = the guard's `local_len`.  Returns the length the guard stores (at the end or while
unwinding from a destructor panic). -/
def truncLoop (c : Cfg) (slots : List (Option Elem)) : Nat → Nat → W → Nat × W × Bool
  | 0, l, w => (l, w, false)
  | k + 1, l, w =>
    match (slots[l - 1]?).join with
    | none => (l - 1, w.flag "truncate dropped an uninitialised slot", false)
    | some e =>
      let (w, p) := dropElem c w e
      if p then (l - 1, w, true) else truncLoop c slots k (l - 1) w

def truncate (c : Cfg) (v : VS) (n : Nat) (w : W) : VS × W × Option Unit :=
  let (l, w, p) := truncLoop c v.slots (v.len - n) v.len w
  ({ v with len := l }, w, if p then none else some ())

def clear (c : Cfg) (v : VS) (w : W) : VS × W × Option Unit := truncate c v 0 w

/-- the `for _ in 1..n` loop of `extend_with` (vec.rs:1924): clone, write, bump the guard's
length (stored into `len` at the end or on unwinding, so kept in `len` directly) -/
def extendClones (c : Cfg) (x : Elem) : Nat → VS → W → VS × W × Bool
  | 0, v, w => (v, w, true)
  | k + 1, v, w =>
    match cloneElem c w x with
    | (w, none) => (v, w, false)
    | (w, some e) =>
      let (v1, w) := v.write c v.len e w
      extendClones c x k { v1 with len := v1.len + 1 } w

def extendWith (c : Cfg) (v : VS) (n : Nat) (x : Elem) (w : W) : VS × W × Option Unit :=
  match rawReserve c v v.len n with
  | none => (v, (dropElem c w x).1, none)
  | some v1 =>
    let (v2, w, ok) := extendClones c x (n - 1) v1 w
    if !ok then (v2, (dropElem c w x).1, none)
    else if n > 0 then
      let (v3, w) := v2.write c v2.len x w
      ({ v3 with len := v3.len + 1 }, w, some ())
    else
      let (w, p) := dropElem c w x
      (v2, w, if p then none else some ())

/-- vec.rs:1742; the value is dropped at the end of the shrinking branch -/
def resize (c : Cfg) (v : VS) (n : Nat) (x : Elem) (w : W) : VS × W × Option Unit :=
  if n > v.len then extendWith c v (n - v.len) x w
  else
    let (v1, w, r) := truncate c v n w
    let (w, p) := dropElem c w x
    (v1, w, if r.isNone || p then none else some ())

/-! ## iterators supplied to extend / splice / from_iter_in -/

/-- the caller's owning iterator: items, the lower `size_hint` it reports, counters, and the
index of the `next` call that panics -/
structure Src where
  items : List Elem
  hint : Nat
  consumed : Nat := 0
  calls : Nat := 0
  panicAt : Option Nat := none
  deriving Repr

inductive It where
  | src (s : Src)
  /-- `slice.iter().cloned()` -/
  | cloned (rest : List Elem)
  /-- `vec::IntoIter` over already collected items -/
  | owned (rest : List Elem)
  deriving Repr

def It.hintLo : It → Nat
  | .src s => s.hint - s.consumed
  | .cloned r => r.length
  | .owned r => r.length

def It.remaining : It → Nat
  | .src s => s.items.length
  | .cloned r => r.length
  | .owned r => r.length

/-- `next()`; the last component: `none` = it panicked, `some none` = exhausted -/
def It.next (c : Cfg) (w : W) : It → W × It × Option (Option Elem)
  | .src s =>
    if s.panicAt == some s.calls then (w, .src { s with calls := s.calls + 1, panicAt := none }, none)
    else
      match s.items with
      | [] => (w, .src { s with calls := s.calls + 1 }, some none)
      | e :: r => (w, .src { s with items := r, consumed := s.consumed + 1, calls := s.calls + 1 }, some (some e))
  | .cloned [] => (w, .cloned [], some none)
  | .cloned (e :: r) =>
    match cloneElem c w e with
    | (w, none) => (w, .cloned r, none)
    | (w, some e') => (w, .cloned r, some (some e'))
  | .owned [] => (w, .owned [], some none)
  | .owned (e :: r) => (w, .owned r, some (some e))

/-- dropping the iterator: an owning one drops what it still holds -/
def It.dropRest (c : Cfg) (w : W) : It → W
  | .src s => (dropAll c s.items w).1
  | .cloned _ => w
  | .owned r => (dropAll c r w).1

/-- `for t in iter { self.push(t) }` -/
def extendLoop (c : Cfg) : Nat → VS → It → W → VS × It × W × Bool
  | 0, v, it, w => (v, it, w.flag "extend: out of fuel", true)
  | f + 1, v, it, w =>
    match It.next c w it with
    | (w, it, none) => (v, it, w, false)
    | (w, it, some none) => (v, it, w, true)
    | (w, it, some (some e)) =>
      match push c v e w with
      | (v, w, none) => (v, it, w, false)
      | (v, w, some _) => extendLoop c f v it w

/-- `Extend::extend(iter.by_ref())` (vec.rs:2151): reserve the lower size hint, then push -/
def extendRef (c : Cfg) (v : VS) (it : It) (w : W) : VS × It × W × Bool :=
  match rawReserve c v v.len it.hintLo with
  | none => (v, it, w, false)
  | some v1 => extendLoop c (it.remaining + 1) v1 it w

/-- `Extend::extend(iter)`: the iterator is dropped at the end (or by the unwinding) -/
def extend (c : Cfg) (v : VS) (it : It) (w : W) : VS × W × Option Unit :=
  let (v, it, w, ok) := extendRef c v it w
  (v, it.dropRest c w, if ok then some () else none)

/-- the elements a vector owns (what `Vec::drop` drops) -/
def VS.owned (v : VS) : List Elem := (v.slots.take v.len).filterMap id

/-- `Vec::drop`: slice drop glue over `[0, len)` (continues after a destructor panic) -/
def dropVec (c : Cfg) (v : VS) (w : W) : W × Bool := dropAll c v.owned w

def newVec : VS := ⟨[], 0, 0⟩

/-- `Vec::from_iter_in` (vec.rs:605) / `collect_in` -/
def fromIter (c : Cfg) (it : It) (w : W) : Option VS × W :=
  match extend c newVec it w with
  | (v, w, some _) => (some v, w)
  | (v, w, none) => (none, (dropVec c v w).1)

/-- `Clone::clone` (vec.rs:2021): `with_capacity_in(len)`, then extend with clones -/
def cloneVec (c : Cfg) (v : VS) (w : W) : Option VS × W :=
  match withCapacity c v.len with
  | none => (none, w)
  | some n =>
    match extend c n (.cloned v.owned) w with
    | (n, w, some _) => (some n, w)
    | (n, w, none) => (none, (dropVec c n w).1)

/-- `bumpalo::vec![in b; elem; n]`.  `some false`: the element expression was never
evaluated (the caller keeps the value). -/
def vmacroPushes (c : Cfg) (x : Elem) : Nat → VS → W → VS × W × Bool
  | 0, v, w => (v, w, true)
  | k + 1, v, w =>
    match cloneElem c w x with
    | (w, none) => (v, w, false)
    | (w, some e) =>
      match push c v e w with
      | (v, w, none) => (v, w, false)
      | (v, w, some _) => vmacroPushes c x k v w

def vmacroN (c : Cfg) (x : Elem) (n : Nat) (w : W) : Option VS × W × Bool :=
  match withCapacity c n with
  | none => (none, w, false)
  | some v =>
    if n = 0 then (some v, w, false)
    else
      match vmacroPushes c x (n - 1) v w with
      | (v, w, false) =>
        -- unwinding: `elem` (inner block) is dropped before `v`
        let w := (dropElem c w x).1
        (none, (dropVec c v w).1, true)
      | (v, w, true) =>
        match push c v x w with
        | (v, w, none) => (none, (dropVec c v w).1, true)
        | (v, w, some _) => (some v, w, true)

/-- the pushes of `bumpalo::vec![in b; a, b, c]` (vec.rs:269-273): `$( v.push($x); )*`, each element
expression evaluated right before its push.  `some rest`: a `push` panicked (growth refused; it
dropped its argument), the expressions `rest` were never evaluated. -/
def vmacroList (c : Cfg) : List Elem → VS → W → VS × W × Option (List Elem)
  | [], v, w => (v, w, none)
  | e :: es, v, w =>
    match push c v e w with
    | (v, w, none) => (v, w, some es)
    | (v, w, some _) => vmacroList c es v w

/-- `bumpalo::vec![in b; a, b, c]`: `new_in`, the pushes, the vector is the value of the block;
when a `push` panics the unwinding drops the partly built vector; the values of the expressions
that were never evaluated (last component) stay with the caller -/
def vmacroListOp (c : Cfg) (es : List Elem) (w : W) : Option VS × W × List Elem :=
  match vmacroList c es newVec w with
  | (v, w, none) => (some v, w, [])
  | (v, w, some rest) => (none, (dropVec c v w).1, rest)

/-! ## append / split_off -/

/-- vec.rs:1486 -/
def append (c : Cfg) (a b : VS) (w : W) : VS × VS × W × Option Unit :=
  let count := b.len
  match rawReserve c a a.len count with
  | none => (a, b, w, none)
  | some a1 =>
    let (a2, w) := a1.copyFrom c (b.slots.take count) a1.len w
    ({ a2 with len := a2.len + count }, { b with len := 0 }, w, some ())

/-- vec.rs:1663 -/
def splitOff (c : Cfg) (v : VS) (at_ : Nat) (w : W) : VS × Option VS × W :=
  if at_ > v.len then (v, none, w)
  else
    let otherLen := v.len - at_
    match withCapacity c otherLen with
    | none => (v, none, w)
    | some o =>
      let (o1, w) := o.copyFrom c ((v.slots.drop at_).take otherLen) 0 w
      ({ v with len := at_ }, some { o1 with len := otherLen }, w)

/-! ## drain -/

inductive Bd where
  | inc (n : Nat)
  | exc (n : Nat)
  | unb
  deriving Repr, DecidableEq

/-- `n.checked_add(1).expect(..)` (vec.rs:1552-1562): a bound of `usize::MAX` panics in every
build profile (before the F7 fix this was a plain `n + 1`, wrapping without overflow checks) -/
def succU (_c : Cfg) (n : Nat) : Option Nat :=
  if n + 1 < USIZE then some (n + 1) else none

def rangeStart (c : Cfg) : Bd → Option Nat
  | .inc n => some n
  | .exc n => succU c n
  | .unb => some 0

def rangeEnd (c : Cfg) (len : Nat) : Bd → Option Nat
  | .inc n => succU c n
  | .exc n => some n
  | .unb => some len

structure Drain where
  tailStart : Nat
  tailLen : Nat
  /-- the remaining range `[lo, hi)` of the slice iterator -/
  lo : Nat
  hi : Nat
  deriving Repr

/-- vec.rs:1536; `none` = one of the assertions (or the bound arithmetic) panicked -/
def drainNew (c : Cfg) (v : VS) (s e : Bd) : Option (VS × Drain) :=
  match rangeStart c s, rangeEnd c v.len e with
  | some st, some en =>
    if st ≤ en ∧ en ≤ v.len then some ({ v with len := st }, ⟨en, v.len - en, st, en⟩) else none
  | _, _ => none

def Drain.takeFront (v : VS) : Nat → Drain → W → Drain × W × List Elem
  | 0, d, w => (d, w, [])
  | k + 1, d, w =>
    if d.lo < d.hi then
      match v.read d.lo with
      | none => (d, w.flag "drain read an uninitialised slot", [])
      | some e =>
        let (d, w, xs) := Drain.takeFront v k { d with lo := d.lo + 1 } (w.moved e)
        (d, w, e :: xs)
    else (d, w, [])

def Drain.takeBack (v : VS) : Nat → Drain → W → Drain × W × List Elem
  | 0, d, w => (d, w, [])
  | k + 1, d, w =>
    if d.lo < d.hi then
      match v.read (d.hi - 1) with
      | none => (d, w.flag "drain read an uninitialised slot", [])
      | some e =>
        let (d, w, xs) := Drain.takeBack v k { d with hi := d.hi - 1 } (w.moved e)
        (d, w, e :: xs)
    else (d, w, [])

/-- the part of `Drain::drop` after the range is exhausted: move the tail back -/
def Drain.moveBack (c : Cfg) (v : VS) (d : Drain) (w : W) : VS × W :=
  if d.tailLen > 0 then
    let start := v.len
    let (v1, w) := if d.tailStart ≠ start then v.copy c d.tailStart start d.tailLen w else (v, w)
    ({ v1 with len := start + d.tailLen }, w)
  else (v, w)

/-- `Drain::drop` (vec.rs:2549): `for_each(drop)`, then move the tail back; a destructor
panic unwinds out of it before the tail is moved (`true`) -/
def Drain.drop (c : Cfg) (v : VS) (d : Drain) (w : W) : VS × W × Bool :=
  let (rest, w) := readRange v d.lo d.hi w
  match dropEach c rest w with
  | (w, some _) => (v, w, true)
  | (w, none) =>
    let (v, w) := d.moveBack c v w
    (v, w, false)

/-- `drain(range)`, `take` calls of `next`, `back` calls of `next_back`, then the iterator is
dropped or forgotten -/
def drainOp (c : Cfg) (v : VS) (s e : Bd) (take back : Nat) (forget : Bool) (w : W) : VS × W × Option (List Elem) :=
  match drainNew c v s e with
  | none => (v, w, none)
  | some (v1, d) =>
    let (d, w, xs) := d.takeFront v1 take w
    let (d, w, ys) := d.takeBack v1 back w
    if forget then (v1, w, some (xs ++ ys))
    else
      let (v2, w, p) := d.drop c v1 w
      (v2, w, if p then none else some (xs ++ ys))

/-! ## splice -/

/-- `Drain::fill` (vec.rs:2652): write items into `[vec.len, tail_start)`.  Last component:
`none` = the iterator panicked, `some false` = it ran out, `some true` = gap filled. -/
def Drain.fill (c : Cfg) (d : Drain) : Nat → VS → It → W → VS × It × W × Option Bool
  | 0, v, it, w => (v, it, w, some true)
  | k + 1, v, it, w =>
    match It.next c w it with
    | (w, it, none) => (v, it, w, none)
    | (w, it, some none) => (v, it, w, some false)
    | (w, it, some (some e)) =>
      let (v1, w) := v.write c v.len e w
      Drain.fill c d k { v1 with len := v1.len + 1 } it w

/-- `Drain::move_tail` (vec.rs:2670); `none` = the reservation panicked -/
def Drain.moveTail (c : Cfg) (v : VS) (d : Drain) (extra : Nat) (w : W) : Option (VS × Drain × W) :=
  match rawReserve c v (d.tailStart + d.tailLen) extra with
  | none => none
  | some v1 =>
    let (v2, w) := v1.copy c d.tailStart (d.tailStart + extra) d.tailLen w
    some (v2, { d with tailStart := d.tailStart + extra }, w)

/-- pull everything that is left into a fresh vector (`collected.extend(..)`), abstractly a
list; `false` = the iterator panicked -/
def collectRest (c : Cfg) : Nat → It → W → List Elem → It × W × List Elem × Bool
  | 0, it, w, acc => (it, w, acc, true)
  | f + 1, it, w, acc =>
    match It.next c w it with
    | (w, it, none) => (it, w, acc, false)
    | (w, it, some none) => (it, w, acc, true)
    | (w, it, some (some e)) => collectRest c f it w (acc ++ [e])

/-- body of `Splice::drop` (vec.rs:2605) after the drained range has been exhausted; `false`
= panicked inside -/
def spliceBody (c : Cfg) (v : VS) (d : Drain) (it : It) (w : W) : VS × Drain × It × W × Bool :=
  if d.tailLen = 0 then
    let (v, it, w, ok) := extendRef c v it w
    (v, d, it, w, ok)
  else
    match Drain.fill c d (d.tailStart - v.len) v it w with
    | (v, it, w, none) => (v, d, it, w, false)
    | (v, it, w, some false) => (v, d, it, w, true)
    | (v, it, w, some true) =>
      let lb := it.hintLo
      -- `if lower_bound > 0 { move_tail; fill }`
      let step1 : Option (VS × Drain × It × W × Option Bool) :=
        if lb > 0 then
          match Drain.moveTail c v d lb w with
          | none => none
          | some (v, d, w) =>
            let (v, it, w, r) := Drain.fill c d (d.tailStart - v.len) v it w
            some (v, d, it, w, r)
        else some (v, d, it, w, some true)
      match step1 with
      | none => (v, d, it, w, false)
      | some (v, d, it, w, none) => (v, d, it, w, false)
      | some (v, d, it, w, some false) => (v, d, it, w, true)
      | some (v, d, it, w, some true) =>
        match collectRest c (it.remaining + 1) it w [] with
        | (it, w, acc, false) =>
          -- unwinding: the partly filled `collected` vector is dropped first
          (v, d, it, (dropAll c acc w).1, false)
        | (it, w, acc, true) =>
          if acc.length > 0 then
            match Drain.moveTail c v d acc.length w with
            | none => (v, d, it, (dropAll c acc w).1, false)
            | some (v, d, w) =>
              match Drain.fill c d (d.tailStart - v.len) v (.owned acc) w with
              | (v, .owned [], w, some true) => (v, d, it, w, true)
              | (v, left, w, _) =>
                -- `debug_assert!(filled); debug_assert_eq!(collected.len(), 0)`
                (v, d, it, (left.dropRest c w).flag "splice: collected items did not fit", !c.dbg)
          else (v, d, it, w, true)

/-- `splice(range, iter)`, `take` calls of `next`, then the `Splice` is dropped: its `Drop`,
then its fields `drain` (`Drain::drop`) and `replace_with` -/
def spliceOp (c : Cfg) (v : VS) (s e : Bd) (it : It) (take : Nat) (w : W) : VS × W × Option (List Elem) :=
  match drainNew c v s e with
  | none => (v, it.dropRest c w, none)
  | some (v1, d) =>
    let (d, w, xs) := d.takeFront v1 take w
    -- `self.drain.by_ref().for_each(drop)`
    let (rest, w) := readRange v1 d.lo d.hi w
    match dropEach c rest w with
    | (w, some left) =>
      -- a destructor panicked: `Drain::drop` finishes the range (a further panic would abort)
      let w := (dropAll c left w).1
      let (v2, w) := ({ d with lo := d.hi } : Drain).moveBack c v1 w
      (v2, it.dropRest c w, none)
    | (w, none) =>
      let d := { d with lo := d.hi }
      let (v2, d, it, w, ok) := spliceBody c v1 d it w
      let (v3, w) := d.moveBack c v2 w
      (v3, it.dropRest c w, if ok then some xs else none)

/-! ## drain_filter / retain -/

structure DF where
  idx : Nat
  del : Nat
  oldLen : Nat
  calls : Nat
  /-- set while the predicate runs, so it stays set when the predicate panics -/
  panicFlag : Bool := false
  deriving Repr

/-- `DrainFilter::next` (vec.rs:2718-2745).  The index is advanced *after* the predicate
returned; a panicking predicate leaves `panic_flag` set and `idx` on the element it was shown.
Last component: `none` = the predicate panicked, `some none` = exhausted, `some (some e)` = `e`
removed and yielded. -/
def dfNext (c : Cfg) (cb : Nat → Elem → Option Bool) : Nat → VS → DF → W → VS × DF × W × Option (Option Elem)
  | 0, v, s, w => (v, s, w, some none)
  | f + 1, v, s, w =>
    if s.idx = s.oldLen then (v, s, w, some none)
    else
      let i := s.idx
      match v.read i with
      | none => (v, s, w.flag "drain_filter read an uninitialised slot", some none)
      | some e =>
        match cb s.calls e with
        | none => (v, { s with calls := s.calls + 1, panicFlag := true }, w, none)
        | some true => (v, { s with idx := i + 1, del := s.del + 1, calls := s.calls + 1 }, w, some (some e))
        | some false =>
          if s.del > 0 then
            let (v1, w) := v.write c (i - s.del) e w
            dfNext c cb f v1 { s with idx := i + 1, calls := s.calls + 1 } w
          else dfNext c cb f v { s with idx := i + 1, calls := s.calls + 1 } w

/-- `self.for_each(drop)` inside `DrainFilter::drop`; `false` = a predicate or destructor panic
unwound out of it -/
def dfDrain (c : Cfg) (cb : Nat → Elem → Option Bool) : Nat → VS → DF → W → VS × DF × W × Bool
  | 0, v, s, w => (v, s, w, true)
  | f + 1, v, s, w =>
    match dfNext c cb (s.oldLen - s.idx + 1) v s w with
    | (v, s, w, none) => (v, s, w, false)
    | (v, s, w, some none) => (v, s, w, true)
    | (v, s, w, some (some e)) =>
      let (w, p) := dropElem c w e
      if p then (v, s, w, false) else dfDrain c cb f v s w

/-- `BackshiftOnDrop::drop` (vec.rs:2768-2783): move the unprocessed elements down over the
holes left by the drained ones, then `set_len(old_len - del)` -/
def dfBackshift (c : Cfg) (v : VS) (s : DF) (w : W) : VS × W :=
  let (v1, w) :=
    if s.idx < s.oldLen ∧ s.del > 0 then v.copy c s.idx (s.idx - s.del) (s.oldLen - s.idx) w else (v, w)
  ({ v1 with len := s.oldLen - s.del }, w)

/-- `DrainFilter::drop` (vec.rs:2756-2794): unless the predicate has already panicked, consume
the rest; the guard backshifts and restores `len` at the end *and* while unwinding.
`false` = a panic unwound out of it. -/
def dfDrop (c : Cfg) (cb : Nat → Elem → Option Bool) (v : VS) (s : DF) (w : W) : VS × W × Bool :=
  if s.panicFlag then
    let (v, w) := dfBackshift c v s w
    (v, w, true)
  else
    match dfDrain c cb (s.oldLen - s.idx + 1) v s w with
    | (v, s, w, ok) =>
      let (v, w) := dfBackshift c v s w
      (v, w, ok)

/-- the caller's `take` calls of `next()` (stops at `None`); last component `false` = the
predicate panicked inside one of them -/
def dfTake (c : Cfg) (cb : Nat → Elem → Option Bool) : Nat → VS → DF → W → VS × DF × W × List Elem × Bool
  | 0, v, s, w => (v, s, w, [], true)
  | k + 1, v, s, w =>
    match dfNext c cb (s.oldLen - s.idx + 1) v s w with
    | (v, s, w, none) => (v, s, w, [], false)
    | (v, s, w, some none) => (v, s, w, [], true)
    | (v, s, w, some (some e)) =>
      let (v, s, w, xs, ok) := dfTake c cb k v s (w.moved e)
      (v, s, w, e :: xs, ok)

/-- `drain_filter(pred)` (vec.rs:1327), `take` calls of `next`, then drop or forget.  When the
predicate panics inside a caller's `next()` the unwinding drops the `DrainFilter`: its `Drop`
sees `panic_flag`, does not call the predicate again and only backshifts. -/
def drainFilterOp (c : Cfg) (v : VS) (cb : Nat → Elem → Option Bool) (take : Nat) (forget : Bool) (w : W) :
    VS × W × Option (List Elem) :=
  let s : DF := ⟨0, 0, v.len, 0, false⟩
  let v0 := { v with len := 0 }
  match dfTake c cb take v0 s w with
  | (v1, s, w, _, false) =>
    let (v2, w, _) := dfDrop c cb v1 s w
    (v2, w, none)
  | (v1, s, w, xs, true) =>
    if forget then (v1, w, some xs)
    else
      let (v2, w, ok) := dfDrop c cb v1 s w
      (v2, w, if ok then some xs else none)

/-- vec.rs:1302: `self.drain_filter(|x| !f(x));` — the temporary is dropped at once -/
def retain (c : Cfg) (v : VS) (cb : Nat → Elem → Option Bool) (w : W) : VS × W × Option Unit :=
  match drainFilterOp c v (fun k e => (cb k e).map (!·)) 0 false w with
  | (v, w, some _) => (v, w, some ())
  | (v, w, none) => (v, w, none)

/-! ## dedup_by -/

def swapSlots (s : List (Option Elem)) (i j : Nat) : List (Option Elem) :=
  (s.set i (s[j]?).join).set j (s[i]?).join

/-- `partition_dedup_by` (vec.rs:114-201): `r` next_read, `wr` next_write.  `false` = the
callback panicked (the slice is a permutation at every moment). -/
def dedupLoop (cb : Nat → Elem → Elem → Option Bool) (len : Nat) :
    Nat → List (Option Elem) → Nat → Nat → Nat → W → List (Option Elem) × Nat × W × Bool
  | 0, s, _, wr, _, w => (s, wr, w, true)
  | f + 1, s, r, wr, calls, w =>
    if ¬ r < len then (s, wr, w, true)
    else
      match (s[r]?).join, (s[wr - 1]?).join with
      | some a, some b =>
        match cb calls a b with
        | none => (s, wr, w, false)
        | some true => dedupLoop cb len f s (r + 1) wr (calls + 1) w
        | some false =>
          let s1 := if r ≠ wr then swapSlots s r wr else s
          dedupLoop cb len f s1 (r + 1) (wr + 1) (calls + 1) w
      | _, _ => (s, wr, w.flag "dedup read an uninitialised slot", true)

/-- vec.rs:1396 -/
def dedupBy (c : Cfg) (v : VS) (cb : Nat → Elem → Elem → Option Bool) (w : W) : VS × W × Option Unit :=
  if v.len ≤ 1 then truncate c v v.len w
  else
    match dedupLoop cb v.len v.len v.slots 1 1 0 w with
    | (s, _, w, false) => ({ v with slots := s }, w, none)
    | (s, wr, w, true) => truncate c { v with slots := s } wr w

/-! ## reserve family -/

def reserveOp (c : Cfg) (v : VS) (n : Nat) (exact : Bool) : Except RErr VS := reserveGen c v v.len n exact

/-! ## into_iter / into_bump_slice / into_boxed_slice / drop -/

/-- `into_iter()` (vec.rs:2112), `take` × `next`, `back` × `next_back`, then the `IntoIter` is
dropped (`for_each(drop)`, vec.rs:2496) or forgotten.  `none` = a destructor panicked. -/
def intoIterOp (c : Cfg) (v : VS) (take back : Nat) (forget : Bool) (w : W) : W × Option (List Elem) :=
  let d : Drain := ⟨v.len, 0, 0, v.len⟩
  let (d, w, xs) := d.takeFront v take w
  let (d, w, ys) := d.takeBack v back w
  if forget then (w, some (xs ++ ys))
  else
    let (rest, w) := readRange v d.lo d.hi w
    match dropEach c rest w with
    | (w, some _) => (w, none)
    | (w, none) => (w, some (xs ++ ys))

/-- `into_iter().nth(n)`: `IntoIter` does not override `nth`, so this is `core`'s default — `n` × `next()`
with the item dropped at once, then one more `next()` whose item goes to the caller — followed by the drop
of the `IntoIter`.  A panicking destructor of a skipped item unwinds through `IntoIter::drop`, which
drops what is left (`for_each(drop)`; one panic per call).  `none` = a destructor panicked. -/
def intoIterNthOp (c : Cfg) (v : VS) (n : Nat) (w : W) : W × Option (List Elem) :=
  let k := min n v.len
  let (skipped, w) := readRange v 0 k w
  match dropEach c skipped w with
  | (w, some left) =>
    let (rest, w) := readRange v k v.len w
    let (w, _) := dropEach c (left ++ rest) w
    (w, none)
  | (w, none) =>
    if n < v.len then
      match v.read n with
      | none => (w.flag "into_iter read an uninitialised slot", some [])
      | some e =>
        let w := w.moved e
        let (rest, w) := readRange v (n + 1) v.len w
        match dropEach c rest w with
        | (w, some _) => (w, none)
        | (w, none) => (w, some [e])
    else (w, some [])

/-- `into_bump_slice` (vec.rs:856): the contents, no event -/
def intoBumpSlice (v : VS) : List Elem := v.owned

/-- `into_boxed_slice` (vec.rs:1699) and the drop of that box: slice drop glue -/
def intoBoxedThenDrop (c : Cfg) (v : VS) (w : W) : List Elem × W × Bool :=
  let (w, p) := dropAll c v.owned w
  (v.owned, w, p)

/-! ## extend_from_slice_copy / extend_from_slices_copy (`T: Copy`) -/

/-- vec.rs:1842: reserve, then one `copy_nonoverlapping` -/
def extendFromSliceCopy (c : Cfg) (v : VS) (src : List Elem) (w : W) : VS × W × Option Unit :=
  match rawReserve c v v.len src.length with
  | none => (v, w, none)
  | some v1 =>
    let (v2, w) := v1.copyFrom c (src.map some) v1.len w
    ({ v2 with len := v2.len + src.length }, w, some ())

def copySlices (c : Cfg) : List (List Elem) → VS → W → VS × W
  | [], v, w => (v, w)
  | s :: ss, v, w =>
    let w := if c.dbg && decide (v.len + s.length > capOf c v) then w.flag "extend_from_slice_copy_unchecked: debug assertion" else w
    let (v1, w) := v.copyFrom c (s.map some) v.len w
    copySlices c ss { v1 with len := v1.len + s.length } w

/-- vec.rs:1886: reserve the total, then copy slice by slice -/
def extendFromSlicesCopy (c : Cfg) (v : VS) (srcs : List (List Elem)) (w : W) : VS × W × Option Unit :=
  match rawReserve c v v.len (srcs.map List.length).sum with
  | none => (v, w, none)
  | some v1 =>
    let (v2, w) := copySlices c srcs v1 w
    (v2, w, some ())

/-- `impl io::Write for Vec<'bump, u8>` (vec.rs:2798-2815): `write` and `write_all` are
`extend_from_slice_copy(buf)`; `write` returns `Ok(buf.len())`, `flush` does nothing -/
def ioWrite (c : Cfg) (v : VS) (buf : List Elem) (w : W) : VS × W × Option Nat :=
  match extendFromSliceCopy c v buf w with
  | (v, w, some _) => (v, w, some buf.length)
  | (v, w, none) => (v, w, none)

end Bump.V
