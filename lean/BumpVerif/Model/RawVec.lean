import BumpVerif.Model.Basic
/-!
# Slot machine for `bumpalo::collections::{RawVec, Vec}` — state, primitive steps, capacity

Mirrors `src/collections/raw_vec.rs` (capacity arithmetic, `reserve_internal`,
`shrink_to_fit`, `allocate_in`) at the level the unsafe code works on: a vector is a list of
raw slots (`none` = uninitialised; stale duplicates stay exactly where `ptr::copy` leaves
them), a length and the `cap` field.  The buffer *address* is not modelled here (the arena is
model A); `realloc` is the abstract step "keep the first `min old new` slots".

Events: `drop id` — a destructor ran; `moveOut id` — the value was handed to the caller.
`W.bad` collects steps whose precondition failed (the source would execute UB); theorems say
it stays empty.
-/
namespace Bump.V
open Bump

structure Elem where
  id : Nat
  val : Nat
  deriving DecidableEq, Repr, Inhabited

inductive Ev where
  | drop (id : Nat)
  | moveOut (id : Nat)
  deriving DecidableEq, Repr

/-- Static configuration of a run: element layout, build profile, what the element type's
`Clone`/`Drop` do, the one-shot panic triggers, the arena's answer to allocation requests. -/
structure Cfg where
  esz : Nat := 16
  eal : Nat := 8
  ovf : Bool := true
  dbg : Bool := true
  /-- the element type has a destructor (`false`: plain `Copy` data) -/
  needsDrop : Bool := true
  /-- `Clone` makes a value with a fresh id (`false`: bitwise copy) -/
  freshClone : Bool := true
  clonePanicAt : Option Nat := none
  dropPanicAt : Option Nat := none
  /-- the arena serves the (re)allocation requests of this call -/
  allocOk : Bool := true
  /-- environment policy of the run: the allocator behind the arena refuses blocks above
  this many bytes (the harness allocator: 32 MiB), so such a request fails in the arena -/
  allocLimit : Nat := 2 ^ 25
  deriving Repr

/-- Effects threaded through every step. -/
structure W where
  evs : List Ev := []
  bad : List String := []
  nextId : Nat := 1
  cloneCalls : Nat := 0
  dropCalls : Nat := 0
  deriving Repr

structure VS where
  slots : List (Option Elem)
  len : Nat
  cap : Nat
  deriving Repr, DecidableEq

def W.flag (w : W) (why : String) : W := { w with bad := w.bad ++ [why] }
def W.emit (w : W) (e : Ev) : W := { w with evs := w.evs ++ [e] }
def W.moved (w : W) (e : Elem) : W := w.emit (.moveOut e.id)

/-- `RawVec::cap()` -/
def capOf (c : Cfg) (v : VS) : Nat := if c.esz = 0 then USIZE_MAX else v.cap

def padTo (n : Nat) (s : List (Option Elem)) : List (Option Elem) :=
  s ++ List.replicate (n - s.length) none

/-- Slots `[0, n)` must be inside the buffer.  A zero-sized element type has no buffer: every
index is addressable (the slot list grows on demand, a fiction that keeps identities);
otherwise touching a slot beyond the buffer is UB (flagged; the padding keeps the functions
total and uniform). -/
def VS.need (c : Cfg) (v : VS) (n : Nat) (w : W) (what : String) : VS × W :=
  ({ v with slots := padTo n v.slots }, if n ≤ v.slots.length ∨ c.esz = 0 then w else w.flag what)

/-- `ptr::read(p.add(i))` — `none` when the slot is uninitialised / outside -/
def VS.read (v : VS) (i : Nat) : Option Elem := (v.slots[i]?).join

/-- `ptr::write(p.add(i), e)` -/
def VS.write (c : Cfg) (v : VS) (i : Nat) (e : Elem) (w : W) : VS × W :=
  let (v, w) := v.need c (i + 1) w "write outside the buffer"
  ({ v with slots := v.slots.set i (some e) }, w)

/-- memmove of `n` slots inside one buffer -/
def copySlots (s : List (Option Elem)) (src dst n : Nat) : List (Option Elem) :=
  s.take dst ++ ((s.drop src).take n ++ s.drop (dst + n))

/-- `ptr::copy(p.add(src), p.add(dst), n)` -/
def VS.copy (c : Cfg) (v : VS) (src dst n : Nat) (w : W) : VS × W :=
  if n = 0 then (v, w) else
  let (v, w) := v.need c (max src dst + n) w "copy outside the buffer"
  ({ v with slots := copySlots v.slots src dst n }, w)

/-- `ptr::copy_nonoverlapping` from another buffer: `n` slots of `from` starting at `src`
land at `dst`. -/
def VS.copyFrom (c : Cfg) (v : VS) (src : List (Option Elem)) (dst : Nat) (w : W) : VS × W :=
  if src.isEmpty then (v, w) else
  let (v, w) := v.need c (dst + src.length) w "copy_nonoverlapping outside the buffer"
  ({ v with slots := v.slots.take dst ++ (src ++ v.slots.drop (dst + src.length)) }, w)

/-- a destructor call; the flag says that it panicked (one-shot trigger) -/
def dropElem (c : Cfg) (w : W) (e : Elem) : W × Bool :=
  if c.needsDrop then
    ({ w with evs := w.evs ++ [.drop e.id], dropCalls := w.dropCalls + 1 }, c.dropPanicAt == some w.dropCalls)
  else (w, false)

/-- `Clone::clone`; `none` = it panicked -/
def cloneElem (c : Cfg) (w : W) (e : Elem) : W × Option Elem :=
  if !c.freshClone then (w, some e)
  else if c.clonePanicAt == some w.cloneCalls then ({ w with cloneCalls := w.cloneCalls + 1 }, none)
  else ({ w with cloneCalls := w.cloneCalls + 1, nextId := w.nextId + 1 }, some ⟨w.nextId, e.val⟩)

/-- drop glue of a slice / of an owning value list: every element is dropped, also after one
destructor panicked (the flag reports that one did) -/
def dropAll (c : Cfg) : List Elem → W → W × Bool
  | [], w => (w, false)
  | e :: es, w =>
    let (w, p) := dropElem c w e
    let (w, q) := dropAll c es w
    (w, p || q)

/-- `for_each(drop)` over an owning iterator: stops at the first destructor panic (the rest
is leaked); returns what was not dropped -/
def dropEach (c : Cfg) : List Elem → W → W × Option (List Elem)
  | [], w => (w, none)
  | e :: es, w =>
    let (w, p) := dropElem c w e
    if p then (w, some es) else dropEach c es w

/-- the initialised elements of a slot range (an uninitialised one is a UB read) -/
def readRange (v : VS) (lo hi : Nat) (w : W) : List Elem × W :=
  let xs := (v.slots.drop lo).take (hi - lo)
  (xs.filterMap id, if xs.all Option.isSome && xs.length == hi - lo then w else w.flag "read of an uninitialised slot")

/-! ## capacity (raw_vec.rs) -/

inductive RErr where
  | capOverflow
  | allocErr
  deriving DecidableEq, Repr

/-- `amortized_new_size`: `max(cap * 2, used + extra)`; the doubling is unchecked in the
source ("cannot overflow"): under overflow checks a wrap panics, otherwise it wraps. -/
def amortizedNewCap (c : Cfg) (v : VS) (used extra : Nat) : Option Nat :=
  match checkedAdd used extra with
  | none => none
  | some req =>
    if v.cap * 2 < USIZE then some (max (v.cap * 2) req)
    else if c.ovf then none else some (max (v.cap * 2 % USIZE) req)

/-- the buffer after `realloc`/`alloc` to `newCap` slots: the first `min old new` survive -/
def resizeSlots (s : List (Option Elem)) (newCap : Nat) : List (Option Elem) :=
  s.take newCap ++ List.replicate (newCap - s.length) none

/-- `reserve_internal` (raw_vec.rs:652-695).  `Layout::array::<T>(new_cap)` is std's inherent method (it shadows the crate's
`UnstableLayoutMethods::array`): it refuses a byte size above `isize::MAX` rounded down to the alignment with
`CapacityOverflow`; what passes reaches the arena, which may refuse it (`allocOk = false`, or above `allocLimit`). -/
def reserveInternal (c : Cfg) (v : VS) (used extra : Nat) (exact : Bool) : Except RErr VS :=
  match (if exact then checkedAdd used extra else amortizedNewCap c v used extra) with
  | none => .error .capOverflow
  | some newCap =>
    match arrayLayout c.esz c.eal newCap with
    | none => .error .capOverflow
    | some bytes =>
      if !c.allocOk || decide (bytes > c.allocLimit) then .error .allocErr
      else .ok { v with cap := newCap, slots := resizeSlots v.slots newCap }

/-- `(in)fallible_reserve_internal`: the inlined capacity test, then `reserve_internal` -/
def reserveGen (c : Cfg) (v : VS) (used extra : Nat) (exact : Bool) : Except RErr VS :=
  if wsub (capOf c v) used ≥ extra then .ok v else reserveInternal c v used extra exact

/-- `RawVec::reserve(used, extra)`: `none` = panic (capacity overflow or allocation error) -/
def rawReserve (c : Cfg) (v : VS) (used extra : Nat) : Option VS :=
  match reserveGen c v used extra false with
  | .ok v => some v
  | .error _ => none

/-- `RawVec::allocate_in` via `with_capacity_in` -/
def withCapacity (c : Cfg) (n : Nat) : Option VS :=
  match checkedMul n c.esz with
  | none => none
  | some bytes =>
    if bytes = 0 then some ⟨[], 0, n⟩
    else if !validLayout bytes c.eal then none
    else if !c.allocOk || decide (bytes > c.allocLimit) then none
    else some ⟨List.replicate n none, 0, n⟩

/-- `Vec::shrink_to_fit` + `RawVec::shrink_to_fit(len)`; `none` = panic -/
def shrinkToFit (c : Cfg) (v : VS) : Option VS :=
  if capOf c v = v.len then some v
  else if c.esz = 0 then some { v with cap := v.len }
  else if v.cap < v.len then none
  else if v.len = 0 then some { v with cap := 0, slots := [] }
  else if !c.allocOk then none
  else some { v with cap := v.len, slots := resizeSlots v.slots v.len }

end Bump.V
