import BumpVerif.Model.Rs
import BumpVerif.Model.RawVec
/-!
# Primitives of the function-body translator for `src/collections/raw_vec.rs`

`RawVec<T>` methods are translated with the element type as a configuration (`c.esz = size_of::<T>()`,
`c.eal = align_of::<T>()`) and the vector model `v : V.VS` as the threaded state (`self.cap` is `v.cap`).
`reserve_internal` (the realloc through the arena and the assignment of `ptr` / `cap`) is *not* translated:
its callers reach the hand-written `V.reserveInternal`.
-/
namespace Bump.Rs

/-- `enum ReserveStrategy` -/
inductive Strategy where
  | exact
  | amortized
  deriving DecidableEq, Repr

/-- `enum Fallibility` -/
inductive Fallibility where
  | fallible
  | infallible
  deriving DecidableEq, Repr

/-- `Option::ok_or` / `Result::map_err(|_| e)` -/
def okOr {α ε : Type} : Option α → ε → Except ε α
  | some a, _ => .ok a
  | none, e => .error e

end Bump.Rs

namespace Bump.RsV
open Bump Bump.V

@[inline] def bindV {α β : Type} (x : VS × Outcome α) (f : VS → α → VS × Outcome β) : VS × Outcome β :=
  match x with
  | (v, .ok a) => f v a
  | (v, .err) => (v, .err)
  | (v, .panic) => (v, .panic)
  | (v, .bad w) => (v, .bad w)
  | (v, .envBad) => (v, .envBad)

@[inline] def pureV {α β : Type} (v : VS) (o : Outcome α) (f : VS → α → VS × Outcome β) : VS × Outcome β :=
  bindV (v, o) f

/-- `Layout::array::<T>(n)` (`Err` ↦ `none`) -/
def layoutArray (c : Cfg) (n : Nat) : Option Rs.Layout :=
  (arrayLayout c.esz c.eal n).map fun sz => ⟨sz, c.eal⟩

/-- whether the arena behind the vector serves a request of `bytes` bytes: an input of the run (`allocOk`, and the harness
allocator's limit) -/
def arena_serves (c : Cfg) (bytes : Nat) : Bool := c.allocOk && !decide (bytes > c.allocLimit)

/-- `self.a.realloc(ptr, old_layout, new_size)` / `Alloc::alloc(&mut self.a, new_layout)`: when the arena serves it, the buffer
now has `new_size / size_of::<T>()` slots, the first `min old new` carried over -/
def arena_realloc (c : Cfg) (newSize : Nat) (v : VS) : VS × Outcome (Option Unit) :=
  if arena_serves c newSize then ({ v with slots := resizeSlots v.slots (newSize / c.esz) }, .ok (some ()))
  else (v, .ok none)

/-- `Alloc::alloc(&mut a, layout)` / `a.alloc_zeroed(layout)` for a new vector: a buffer of `size / size_of::<T>()`
uninitialised slots when the arena serves the request -/
def arena_alloc_buf (c : Cfg) (size : Nat) : Option (List (Option Elem)) :=
  if arena_serves c size then some (List.replicate (size / c.esz) none) else none

/-- `self.a.dealloc(ptr, layout)`: nothing the vector model sees -/
def arena_dealloc (v : VS) : VS × Outcome Unit := (v, .ok ())

/-- `self.cap = n` -/
def set_cap (n : Nat) (v : VS) : VS × Outcome Unit := ({ v with cap := n }, .ok ())

/-- `ptr::write(self, RawVec::new_in(a))`: an unallocated vector in the same arena -/
def reset_new (v : VS) : VS × Outcome Unit := ({ v with cap := 0, slots := [] }, .ok ())

/-- `reserve_internal(used, extra, fallibility, strategy)`, hand model: an allocation error of the infallible
flavour is `handle_alloc_error` (a panic), every other error is returned -/
def reserve_internal (c : Cfg) (used extra : Nat) (f : Rs.Fallibility) (st : Rs.Strategy) (v : VS) :
    VS × Outcome (Except RErr Unit) :=
  match reserveInternal c v used extra (st == .exact) with
  | .ok v' => (v', .ok (.ok ()))
  | .error .allocErr => if f == .infallible then (v, .panic) else (v, .ok (.error .allocErr))
  | .error e => (v, .ok (.error e))

end Bump.RsV
