import BumpVerif.Model.Rs
import BumpVerif.Model.RawVec
/-!
# Primitives of the function-body translator for `src/collections/raw_vec.rs`

`RawVec<T>` methods are translated with the element type as a configuration (`c.esz = size_of::<T>()`,
`c.eal = align_of::<T>()`) and the vector model `v : V.VS` as the threaded state (`self.cap` is `v.cap`).
`reserve_internal` (the realloc through the arena and the assignment of `ptr` / `cap`) is *not* translated:
its callers reach the hand-written `V.reserveInternal`.
-/
namespace Bump.Rs

/-- `enum ReserveStrategy` -/
inductive Strategy where
  | exact
  | amortized
  deriving DecidableEq, Repr

/-- `enum Fallibility` -/
inductive Fallibility where
  | fallible
  | infallible
  deriving DecidableEq, Repr

/-- `Option::ok_or` / `Result::map_err(|_| e)` -/
def okOr {α ε : Type} : Option α → ε → Except ε α
  | some a, _ => .ok a
  | none, e => .error e

end Bump.Rs

namespace Bump.RsV
open Bump Bump.V

@[inline] def bindV {α β : Type} (x : VS × Outcome α) (f : VS → α → VS × Outcome β) : VS × Outcome β :=
  match x with
  | (v, .ok a) => f v a
  | (v, .err) => (v, .err)
  | (v, .panic) => (v, .panic)
  | (v, .bad w) => (v, .bad w)
  | (v, .envBad) => (v, .envBad)

@[inline] def pureV {α β : Type} (v : VS) (o : Outcome α) (f : VS → α → VS × Outcome β) : VS × Outcome β :=
  bindV (v, o) f

/-- `Layout::array::<T>(n)` (`Err` ↦ `none`) -/
def layoutArray (c : Cfg) (n : Nat) : Option Rs.Layout :=
  (arrayLayout c.esz c.eal n).map fun sz => ⟨sz, c.eal⟩

/-- the arena behind the vector (`self.a.realloc(..)` / `Alloc::alloc(..)`): whether it serves a request of `bytes` bytes is an
input of the run (`allocOk`, and the harness allocator's limit) -/
def arena_serves (c : Cfg) (bytes : Nat) : Option Unit :=
  if !c.allocOk || decide (bytes > c.allocLimit) then none else some ()

/-- `self.ptr = …; self.cap = n`: the buffer now has `n` slots, the first `min old n` carried over by the reallocation -/
def set_cap (n : Nat) (v : VS) : VS × Outcome Unit := ({ v with cap := n, slots := resizeSlots v.slots n }, .ok ())

/-- `reserve_internal(used, extra, fallibility, strategy)`, hand model: an allocation error of the infallible
flavour is `handle_alloc_error` (a panic), every other error is returned -/
def reserve_internal (c : Cfg) (used extra : Nat) (f : Rs.Fallibility) (st : Rs.Strategy) (v : VS) :
    VS × Outcome (Except RErr Unit) :=
  match reserveInternal c v used extra (st == .exact) with
  | .ok v' => (v', .ok (.ok ()))
  | .error .allocErr => if f == .infallible then (v, .panic) else (v, .ok (.error .allocErr))
  | .error e => (v, .ok (.error e))

end Bump.RsV
