import BumpVerif.Model.Arena
/-!
# Ghost layer: the set of live blocks

`Sys` pairs the arena state with the list of blocks handed out since the last reset and not
since deallocated or reallocated away.  The ghost list never influences the arena transitions
(`sysStep` computes the arena part with `step` alone); it only makes "live" statable.
-/
namespace Bump

structure Block where
  ptr : Nat
  size : Nat
  deriving Repr, DecidableEq

structure Sys where
  st : St
  live : List Block
  deriving Repr

/-- blocks the initialiser allocated and kept (pointer 0 = that request failed) -/
def keptBlocks : List Inner → List Nat → List Block
  | .keep sz _ :: is, p :: ps => (if p = 0 then [] else [⟨p, sz⟩]) ++ keptBlocks is ps
  | .release _ _ :: is, _ :: ps => keptBlocks is ps
  | _, _ => []

/-- how the live set changes with an operation and its result -/
def liveAfter (live : List Block) : Op → Res → List Block
  | .alloc sz _ _, .ptr p => live ++ [⟨p, sz⟩]
  | .array esz _ n _, .ptr p => live ++ [⟨p, esz * n⟩]
  | .aalloc sz _, .ptr p => live ++ [⟨p, sz⟩]
  | .atw sz _ _ inner _, .ptrIn p ps => live ++ [⟨p, sz⟩] ++ keptBlocks inner ps
  | .atw _ _ _ inner _, .ierr ps => live ++ keptBlocks inner ps
  | .tfill esz _ n _, .ptr p => live ++ [⟨p, esz * n⟩]
  | .afree p sz _, .unit => live.erase ⟨p, sz⟩
  | .agrow p osz _ nsz _ _, .ptr q => live.erase ⟨p, osz⟩ ++ [⟨q, nsz⟩]
  | .ashrink p osz _ nsz _, .ptr q => live.erase ⟨p, osz⟩ ++ [⟨q, nsz⟩]
  | .reset, .unit => []
  | _, _ => live

def sysStep (E : Nat) (op : Op) (y : Sys) : Sys × Res :=
  let r := step E op y.st
  (⟨r.1, liveAfter y.live op r.2⟩, r.2)

/-- run a history; stops at the first outcome that is not a normal result -/
def sysRun (E : Nat) : List Op → Sys → Sys × List Res
  | [], y => (y, [])
  | op :: ops, y =>
    let r := sysStep E op y
    let rest := sysRun E ops r.1
    (rest.1, r.2 :: rest.2)

end Bump
