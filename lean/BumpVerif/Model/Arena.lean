import BumpVerif.Model.Basic
/-!
# Model A: the arena state machine (`src/lib.rs`)

One function per source function, same branch structure.  The global allocator is the
environment: its answers are an input list consumed in call order.  The static empty chunk
is threaded explicitly through its address `E`.
-/
namespace Bump
open Gen

/-- A chunk, i.e. the contents of its `ChunkFooter` (lib.rs:299-321). -/
structure Chunk where
  data : Nat
  /-- `layout.size()`: usable bytes + footer -/
  size : Nat
  /-- `layout.align()` -/
  align : Nat
  /-- bump finger -/
  ptr : Nat
  /-- cumulative `allocated_bytes` -/
  ab : Nat
  deriving Repr, DecidableEq

/-- address of the footer = end of the bump region -/
def Chunk.footer (c : Chunk) : Nat := c.data + (c.size - FOOTER_SIZE)

/-- `Bump<MIN_ALIGN>`; `chunks` is the `prev`-linked list, newest first, without the static
empty chunk that terminates it. -/
structure Arena where
  M : Nat
  chunks : List Chunk
  limit : Option Nat
  deriving Repr, DecidableEq

/-- the static `EMPTY_CHUNK` at address `E` (lib.rs:336-358) -/
def emptyChunk (E : Nat) : Chunk := ⟨E, FOOTER_SIZE, FOOTER_ALIGN, E, 0⟩

/-- `self.current_chunk_footer.get().as_ref()` -/
def Arena.cur (a : Arena) (E : Nat) : Chunk := a.chunks.headD (emptyChunk E)

/-- memory effects (for the contents theorems; not part of the arena state) -/
inductive MemEff where
  | copy (src dst n : Nat)               -- `ptr::copy` (memmove)
  | copyNonoverlapping (src dst n : Nat) -- `ptr::copy_nonoverlapping`
  | zero (dst n : Nat)
  deriving Repr, DecidableEq

/-- threaded state: arena, remaining allocator answers, events so far -/
structure St where
  a : Arena
  ans : List (Option Nat)
  evs : List Ev := []
  mem : List MemEff := []
  /-- the model asked the allocator more often than the answer list provides -/
  underflow : Bool := false
  deriving Repr

/-! ## fast path (lib.rs:1888-1981) -/

/-- the `match layout.align().cmp(&MIN_ALIGN)` arithmetic; `none` = does not fit -/
def allocFast (M : Nat) (c : Chunk) (sz al : Nat) : Option Nat :=
  if al < M then
    match roundUpTo sz M with
    | none => none
    | some asz => if asz > c.ptr - c.data then none else some (wsub c.ptr asz)
  else if al = M then
    match roundUpTo sz al with
    | none => none
    | some asz => if asz > c.ptr - c.data then none else some (wsub c.ptr asz)
  else
    match roundUpTo sz al with
    | none => none
    | some asz =>
      let ap := wsub c.ptr (c.ptr % al)
      let cap := wsub ap c.data
      if ap < c.data ∨ asz > cap then none else some (wsub ap asz)

/-- the `debug_assert!`s at the top of `try_alloc_layout_fast` -/
def fastPre (M : Nat) (c : Chunk) : Bool :=
  decide (c.data ≤ c.ptr) && decide (c.ptr ≤ c.footer) && decide (c.ptr % M = 0)

/-- the `debug_assert!`s on the result -/
def fastPost (M : Nat) (c : Chunk) (al p : Nat) : Bool :=
  decide (p % al = 0) && decide (p % M = 0) && decide (c.data ≤ p) && decide (p ≤ c.ptr) && decide (p ≠ 0)

/-- store the finger of the current chunk; the static empty chunk must keep its value -/
def setCurPtr (E : Nat) (a : Arena) (p : Nat) : Option Arena :=
  match a.chunks with
  | [] => if p = E then some a else none
  | c :: cs => some { a with chunks := { c with ptr := p } :: cs }

/-- `try_alloc_layout_fast` -/
def tryFast (E : Nat) (a : Arena) (sz al : Nat) : Outcome (Option (Arena × Nat)) :=
  let c := a.cur E
  if !fastPre a.M c then .bad "fast: entry assertion" else
  if decide (al ≥ a.M) && (roundUpTo sz al).isNone then .bad "fast: round_up_to_unchecked unreachable" else
  match allocFast a.M c sz al with
  | none => .ok none
  | some p =>
    if !fastPost a.M c al p then .bad "fast: result assertion" else
    match setCurPtr E a p with
    | none => .bad "fast: finger of the static empty chunk moved"
    | some a' => .ok (some (a', p))

/-! ## chunk sizing and creation (lib.rs:829-938) -/

structure Details where
  nswf : Nat
  align : Nat
  size : Nat
  deriving Repr, DecidableEq

/-- `new_chunk_memory_details`; `.err` = `None`, `.panic` = `allocation_size_overflow()` -/
def newChunkMemoryDetails (M : Nat) (req : Option Nat) (sz al : Nat) : Outcome Details :=
  let align := max (max CHUNK_ALIGN M) al
  let n0 := req.getD DEFAULT_CHUNK_SIZE_WITHOUT_FOOTER
  match roundUpTo sz align with
  | none => .panic
  | some rs =>
    let n1 := max n0 rs
    if n1 + OVERHEAD ≥ USIZE then .bad "details: unchecked add wraps" else
    let n2? : Option Nat :=
      if n1 < TYPICAL_PAGE_SIZE then some (nextPow2 (n1 + OVERHEAD) - OVERHEAD)
      else (roundUpTo (n1 + OVERHEAD) TYPICAL_PAGE_SIZE).map (· - OVERHEAD)
    match n2? with
    | none => .err
    | some n2 =>
      if align % CHUNK_ALIGN ≠ 0 ∨ n2 % CHUNK_ALIGN ≠ 0 then .bad "details: alignment assertion" else
      match checkedAdd n2 FOOTER_SIZE with
      | none => .panic
      | some size => .ok ⟨n2, align, size⟩

/-- take the next allocator answer -/
def St.malloc (s : St) (size align : Nat) : St × Option Nat :=
  match s.ans with
  | [] => ({ s with evs := s.evs ++ [.malloc size align none], underflow := true }, none)
  | r :: rest => ({ s with ans := rest, evs := s.evs ++ [.malloc size align r] }, r)

/-- the allocator contract for an answer `addr` to a request `(size, align)` while `held`
chunks (and the static at `E`) are outstanding -/
def sumSize (cs : List Chunk) : Nat := (cs.map (·.size)).sum

def mallocOK (E : Nat) (held : List Chunk) (size align addr : Nat) : Bool :=
  decide (addr ≠ 0) && decide (addr % align = 0) && decide (addr + size ≤ 2 ^ 63) &&
  (decide (addr + size ≤ E) || decide (E + FOOTER_SIZE ≤ addr)) &&
  held.all (fun c => decide (addr + size ≤ c.data) || decide (c.data + c.size ≤ addr)) &&
  -- outstanding bytes fit the address space (a consequence of disjointness, stated rather than derived)
  decide (sumSize held + size ≤ 2 ^ 63)

/-- sequencing: propagate every non-`ok` outcome unchanged -/
@[inline] def bindO {α β : Type} (x : St × Outcome α) (f : St → α → St × Outcome β) : St × Outcome β :=
  match x with
  | (s, .ok a) => f s a
  | (s, .err) => (s, .err)
  | (s, .panic) => (s, .panic)
  | (s, .bad w) => (s, .bad w)
  | (s, .envBad) => (s, .envBad)

/-- lift a pure outcome -/
@[inline] def pureO {α β : Type} (s : St) (o : Outcome α) (f : St → α → St × Outcome β) : St × Outcome β :=
  bindO (s, o) f

/-- `new_chunk`; `.ok none` = `None` (invalid layout or refusal) -/
def newChunk (E : Nat) (held : List Chunk) (M : Nat) (d : Details) (reqSz : Nat) (prevAb : Nat) (s : St) :
    St × Outcome (Option Chunk) :=
  if !validLayout d.size d.align then (s, .ok none) else
  if d.size < reqSz then (s, .bad "new_chunk: size assertion") else
  match s.malloc d.size d.align with
  | (s, none) => (s, .ok none)
  | (s, some addr) =>
    if !mallocOK E held d.size d.align addr then (s, .envBad) else
    let footer := addr + d.nswf
    if footer % CHUNK_ALIGN ≠ 0 then (s, .bad "new_chunk: footer alignment assertion") else
    let ptr := wsub footer (footer % M)
    if ptr % M ≠ 0 ∨ ¬ addr < ptr ∨ ptr - addr ≠ d.nswf then (s, .bad "new_chunk: finger assertion") else
    if prevAb + d.nswf ≥ USIZE then (s, .bad "new_chunk: allocated_bytes wraps") else
    (s, .ok (some ⟨addr, d.size, d.align, ptr, prevAb + d.nswf⟩))

/-! ## limits (lib.rs:802-824) -/

def Arena.allocatedBytes (a : Arena) (E : Nat) : Nat := (a.cur E).ab

/-- `allocation_limit_remaining` (saturating) -/
def limitRemaining (a : Arena) (E : Nat) : Option Nat := a.limit.map (fun l => l - a.allocatedBytes E)

def fitsUnderLimit (rem : Option Nat) (d : Details) : Bool :=
  match rem with
  | none => true
  | some left => decide (left ≥ d.nswf)

/-! ## slow path (lib.rs:2006-2064) -/

/-- `bypass_min_chunk_size_for_small_limits` -/
def bypassMin (limit : Option Nat) (ab sz base : Nat) : Bool :=
  match limit with
  | some lim => decide (sz < lim) && decide (base ≥ max sz 1) && decide (lim < DEFAULT_CHUNK_SIZE_WITHOUT_FOOTER) && decide (ab = 0)
  | none => false

/-- the `iter::from_fn(..).filter_map(..).next()` pipeline; recursion on the halving
`base_size`, with fuel (65 halvings take any `usize` to 0). `.ok none` = iterator ended. -/
def slowLoop (E : Nat) (held : List Chunk) (M : Nat) (limit : Option Nat) (ab : Nat) (sz al : Nat)
    (rem : Option Nat) (minNew : Nat) : Nat → Nat → St → St × Outcome (Option Chunk)
  | 0, _, s => (s, .bad "slow: candidate loop does not terminate")
  | fuel + 1, base, s =>
    if decide (base ≥ minNew) || bypassMin limit ab sz base then
      match newChunkMemoryDetails M (some base) sz al with
      | .ok d =>
        if fitsUnderLimit rem d then
          bindO (newChunk E held M d sz ab s) fun s oc =>
            match oc with
            | some c => (s, .ok (some c))
            | none => slowLoop E held M limit ab sz al rem minNew fuel (base / 2) s
        else slowLoop E held M limit ab sz al rem minNew fuel (base / 2) s
      | .err => (s, .ok none)
      | .panic => (s, .panic)
      | .bad w => (s, .bad w)
      | .envBad => (s, .envBad)
    else (s, .ok none)

/-- `alloc_layout_slow`; `.err` = `None` -/
def allocSlow (E : Nat) (sz al : Nat) (s : St) : St × Outcome Nat :=
  let a := s.a
  let rem := limitRemaining a E
  let cur := a.cur E
  let minNew := max sz DEFAULT_CHUNK_SIZE_WITHOUT_FOOTER
  if cur.size < FOOTER_SIZE then (s, .bad "slow: unchecked sub wraps") else
  match checkedMul (cur.size - FOOTER_SIZE) 2 with
  | none => (s, .err)
  | some b2 =>
    let base := max b2 minNew
    bindO (slowLoop E a.chunks a.M a.limit (a.allocatedBytes E) sz al rem minNew 70 base s) fun s oc =>
      match oc with
      | none => (s, .err)
      | some c =>
        let a' : Arena := { s.a with chunks := c :: s.a.chunks }
        pureO { s with a := a' } (tryFast E a' sz al) fun s r =>
          match r with
          | some (a'', p) => ({ s with a := a'' }, .ok p)
          | none => (s, .bad "slow: fresh chunk cannot serve the request")

/-- `try_alloc_layout` -/
def tryAllocLayout (E : Nat) (sz al : Nat) (s : St) : St × Outcome Nat :=
  pureO s (tryFast E s.a sz al) fun s r =>
    match r with
    | some (a', p) => ({ s with a := a' }, .ok p)
    | none => allocSlow E sz al s

/-- `alloc_layout`: `unwrap_or_else(|_| oom())` -/
def allocLayout (E : Nat) (sz al : Nat) (s : St) : St × Outcome Nat :=
  match tryAllocLayout E sz al s with
  | (s, .err) => (s, .panic)
  | r => r

def allocMaybe (E : Nat) (fallible : Bool) (sz al : Nat) (s : St) : St × Outcome Nat :=
  if fallible then tryAllocLayout E sz al s else allocLayout E sz al s

/-! ## constructors, reset, drop (lib.rs:600-740, 971-1011, 386-401) -/

/-- `(try_)with_min_align_and_capacity`; `cap = 0` is also `with_min_align()` -/
def newArena (E : Nat) (M cap : Nat) (fallible : Bool) (s : St) : St × Outcome Arena :=
  if !isPow2 M || decide (M > CHUNK_ALIGN) then (s, .panic) else
  if cap = 0 then (s, .ok ⟨M, [], none⟩) else
  let fail : Outcome Arena := if fallible then .err else .panic
  if !validLayout cap M then (s, fail) else
  match newChunkMemoryDetails M none cap M with
  | .err => (s, fail)
  | .panic => (s, .panic)
  | .bad w => (s, .bad w)
  | .envBad => (s, .envBad)
  | .ok d =>
    bindO (newChunk E [] M d cap 0 s) fun s oc =>
      match oc with
      | some c => (s, .ok ⟨M, [c], none⟩)
      | none => (s, fail)

def freeEv (c : Chunk) : Ev := .free c.data c.size c.align

/-- `reset` -/
def reset (s : St) : St × Outcome Unit :=
  match s.a.chunks with
  | [] => (s, .ok ())
  | c :: rest =>
    if c.footer % s.a.M ≠ 0 then (s, .bad "reset: footer alignment assertion") else
    if c.size < FOOTER_SIZE then (s, .bad "reset: unchecked sub wraps") else
    let c' := { c with ptr := c.footer, ab := c.size - FOOTER_SIZE }
    ({ s with a := { s.a with chunks := [c'] }, evs := s.evs ++ rest.map freeEv }, .ok ())

/-- `Drop for Bump` -/
def dropArena (s : St) : St :=
  { s with a := { s.a with chunks := [] }, evs := s.evs ++ s.a.chunks.map freeEv }

/-! ## dealloc / shrink / grow (lib.rs:2221-2371) -/

def isLast (E : Nat) (a : Arena) (p : Nat) : Bool := (a.cur E).ptr == p

def storePtr (E : Nat) (s : St) (p : Nat) (why : String) : St × Outcome Unit :=
  match setCurPtr E s.a p with
  | none => (s, .bad why)
  | some a' => ({ s with a := a' }, .ok ())

/-- `dealloc` -/
def dealloc (E : Nat) (p sz : Nat) (s : St) : St × Outcome Unit :=
  if isLast E s.a p then
    if p + sz ≥ USIZE then (s, .bad "dealloc: pointer add wraps") else
    match roundUpTo (p + sz) s.a.M with
    | none => (s, .bad "dealloc: round_up_to_unchecked unreachable")
    | some r =>
      if r % s.a.M ≠ 0 then (s, .bad "dealloc: alignment assertion") else
      storePtr E s r "dealloc: finger of the static empty chunk moved"
  else (s, .ok ())

def rangesOverlap (a b n : Nat) : Bool := decide (n > 0) && decide (a < b + n) && decide (b < a + n)

/-- `copy_nonoverlapping(p, q, n)` -/
def copyNonoverlapping (p q n : Nat) (why : String) (s : St) : St × Outcome Nat :=
  if rangesOverlap p q n then (s, .bad why)
  else ({ s with mem := s.mem ++ [.copyNonoverlapping p q n] }, .ok q)

/-- `shrink` -/
def shrink (E : Nat) (p osz oal nsz nal : Nat) (s : St) : St × Outcome Nat :=
  if oal < nal then
    if p % nal = 0 then (s, .ok p) else
    bindO (tryAllocLayout E nsz nal s) fun s q =>
      copyNonoverlapping p q nsz "shrink: copy_nonoverlapping on overlapping ranges" s
  else
    if p % nal ≠ 0 then (s, .bad "shrink: alignment assertion") else
    if osz < nsz then (s, .bad "shrink: unchecked sub wraps") else
    let delta := roundDownTo (osz - nsz) (max nal s.a.M)
    if isLast E s.a p && decide (delta ≥ (osz + 1) / 2) then
      let q := (s.a.cur E).ptr + delta
      if q % s.a.M ≠ 0 then (s, .bad "shrink: finger alignment assertion") else
      bindO (storePtr E s q "shrink: finger of the static empty chunk moved") fun s _ =>
        copyNonoverlapping p q nsz "shrink: copy_nonoverlapping on overlapping ranges" s
    else (s, .ok p)

/-- the fallback of `grow`: fresh allocation + copy -/
def growFallback (E : Nat) (p osz nsz nal : Nat) (s : St) : St × Outcome Nat :=
  bindO (tryAllocLayout E nsz nal s) fun s q =>
    copyNonoverlapping p q osz "grow: copy_nonoverlapping on overlapping ranges" s

/-- `grow` -/
def grow (E : Nat) (p osz oal nsz nal : Nat) (s : St) : St × Outcome Nat :=
  match roundUpTo nsz s.a.M with
  | none => (s, .err)
  | some ns =>
    if decide (oal ≥ nal) && isLast E s.a p then
      if ns < osz then (s, .bad "grow: unchecked sub wraps") else
      let delta := ns - osz
      if !validLayout delta oal then (s, .err) else
      pureO s (tryFast E s.a delta oal) fun s r =>
        match r with
        | some (a', q) => ({ s with a := a', mem := s.mem ++ [.copy p q osz] }, .ok q)
        | none => growFallback E p osz nsz nal s
    else growFallback E p osz nsz nal s

/-! ## fallible initialisers (lib.rs:1198-1367, 1584-1620) -/

inductive Inner where
  | keep (sz al : Nat)
  | release (sz al : Nat)
  deriving Repr, DecidableEq

/-- `try_alloc_layout` as the initialiser uses it: a failure is not fatal, it yields 0 -/
def tryAllocOr0 (E : Nat) (sz al : Nat) (s : St) : St × Outcome Nat :=
  match tryAllocLayout E sz al s with
  | (s, .err) => (s, .ok 0)
  | r => r

/-- what the initialiser closure does inside the arena; returns the pointers it obtained
(0 for a failed request) -/
def runInner (E : Nat) : List Inner → St → List Nat → St × Outcome (List Nat)
  | [], s, acc => (s, .ok acc)
  | .keep sz al :: rest, s, acc =>
    bindO (tryAllocOr0 E sz al s) fun s p => runInner E rest s (acc ++ [p])
  | .release sz al :: rest, s, acc =>
    bindO (tryAllocOr0 E sz al s) fun s p =>
      if p = 0 then runInner E rest s (acc ++ [p]) else
      bindO (dealloc E p sz s) fun s _ => runInner E rest s (acc ++ [p])

/-- identity of the current footer (its address; `none` for the static) -/
def footerId (a : Arena) : Option Nat := a.chunks.head?.map (·.footer)

/-- result of a modelled API call -/
inductive Res where
  | ptr (p : Nat)
  | ptrIn (p : Nat) (inner : List Nat)
  | unit
  | err
  | ierr (inner : List Nat)
  | panic
  | bad (why : String)
  | envBad
  deriving Repr, DecidableEq

def Res.ofOutcome {α : Type} (f : α → Res) : Outcome α → Res
  | .ok a => f a
  | .err => .err
  | .panic => .panic
  | .bad w => .bad w
  | .envBad => .envBad

/-- the rewind of a failed initialiser (post-fix: a fresh chunk is rewound to its footer) -/
def rewind (E : Nat) (rewindFooter : Option Nat) (rewindPtr slot : Nat) (s : St) : St × Outcome Unit :=
  if isLast E s.a slot then
    let target := if footerId s.a == rewindFooter then rewindPtr else (s.a.cur E).footer
    storePtr E s target "rewind: finger of the static empty chunk moved"
  else (s, .ok ())

/-- `alloc_try_with` / `try_alloc_try_with` with an initialiser that performs `inner` and
returns `Ok`/`Err` -/
def allocTryWith (E : Nat) (sz al : Nat) (ok : Bool) (inner : List Inner) (fallible : Bool) (s : St) : St × Res :=
  let rewindFooter := footerId s.a
  let rewindPtr := (s.a.cur E).ptr
  let r := bindO (allocMaybe E fallible sz al s) fun s slot =>
    bindO (runInner E inner s []) fun s ps =>
      if ok then (s, .ok (Res.ptrIn slot ps)) else
      bindO (rewind E rewindFooter rewindPtr slot s) fun s _ => (s, .ok (Res.ierr ps))
  (r.1, Res.ofOutcome id r.2)

/-- `alloc_slice_try_fill_with` / `_iter`: reserve, fill, `dealloc` on the first error -/
def sliceTryFill (E : Nat) (esz eal n : Nat) (errat : Option Nat) (s : St) : St × Res :=
  match arrayLayout esz eal n with
  | none => (s, .panic)
  | some total =>
    let r := bindO (allocLayout E total eal s) fun s p =>
      match errat with
      | none => (s, .ok (Res.ptr p))
      | some i =>
        if i < n then bindO (dealloc E p total s) fun s _ => (s, .ok (Res.ierr []))
        else (s, .ok (Res.ptr p))
    (r.1, Res.ofOutcome id r.2)

/-! ## the operation alphabet -/

inductive Op where
  | alloc (sz al : Nat) (fallible : Bool)
  | array (esz eal n : Nat) (fallible : Bool)
  | atw (sz al : Nat) (ok : Bool) (inner : List Inner) (fallible : Bool)
  | tfill (esz eal n : Nat) (errat : Option Nat)
  | aalloc (sz al : Nat)
  | afree (p sz al : Nat)
  | agrow (p osz oal nsz nal : Nat) (zeroed : Bool)
  | ashrink (p osz oal nsz nal : Nat)
  | reset
  | limit (v : Option Nat)
  deriving Repr, DecidableEq

def step (E : Nat) (op : Op) (s : St) : St × Res :=
  match op with
  | .alloc sz al f => let r := allocMaybe E f sz al s; (r.1, Res.ofOutcome Res.ptr r.2)
  | .array esz eal n f =>
    match arrayLayout esz eal n with
    | none => (s, if f then .err else .panic)
    | some total => let r := allocMaybe E f total eal s; (r.1, Res.ofOutcome Res.ptr r.2)
  | .atw sz al ok inner f => allocTryWith E sz al ok inner f s
  | .tfill esz eal n errat => sliceTryFill E esz eal n errat s
  | .aalloc sz al => let r := tryAllocLayout E sz al s; (r.1, Res.ofOutcome Res.ptr r.2)
  | .afree p sz _ => let r := dealloc E p sz s; (r.1, Res.ofOutcome (fun _ => Res.unit) r.2)
  | .agrow p osz oal nsz nal z =>
    let r := bindO (grow E p osz oal nsz nal s) fun s q =>
      (if z then { s with mem := s.mem ++ [.zero (q + osz) (nsz - osz)] } else s, .ok q)
    (r.1, Res.ofOutcome Res.ptr r.2)
  | .ashrink p osz oal nsz nal => let r := shrink E p osz oal nsz nal s; (r.1, Res.ofOutcome Res.ptr r.2)
  | .reset => let r := reset s; (r.1, Res.ofOutcome (fun _ => Res.unit) r.2)
  | .limit v => ({ s with a := { s.a with limit := v } }, .unit)

/-! ## observers (lib.rs:1995-2000, 2149-2218, 2425-2438) -/

def chunkCapacity (a : Arena) (E : Nat) : Nat := (a.cur E).ptr - (a.cur E).data
def allocatedBytesIncludingMetadata (a : Arena) (E : Nat) : Nat :=
  a.allocatedBytes E + a.chunks.length * FOOTER_SIZE
/-- `iter_allocated_chunks(_raw)`: `(ptr, len)` per chunk, newest first -/
def iterChunks (a : Arena) : List (Nat × Nat) := a.chunks.map (fun c => (c.ptr, c.footer - c.ptr))

end Bump
