/-!
# Signature model, part 1: the public-API table and the auto-trait (`Send`/`Sync`) evaluator

The translator (`tools/extract_more.py`) regenerates `BumpVerif/Gen/Api.lean` from
`/repo/src/{lib.rs,boxed.rs,collections/{vec,string,raw_vec}.rs}` on every run as a value of
type `Sigs` below: the field types of the structs the property is about, every explicit
auto-trait impl (`impl Send/Sync` written by hand in the crate), every `impl Drop`, and the
receiver / lifetime shape of every public method.

`traits` is the structural rule rustc applies to auto traits, over the small type language
`Ty` (lifetimes erased, const generics dropped):

* `Cell<T>`: `Send` iff `T: Send`, never `Sync`;
* `NonNull<T>`, `*const T`, `*mut T`: neither;
* `&T`: `Send` iff `T: Sync`, `Sync` iff `T: Sync`;
* `&mut T`: `Send` iff `T: Send`, `Sync` iff `T: Sync`;
* `PhantomData<T>`, `Option<T>`, `[T]`, `MaybeUninit<T>`: as `T`; tuples: component-wise;
* primitive / std value types (`usize`, `Layout`, `Utf8Error`, `Chars` …): both;
* a struct: all of its fields, unless the crate has an explicit impl, which overrides the
  structural answer (its `where`/bound list is evaluated on the actual type arguments).

Type parameters are looked up in an environment that gives their `(Send, Sync)` pair, so
"`Box<T>: Send` iff `T: Send`" is a statement quantified over that pair.
-/
namespace Bump.Sig

/-- the type language of struct fields (lifetimes erased) -/
inductive Ty where
  | prim (name : String)
  | param (name : String)
  | cell (t : Ty)
  | nonNull (t : Ty)
  | rawPtr (t : Ty)
  | ref (t : Ty)
  | refMut (t : Ty)
  | phantom (t : Ty)
  /-- `Option<T>`, `[T]`, `[T; N]`, `MaybeUninit<T>`: structural in the one component -/
  | wrap (t : Ty)
  | tuple (a b : Ty)
  | adt (name : String) (args : List Ty)
  deriving Repr, Inhabited

inductive Trait where
  | send
  | sync
  deriving Repr, DecidableEq, Inhabited

/-- an explicit `impl<.. P: Tr ..> Send/Sync for X<..>` found in the crate -/
structure AutoImpl where
  tr : Trait
  /-- bounds of the impl: `(type parameter, trait it must satisfy)` -/
  bounds : List (String × Trait)
  deriving Repr, Inhabited

structure StructDef where
  name : String
  isPub : Bool
  /-- lifetime parameters, in order (`'bump`, `'a` …) -/
  lifetimes : List String
  /-- type parameters, in order; a projection the fields use (`I::Item`) is listed too -/
  params : List String
  fields : List (String × Ty)
  /-- lifetimes mentioned by each field's type (parallel to `fields`) -/
  fieldLts : List (String × List String)
  autoImpls : List AutoImpl
  /-- the crate has an `impl Drop for` this struct -/
  hasDrop : Bool
  deriving Repr, Inhabited

/-- receiver of a method -/
inductive Recv where
  /-- no receiver (associated function) -/
  | none
  /-- `&self` -/
  | ref
  /-- `&mut self` -/
  | refMut
  /-- `self` (or an associated function taking the owner type by value, e.g. `Box::leak(b)`) -/
  | val
  deriving Repr, DecidableEq, Inhabited

/-- shape of one public method, as far as borrows are concerned -/
structure MethodSig where
  owner : String
  name : String
  recv : Recv
  isUnsafe : Bool
  /-- some parameter has type `&'x Bump<..>` -/
  arenaArg : Bool
  /-- some other parameter is a reference (`&str`, `&[T]`, `&T`) -/
  srcArg : Bool
  /-- the return type carries the lifetime of the `&self` / `&mut self` borrow -/
  retRecv : Bool
  /-- the return type carries the arena lifetime: a lifetime parameter of the owner type
  (`'bump`, `'a`) or the lifetime of the `&'x Bump` argument -/
  retArena : Bool
  /-- the return type carries some other lifetime (a method-level generic, another argument's,
  or `'static`) -/
  retOther : Bool
  /-- the return type is (or wraps) a raw pointer / `NonNull` -/
  retRaw : Bool
  /-- the struct of the table named by the return type, after peeling `Result`/`Option`/`Pin` -/
  retAdt : Option String
  deriving Repr, Inhabited

structure Sigs where
  structs : List StructDef
  methods : List MethodSig
  deriving Repr, Inhabited

def Sigs.struct? (t : Sigs) (n : String) : Option StructDef := t.structs.find? (fun d => d.name == n)

/-- `(Send, Sync)` of the type parameters in scope -/
abbrev Env := List (String × (Bool × Bool))

def Env.get (e : Env) (n : String) : Bool × Bool := (e.lookup n).getD (false, false)

def Trait.sel : Trait → Bool × Bool → Bool
  | .send, p => p.1
  | .sync, p => p.2

/-- `(T: Send, T: Sync)` by the structural rule; `fuel` bounds the nesting depth (a lookup in
the struct table is not structurally decreasing); running out of fuel answers "neither". -/
def traits (t : Sigs) : Nat → Env → Ty → Bool × Bool
  | 0, _, _ => (false, false)
  | f + 1, env, ty =>
    match ty with
    | .prim _ => (true, true)
    | .param n => env.get n
    | .cell a => ((traits t f env a).1, false)
    | .nonNull _ => (false, false)
    | .rawPtr _ => (false, false)
    | .ref a => ((traits t f env a).2, (traits t f env a).2)
    | .refMut a => traits t f env a
    | .phantom a => traits t f env a
    | .wrap a => traits t f env a
    | .tuple a b => ((traits t f env a).1 && (traits t f env b).1, (traits t f env a).2 && (traits t f env b).2)
    | .adt n args =>
      match t.struct? n with
      | none => (false, false)
      | some d =>
        let env' : Env := d.params.zip (args.map (fun a => traits t f env a))
        let fromFields : Bool × Bool :=
          (d.fields.all (fun fld => (traits t f env' fld.2).1), d.fields.all (fun fld => (traits t f env' fld.2).2))
        let pick (tr : Trait) : Bool :=
          match d.autoImpls.find? (fun i => i.tr == tr) with
          | some i => i.bounds.all (fun b => b.2.sel (env'.get b.1))
          | none => tr.sel fromFields
        (pick .send, pick .sync)

def FUEL : Nat := 12

/-- the struct applied to its own parameters -/
def StructDef.self (d : StructDef) : Ty := .adt d.name (d.params.map .param)

/-- environment in which every parameter of `d` has the given pair -/
def StructDef.envAll (d : StructDef) (p : Bool × Bool) : Env := d.params.map (fun n => (n, p))

def isSend (t : Sigs) (env : Env) (ty : Ty) : Bool := (traits t FUEL env ty).1
def isSync (t : Sigs) (env : Env) (ty : Ty) : Bool := (traits t FUEL env ty).2

/-- `Send` of the named struct when all its type parameters are `(s, y)` -/
def structSend (t : Sigs) (n : String) (p : Bool × Bool) : Bool :=
  match t.struct? n with
  | some d => isSend t (d.envAll p) d.self
  | none => false

def structSync (t : Sigs) (n : String) (p : Bool × Bool) : Bool :=
  match t.struct? n with
  | some d => isSync t (d.envAll p) d.self
  | none => false

/-- the type mentions the arena type itself (a cycle of the table that never reaches `Bump`,
e.g. `ChunkFooter.prev`, runs out of fuel and answers "no") -/
def containsBump (t : Sigs) : Nat → Ty → Bool
  | 0, _ => false
  | f + 1, ty =>
    match ty with
    | .prim _ => false
    | .param _ => false
    | .cell a => containsBump t f a
    | .nonNull a => containsBump t f a
    | .rawPtr a => containsBump t f a
    | .ref a => containsBump t f a
    | .refMut a => containsBump t f a
    | .phantom a => containsBump t f a
    | .wrap a => containsBump t f a
    | .tuple a b => containsBump t f a || containsBump t f b
    | .adt n args =>
      n == "Bump" || args.any (fun a => containsBump t f a) ||
        (match t.struct? n with
         | some d => d.fields.any (fun fld => containsBump t f fld.2)
         | none => true)

/-- a value of the type gives *shared* access to an arena: it holds the arena behind `&`, a raw
pointer or `NonNull` (owning the arena or holding it behind `&mut` is exclusive access and is
fine to send).  Such a type being `Send` lets two threads reach one `Bump`. -/
def sharesArena (t : Sigs) : Nat → Ty → Bool
  | 0, _ => false
  | f + 1, ty =>
    match ty with
    | .prim _ => false
    | .param _ => false
    | .cell a => sharesArena t f a
    | .nonNull a => containsBump t f a
    | .rawPtr a => containsBump t f a
    | .ref a => containsBump t f a
    | .refMut a => sharesArena t f a
    | .phantom a => sharesArena t f a
    | .wrap a => sharesArena t f a
    | .tuple a b => sharesArena t f a || sharesArena t f b
    | .adt n args =>
      if n == "Bump" then false else
        args.any (fun a => sharesArena t f a) ||
          (match t.struct? n with
           | some d => d.fields.any (fun fld => sharesArena t f fld.2)
           | none => true)

/-- drop glue: the struct has a `Drop` impl or a field that has one (type parameters are
not counted: the property is about the arena loan, which only the crate's own `Drop` impls
can touch) -/
def needsDrop (t : Sigs) : Nat → Ty → Bool
  | 0, _ => true
  | f + 1, ty =>
    match ty with
    | .cell a => needsDrop t f a
    | .phantom _ => false
    | .wrap a => needsDrop t f a
    | .tuple a b => needsDrop t f a || needsDrop t f b
    | .adt n _ =>
      (match t.struct? n with
       | some d => d.hasDrop || d.fields.any (fun fld => needsDrop t f fld.2)
       | none => false)
    | _ => false

def structNeedsDrop (t : Sigs) (n : String) : Bool :=
  match t.struct? n with
  | some d => needsDrop t FUEL d.self
  | none => false

end Bump.Sig
