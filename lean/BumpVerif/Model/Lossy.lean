import BumpVerif.Model.Str
import BumpVerif.Gen.Utf8Table
/-!
# Model of the lossy UTF-8 decoder (src/collections/str/lossy.rs, string.rs `from_utf8_lossy_in`)

`Utf8LossyChunksIter::next` transcribed statement by statement: the `while i < len` loop, the
`unsafe_get`/`safe_get` helpers (`safe_get` past the end reads `0`), the width looked up in the
GENERATED table `Gen.UTF8_CHAR_WIDTH`, the second-byte `match` arms of widths 3 and 4, the
`& 192 != TAG_CONT_U8` tests, and the `error!()` macro that returns the chunk
`(valid = source[0..i_], broken = source[i_..i])` and advances `source` to `source[i..]`.
-/
namespace Bump.Str

/-- `core_str::utf8_char_width` -/
def utf8CharWidth (b : UInt8) : Nat := Gen.UTF8_CHAR_WIDTH.getD b.toNat 0

/-- `safe_get(xs, i)` -/
def safeGet (xs : Bytes) (i : Nat) : UInt8 := if i ≥ xs.length then 0 else xs.getD i 0

/-- `b & 192 != TAG_CONT_U8` -/
def notContTag (b : UInt8) : Bool := (b &&& 192) != UInt8.ofNat Gen.TAG_CONT_U8

/-- the `match (byte, safe_get(self.source, i))` of width 3 falls into the error arm -/
def bad3 (byte second : UInt8) : Bool :=
  let b := byte.toNat
  let s := second.toNat
  !((b = 0xE0 ∧ 0xA0 ≤ s ∧ s ≤ 0xBF) ∨ (0xE1 ≤ b ∧ b ≤ 0xEC ∧ 0x80 ≤ s ∧ s ≤ 0xBF)
    ∨ (b = 0xED ∧ 0x80 ≤ s ∧ s ≤ 0x9F) ∨ (0xEE ≤ b ∧ b ≤ 0xEF ∧ 0x80 ≤ s ∧ s ≤ 0xBF))

/-- the `match (byte, safe_get(self.source, i))` of width 4 falls into the error arm -/
def bad4 (byte second : UInt8) : Bool :=
  let b := byte.toNat
  let s := second.toNat
  !((b = 0xF0 ∧ 0x90 ≤ s ∧ s ≤ 0xBF) ∨ (0xF1 ≤ b ∧ b ≤ 0xF3 ∧ 0x80 ≤ s ∧ s ≤ 0xBF)
    ∨ (b = 0xF4 ∧ 0x80 ≤ s ∧ s ≤ 0x8F))

/-- outcome of one iteration of the `while` body started at `i` -/
inductive LStep where
  /-- fell through to the next iteration with this `i` -/
  | adv (i : Nat)
  /-- `error!()` with these `i_`, `i` -/
  | err (i_ i : Nat)
  deriving Repr, DecidableEq

/-- one iteration of the `while i < self.source.len()` body -/
def lossyStep (src : Bytes) (i : Nat) : LStep :=
  let i_ := i
  let byte := src.getD i 0
  let i := i + 1
  if byte.toNat < 128 then .adv i
  else
    let w := utf8CharWidth byte
    if w = 2 then
      if notContTag (safeGet src i) then .err i_ i else .adv (i + 1)
    else if w = 3 then
      if bad3 byte (safeGet src i) then .err i_ i
      else
        let i := i + 1
        if notContTag (safeGet src i) then .err i_ i else .adv (i + 1)
    else if w = 4 then
      if bad4 byte (safeGet src i) then .err i_ i
      else
        let i := i + 1
        if notContTag (safeGet src i) then .err i_ i
        else
          let i := i + 1
          if notContTag (safeGet src i) then .err i_ i else .adv (i + 1)
    else .err i_ i

/-- a chunk: `valid`, `broken`, and the source that remains -/
structure Chunk where
  valid : Bytes
  broken : Bytes
  rest : Bytes
  deriving Repr, DecidableEq

/-- the `while` loop; fuel = number of iterations still allowed (each advances `i`) -/
def lossyScan (src : Bytes) : Nat → Nat → Option Chunk
  | 0, _ => none
  | fuel + 1, i =>
    if i < src.length then
      match lossyStep src i with
      | .adv j => lossyScan src fuel j
      | .err i_ j => some ⟨src.take i_, (src.drop i_).take (j - i_), src.drop j⟩
    else some ⟨src, [], []⟩

/-- `Utf8LossyChunksIter::next` (`none` = iterator exhausted; `bad` cannot happen: fuel) -/
def lossyNext (src : Bytes) : Option Chunk :=
  if src = [] then none else lossyScan src (src.length + 1) 0

/-- U+FFFD -/
def REPLACEMENT : Bytes := [0xEF, 0xBF, 0xBD]

/-- the `for chunk in iter` loop of `from_utf8_lossy_in` -/
def lossyRest : Nat → Bytes → Bytes → Outcome Bytes
  | 0, _, _ => .bad "lossy: out of fuel"
  | fuel + 1, src, res =>
    match lossyNext src with
    | none => .ok res
    | some ch =>
      let res := pushStr res ch.valid
      let res := if ch.broken ≠ [] then pushStr res REPLACEMENT else res
      lossyRest fuel ch.rest res

/-- `String::from_utf8_lossy_in` -/
def fromUtf8Lossy (dbg : Bool) (v : Bytes) : Outcome Bytes :=
  match lossyNext v with
  | none => .ok []                                     -- `String::from_str_in("", bump)`
  | some ch =>
    if ch.valid.length = v.length then
      if dbg && ch.broken ≠ [] then .panic               -- `debug_assert!(broken.is_empty())`
      else .ok v                                         -- the input copied unchanged
    else
      let res := pushStr [] ch.valid
      let res := if ch.broken ≠ [] then pushStr res REPLACEMENT else res
      lossyRest (v.length + 1) ch.rest res

end Bump.Str
