import BumpVerif.Model.Arena
/-!
# Composite operations outside the `Op` alphabet

`alloc_slice_try_fill_with` / `_iter` whose closure itself allocates from the arena.  The plain form (closure that
does not touch the arena) is `Op.tfill`; this one is the same source function with the closure's arena traffic made
explicit, as a composition of model functions that are all in the alphabet (`allocLayout`, `runInner`, `dealloc`).
The closure is called for `i = 0, 1, …`; the model performs its arena traffic `inner` in the first call.
-/
namespace Bump

/-- `alloc_slice_try_fill_with(n, f)` where `f(0)` performs `inner` in the arena and `f(errat)` returns `Err` -/
def sliceTryFillIn (E : Nat) (esz eal n : Nat) (errat : Option Nat) (inner : List Inner) (s : St) : St × Res :=
  match arrayLayout esz eal n with
  | none => (s, .panic)
  | some total =>
    let r := bindO (allocLayout E total eal s) fun s p =>
      bindO (if n > 0 then runInner E inner s [] else (s, .ok [])) fun s ps =>
        match errat with
        | none => (s, .ok (Res.ptrIn p ps))
        | some i =>
          if i < n then bindO (dealloc E p total s) fun s _ => (s, .ok (Res.ierr ps))
          else (s, .ok (Res.ptrIn p ps))
    (r.1, Res.ofOutcome id r.2)

end Bump
