import BumpVerif.Gen.Consts
/-!
# Machine arithmetic shared by the models

64-bit target: `usize` values are naturals below `2^64`.  Operations the source performs
*checked* return `Option`; operations it performs *unchecked* are written so that a wrap is
visible (`wsub`) or are guarded by an explicit `bad` outcome in the callers.
-/
namespace Bump

def USIZE : Nat := 2 ^ 64
def USIZE_MAX : Nat := 2 ^ 64 - 1
def ISIZE_MAX : Nat := 2 ^ 63 - 1

/-- `usize::checked_add` -/
def checkedAdd (a b : Nat) : Option Nat := if a + b < USIZE then some (a + b) else none
/-- `usize::checked_mul` -/
def checkedMul (a b : Nat) : Option Nat := if a * b < USIZE then some (a * b) else none
/-- `usize::wrapping_sub` / `ptr.wrapping_sub` for operands below `2^64` -/
def wsub (a b : Nat) : Nat := (a + USIZE - b) % USIZE

/-- `n & !(d - 1)` for a power of two `d` (lib.rs `round_down_to`) -/
def roundDownTo (n d : Nat) : Nat := n / d * d
/-- lib.rs `round_up_to`: `n.checked_add(d - 1).map(|x| x & !(d - 1))` -/
def roundUpTo (n d : Nat) : Option Nat :=
  if n + (d - 1) < USIZE then some ((n + (d - 1)) / d * d) else none

/-- power of two, executable -/
def isPow2 (n : Nat) : Bool := n == 2 ^ n.log2

/-- `usize::next_power_of_two` (0 ↦ 1) -/
def nextPow2 (n : Nat) : Nat := if n ≤ 1 then 1 else 2 ^ ((n - 1).log2 + 1)

/-- `Layout::from_size_align(size, align).is_ok()`: align a power of two and the size rounded
up to it does not exceed `isize::MAX`. -/
def validLayout (size align : Nat) : Bool :=
  isPow2 align && decide (align ≤ 2 ^ 63) && decide (size + align ≤ 2 ^ 63)

/-- `Layout::array::<T>(n)` for an element of layout `(esz, eal)`: total size or error. -/
def arrayLayout (esz eal n : Nat) : Option Nat :=
  if esz ≠ 0 ∧ n > (2 ^ 63 - eal) / esz then none else some (esz * n)

/-- Outcome of a modelled call.  `bad` marks what must never happen: a debug assertion that
would fire, an unchecked operation that would wrap, `unreachable_unchecked`, a loop that
runs out of fuel, an allocator answer that violates the allocator contract. -/
inductive Outcome (α : Type) where
  | ok (a : α)
  | err
  | panic
  | bad (why : String)
  /-- the environment (global allocator) broke its contract: misaligned, null-page, wrapping
  or overlapping block.  Theorems are stated for runs in which this never occurs. -/
  | envBad
  deriving Repr, DecidableEq

def Outcome.isBad {α} : Outcome α → Bool
  | .bad _ => true
  | _ => false

/-- Events exchanged with the global allocator. -/
inductive Ev where
  | malloc (size align : Nat) (ans : Option Nat)
  | free (addr size align : Nat)
  deriving Repr, DecidableEq

end Bump
