import BumpVerif.Model.Basic
import BumpVerif.Model.Box
/-!
# Primitives of the function-body translator for `src/boxed.rs` (`tools/rs2lean_box.py`)

The state is the effect log `Bx.Fx`; a by-value `Box` is a `Bx.Frame` (see the translator for the rules).
-/
namespace Bump.RsB
open Bump Bump.Bx

@[inline] def bind {α β : Type} (x : Fx × Outcome α) (f : Fx → α → Fx × Outcome β) : Fx × Outcome β :=
  match x with
  | (s, .ok a) => f s a
  | (s, .err) => (s, .err)
  | (s, .panic) => (s, .panic)
  | (s, .bad w) => (s, .bad w)
  | (s, .envBad) => (s, .envBad)

/-- a handle still held when its scope ends: `impl Drop for Box` runs unless the handle is disarmed; a destructor
that unwinds makes the function unwind -/
def scopeEnd {β : Type} (pa : Option Nat) (f : Frame) (fx : Fx) (k : Fx → Fx × Outcome β) : Fx × Outcome β :=
  let r := f.scopeEnd pa fx
  if r.1 then (r.2, .panic) else k r.2

/-- `a.alloc(x)`: the value held by the frame is moved into the arena (no destructor runs, nothing is copied out);
the exclusive reference to it is what `Box(…)` wraps.  Running out of memory aborts and is outside this model. -/
def alloc (x : Frame) (fx : Fx) : Fx × Outcome (List Cell) := (fx, .ok x.cells)

/-- `vec.extend(iter)`: the items are moved to the end of the vector held by the frame -/
def vecExtend (v : Frame) (items : List Cell) : Frame := { v with cells := v.cells ++ items }

end Bump.RsB
