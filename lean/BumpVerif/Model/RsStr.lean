import BumpVerif.Model.Str
/-!
# Primitives of the function-body translator for `src/collections/string.rs` (`tools/rs2lean_str.py`)

State `SB = Bytes × Nat`: the byte vector's buffer and its `len`; the text is `buf.take len`.  The `Vec<u8>` steps and the
text primitives of `str` (std, not translated) are defined here in terms of the pieces `Model/Str.lean` is written with.
-/
namespace Bump.RsS
open Bump Bump.Str

abbrev SB := Bytes × Nat

/-- `self.vec.clone_from(&source.vec)`: `Vec<u8>` has no `clone_from` of its own, so this is std's default
`*self = source.clone()` — the old buffer is dropped (a no-op in an arena) and the text becomes the source's -/
def vec_clone_from (src : Bytes) (_s : SB) : SB × Outcome Unit := ((src, src.length), .ok ())

/-- the string's text: the initialised prefix of the buffer -/
def text (s : SB) : Bytes := s.1.take s.2

@[inline] def bind {α β : Type} (x : SB × Outcome α) (f : SB → α → SB × Outcome β) : SB × Outcome β :=
  match x with
  | (s, .ok a) => f s a
  | (s, .err) => (s, .err)
  | (s, .panic) => (s, .panic)
  | (s, .bad w) => (s, .bad w)
  | (s, .envBad) => (s, .envBad)

/-- a call that may unwind through a frame holding a guard: `cleanup` is the guard's destructor -/
@[inline] def bindU {α β : Type} (x : SB × Outcome α) (cleanup : SB → SB) (f : SB → α → SB × Outcome β) : SB × Outcome β :=
  match x with
  | (s, .ok a) => f s a
  | (s, .err) => (s, .err)
  | (s, .panic) => (cleanup s, .panic)
  | (s, .bad w) => (s, .bad w)
  | (s, .envBad) => (s, .envBad)

def stateOf {α : Type} (x : SB × Outcome α) : SB := x.1

/-- `vec.push(b)` -/
def push (b : UInt8) (s : SB) : SB × Outcome Unit := ((text s ++ [b], s.2 + 1), .ok ())
/-- `vec.extend_from_slice(_copy)(xs)` -/
def extend (xs : Bytes) (s : SB) : SB × Outcome Unit := ((text s ++ xs, s.2 + xs.length), .ok ())
/-- `vec.truncate(n)` (bytes have no destructors) -/
def truncate (n : Nat) (s : SB) : SB × Outcome Unit := (if n ≤ s.2 then (s.1, n) else s, .ok ())
/-- `vec.set_len(n)` -/
def set_len (n : Nat) (s : SB) : SB × Outcome Unit := ((s.1, n), .ok ())
/-- `vec.reserve(n)`: `n` more bytes are addressable after `len` (their content is whatever; zeros here) -/
def reserve (n : Nat) (s : SB) : SB × Outcome Unit := ((text s ++ List.replicate n 0, s.2), .ok ())
/-- `ptr::copy(p.add(src), p.add(dst), n)` inside the buffer -/
def copy_within (src dst n : Nat) (s : SB) : SB × Outcome Unit := ((copyWithin s.1 src dst n, s.2), .ok ())
/-- `ptr::copy(bytes.as_ptr(), p.add(dst), n)` from another slice -/
def copy_in (bytes : Bytes) (dst n : Nat) (s : SB) : SB × Outcome Unit :=
  ((s.1.take dst ++ bytes.take n ++ s.1.drop (dst + n), s.2), .ok ())
/-- `vec.split_off(at)` (`assert!(at <= len)`) -/
def split_off (at_ : Nat) (s : SB) : SB × Outcome Bytes :=
  if at_ ≤ s.2 then ((s.1, at_), .ok ((text s).drop at_)) else (s, .panic)
/-- `vec.drain(a..b)` dropped at once: the bytes `[a, b)` are removed (`assert!(a <= b); assert!(b <= len)`) -/
def vec_drain (a b : Nat) (s : SB) : SB × Outcome Unit :=
  if a ≤ b ∧ b ≤ s.2 then (((text s).take a ++ (text s).drop b, s.2 - (b - a)), .ok ()) else (s, .panic)

/-- `self.vec.splice(range, bytes)` with the `Splice` dropped at once (result level: `Str.spliceBytes`; the element-wise
`Splice` belongs to the `vec` family) -/
def vec_splice (ovf : Bool) (range : Bd × Bd) (t : Bytes) (s : SB) : SB × Outcome Unit :=
  match spliceBytes (vecDrainOvf ovf) (text s) range.1 range.2 t with
  | .ok r => ((r, r.length), .ok ())
  | _ => (s, .panic)

/-- `char::decode_utf16(units)` (std): a unit outside `D800..=DFFF` is that scalar; a trailing surrogate on its own is an error; a
leading surrogate needs a trailing one right after it, otherwise it is an error *and the unit after it is looked at again* -/
def decodeUtf16Fuel : Nat → List Nat → List (Option Char)
  | 0, _ => []
  | _, [] => []
  | f + 1, u :: us =>
    if !(isSurrogate u) then some (Char.ofNat u) :: decodeUtf16Fuel f us
    else if u ≥ 0xDC00 then none :: decodeUtf16Fuel f us
    else
      match us with
      | [] => [none]
      | u2 :: us' =>
        if !(isLow u2) then none :: decodeUtf16Fuel f us
        else some (Char.ofNat (((u - 0xD800) * 1024 + (u2 - 0xDC00)) + 0x10000)) :: decodeUtf16Fuel f us'

def decode_utf16 (units : List Nat) : List (Option Char) := decodeUtf16Fuel units.length units

/-- `self.chars().rev().next()`: the last character and its encoded length (`bad`: the text is not UTF-8) -/
def last_char (s : SB) : SB × Outcome (Option (Char × Nat)) :=
  let t := text s
  if t = [] then (s, .ok none)
  else
    match decodeHead (t.drop (lastStart t)) with
    | some (ch, n) => if lastStart t + n = t.length then (s, .ok (some (ch, n))) else (s, .bad "pop: text is not UTF-8")
    | none => (s, .bad "pop: text is not UTF-8")

/-- `self[idx..].chars().next()`: slicing panics off a char boundary -/
def char_at (idx : Nat) (s : SB) : SB × Outcome (Option (Char × Nat)) :=
  let t := text s
  if !(isCharBoundary t idx) then (s, .panic)
  else
    match decodeHead (t.drop idx) with
    | none => if idx = t.length then (s, .ok none) else (s, .bad "remove: text is not UTF-8")
    | some (ch, n) => (s, .ok (some (ch, n)))

/-- `s.get_unchecked(a..b).chars().next().unwrap()` (`bad`: not UTF-8 there, or the character runs past `b`) -/
def char_unchecked (a b : Nat) (s : SB) : SB × Outcome (Char × Nat) :=
  match decodeHead (s.1.drop a) with
  | none => (s, .bad "retain: text is not UTF-8")
  | some (ch, n) => if a + n > b then (s, .bad "retain: char runs past len") else (s, .ok (ch, n))

/-- `&self[a..b]` (panics unless both ends are char boundaries and `a <= b`) -/
def slice_check (a b : Nat) (s : SB) : SB × Outcome Unit :=
  if sliceOk (text s) a b then (s, .ok ()) else (s, .panic)

end Bump.RsS
