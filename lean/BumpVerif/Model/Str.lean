import BumpVerif.Model.Basic
import BumpVerif.Gen.Utf8Table
/-!
# Model of `bumpalo::collections::String` (src/collections/string.rs)

One text representation everywhere: a string is its byte vector, `Bytes = List UInt8`
(`List` rather than `ByteArray`: every piece of byte surgery in the source is a
`take`/`drop`/`++` identity, and core's `List` lemmas plus `omega` carry the proofs).
The capacity is not part of the model (the harness checks `capacity ≥ len` itself; growth is
`RawVec`'s business, family `vec`).  Characters are Lean `Char`s (= Rust `char`: Unicode
scalar values); `encChar` is core's `String.utf8EncodeChar`, so `encode l` is literally the
byte list of core's `List.utf8Encode l` and `Valid` is `ByteArray.IsValidUTF8` on lists.

Every method is the source's sequence of steps: the char-boundary assertion, then the byte
moves (`ptr::copy` = `copyWithin`, a memmove) and the `set_len`.  Arithmetic the source does
unchecked is explicit: `addOne` (`n + 1` in `drain` / `replace_range`, F7) wraps or panics
according to the `ovf` flag (overflow checks of the build profile), `len - next` style
subtractions that would underflow give `bad`.  Reads of text through `&str` views on bytes
that are not UTF-8 (undefined behaviour in the source) give `bad`.
-/
namespace Bump.Str

abbrev Bytes := List UInt8

/-! ## UTF-8 -/

/-- `char::encode_utf8` -/
abbrev encChar (c : Char) : Bytes := String.utf8EncodeChar c

/-- the bytes of a text -/
def encode (l : List Char) : Bytes := l.flatMap encChar

/-- well-formed UTF-8 -/
def Valid (b : Bytes) : Prop := ∃ l : List Char, b = encode l

/-- continuation byte `10xxxxxx` -/
def isCont (b : UInt8) : Bool := decide (0x80 ≤ b.toNat) && decide (b.toNat ≤ 0xBF)

/-- Unicode Table 3-7, lower bound of the second byte after lead `b0` -/
def secondLo (b0 : Nat) : Nat := if b0 = 0xE0 then 0xA0 else if b0 = 0xF0 then 0x90 else 0x80
/-- Unicode Table 3-7, upper bound of the second byte after lead `b0` -/
def secondHi (b0 : Nat) : Nat := if b0 = 0xED then 0x9F else if b0 = 0xF4 then 0x8F else 0xBF

def inRange (lo hi : Nat) (b : UInt8) : Bool := decide (lo ≤ b.toNat) && decide (b.toNat ≤ hi)

/-- Decode the scalar value at the head of `bs` exactly as Unicode Table 3-7 allows
(`Chars::next` on the remaining text): the character and its encoded length. -/
def decodeHead : Bytes → Option (Char × Nat)
  | [] => none
  | b0 :: t =>
    let x := b0.toNat
    if x < 0x80 then some (Char.ofNat x, 1)
    else if x < 0xC2 then none
    else if x < 0xE0 then
      match t with
      | b1 :: _ =>
        if isCont b1 then some (Char.ofNat ((x - 0xC0) * 64 + (b1.toNat - 0x80)), 2) else none
      | [] => none
    else if x < 0xF0 then
      match t with
      | b1 :: b2 :: _ =>
        if inRange (secondLo x) (secondHi x) b1 && isCont b2 then
          some (Char.ofNat ((x - 0xE0) * 4096 + (b1.toNat - 0x80) * 64 + (b2.toNat - 0x80)), 3)
        else none
      | _ => none
    else if x < 0xF5 then
      match t with
      | b1 :: b2 :: b3 :: _ =>
        if inRange (secondLo x) (secondHi x) b1 && isCont b2 && isCont b3 then
          some (Char.ofNat ((x - 0xF0) * 262144 + (b1.toNat - 0x80) * 4096 + (b2.toNat - 0x80) * 64
            + (b3.toNat - 0x80)), 4)
        else none
      | _ => none
    else none

/-- decode a whole byte string (fuel = its length) -/
def decodeFuel : Nat → Bytes → Option (List Char)
  | _, [] => some []
  | 0, _ :: _ => none
  | f + 1, b :: bs =>
    match decodeHead (b :: bs) with
    | none => none
    | some (c, n) => (decodeFuel f ((b :: bs).drop n)).map (c :: ·)

def decodeAll (b : Bytes) : Option (List Char) := decodeFuel b.length b

/-- `core::str::from_utf8(b).is_ok()` -/
def validate (b : Bytes) : Bool := (decodeAll b).isSome

/-- the text held by valid bytes (`[]` for invalid ones) -/
def chars (b : Bytes) : List Char := (decodeAll b).getD []

/-- `Utf8Error::valid_up_to`: length of the longest well-formed prefix made of whole scalars -/
def validUpToFuel : Nat → Bytes → Nat → Nat
  | _, [], off => off
  | 0, _ :: _, off => off
  | f + 1, b :: bs, off =>
    match decodeHead (b :: bs) with
    | none => off
    | some (_, n) => validUpToFuel f ((b :: bs).drop n) (off + n)

def validUpTo (b : Bytes) : Nat := validUpToFuel b.length b 0

/-- `str::is_char_boundary` (core): index 0, the end, or a byte that is not `10xxxxxx` -/
def isCharBoundary (b : Bytes) (i : Nat) : Bool :=
  if i = 0 then true
  else if i ≥ b.length then decide (i = b.length)
  else !(isCont (b.getD i 0))

/-! ## primitive byte moves -/

/-- `ptr::copy(p+src, p+dst, n)` inside one buffer (memmove: source read first) -/
def copyWithin (b : Bytes) (src dst n : Nat) : Bytes :=
  b.take dst ++ ((b.drop src).take n) ++ b.drop (dst + n)

/-- `n + 1` as the source writes it (`Included(&n) => n + 1`): panics when overflow checks are
compiled in, wraps to `0` otherwise (F7). -/
def addOne (ovf : Bool) (n : Nat) : Outcome Nat :=
  if n + 1 < USIZE then .ok (n + 1) else if ovf then .panic else .ok 0

/-- Is `n + 1` overflow-checked in `String::drain` / `String::replace_range` / `Vec::drain`?
Either the build profile checks all arithmetic (`ovf`) or the source uses `checked_add`
(flags regenerated from the source by tools/extract_str.py). -/
def drainOvf (ovf : Bool) : Bool := ovf || Gen.STR_DRAIN_END_CHECKED == 1
def replaceOvf (ovf : Bool) : Bool := ovf || Gen.STR_REPLACE_RANGE_END_CHECKED == 1
def vecDrainOvf (ovf : Bool) : Bool := ovf || Gen.VEC_DRAIN_END_CHECKED == 1

/-- range bounds as `RangeBounds` hands them to `drain` / `replace_range` -/
inductive Bd where
  | unbounded
  | incl (n : Nat)
  | excl (n : Nat)
  deriving Repr, DecidableEq

/-! ## methods -/

/-- `String::push` (both arms append `ch.encode_utf8`) -/
def push (s : Bytes) (c : Char) : Bytes := s ++ encChar c

/-- `String::push_str` = `vec.extend_from_slice_copy` -/
def pushStr (s t : Bytes) : Bytes := s ++ t

/-- number of trailing continuation bytes skipped by `next_code_point_reverse` (at most 3) -/
def lastStart (s : Bytes) : Nat :=
  let n := s.length
  if n ≥ 1 ∧ !(isCont (s.getD (n - 1) 0)) then n - 1
  else if n ≥ 2 ∧ !(isCont (s.getD (n - 2) 0)) then n - 2
  else if n ≥ 3 ∧ !(isCont (s.getD (n - 3) 0)) then n - 3
  else n - 4

/-- `String::pop`: `self.chars().rev().next()?`, then `set_len(len - ch.len_utf8())` -/
def pop (s : Bytes) : Outcome (Bytes × Option Char) :=
  if s = [] then .ok (s, none)
  else
    let j := lastStart s
    match decodeHead (s.drop j) with
    | some (ch, n) =>
      if j + n = s.length then .ok (s.take (s.length - n), some ch)
      else .bad "pop: text is not UTF-8"
    | none => .bad "pop: text is not UTF-8"

/-- `String::truncate` -/
def truncate (s : Bytes) (newLen : Nat) : Outcome Bytes :=
  if newLen ≤ s.length then
    if isCharBoundary s newLen then .ok (s.take newLen) else .panic
  else .ok s

/-- `String::remove`: `self[idx..].chars().next()`, `ptr::copy(next → idx, len - next)`,
`set_len(len - (next - idx))` -/
def remove (s : Bytes) (idx : Nat) : Outcome (Bytes × Char) :=
  if !(isCharBoundary s idx) then .panic            -- `self[idx..]`
  else
    match decodeHead (s.drop idx) with
    | none => if idx = s.length then .panic /- "cannot remove a char from the end" -/
              else .bad "remove: text is not UTF-8"
    | some (ch, n) =>
      let next := idx + n
      let len := s.length
      if next > len then .bad "remove: len - next underflows"
      else .ok ((copyWithin s next idx (len - next)).take (len - (next - idx)), ch)

/-- `String::insert_bytes`: reserve, shift the tail up by `amt`, copy the bytes in, `set_len` -/
def insertBytes (s : Bytes) (idx : Nat) (bytes : Bytes) : Bytes :=
  let len := s.length
  let amt := bytes.length
  let buf := s ++ List.replicate amt 0              -- reserved, uninitialised capacity
  let buf := copyWithin buf idx (idx + amt) (len - idx)
  let buf := buf.take idx ++ bytes ++ buf.drop (idx + amt)
  buf.take (len + amt)

/-- `String::insert` -/
def insert (s : Bytes) (idx : Nat) (c : Char) : Outcome Bytes :=
  if isCharBoundary s idx then .ok (insertBytes s idx (encChar c)) else .panic

/-- `String::insert_str` -/
def insertStr (s : Bytes) (idx : Nat) (t : Bytes) : Outcome Bytes :=
  if isCharBoundary s idx then .ok (insertBytes s idx t) else .panic

/-- `String::split_off`: boundary assertion, `vec.split_off(at)`; result `(self, other)` -/
def splitOff (s : Bytes) (at_ : Nat) : Outcome (Bytes × Bytes) :=
  if isCharBoundary s at_ then
    if at_ ≤ s.length then .ok (s.take at_, s.drop at_) else .panic
  else .panic

/-- `String::clear` -/
def clear (_ : Bytes) : Bytes := []

/-- State of the `retain` loop -/
structure RetainSt where
  buf : Bytes
  idx : Nat
  del : Nat
  calls : Nat
  deriving Repr, DecidableEq

/-- result of `retain`: the string afterwards, whether the closure panicked, number of calls -/
structure RetainOut where
  bytes : Bytes
  panicked : Bool
  calls : Nat
  deriving Repr, DecidableEq

/-- `String::retain`'s `while idx < len` loop.  The closure is data: `ans k` is what the
`k`-th call answers (`true` = keep), `panicAt = some k` makes the `k`-th call panic.
`guard = false` is the loop of the pinned tree: on a panic nothing else runs, there is no guard
object, `len` is not touched, the bytes moved so far stay moved (F6).  `guard = true` is the
loop with a `SetLenOnDrop` guard (std's, and proposed_fixes/F6-string-retain.diff): unwinding
runs its destructor, which sets `len = idx - del_bytes`. -/
def retainLoop (guard : Bool) (ans : Nat → Bool) (panicAt : Option Nat) (len : Nat) :
    Nat → RetainSt → Outcome RetainOut
  | 0, st => if st.idx < len then .bad "retain: out of fuel" else
      .ok ⟨if st.del > 0 then st.buf.take (len - st.del) else st.buf, false, st.calls⟩
  | fuel + 1, st =>
    if st.idx < len then
      match decodeHead (st.buf.drop st.idx) with
      | none => .bad "retain: text is not UTF-8"
      | some (_, chLen) =>
        if st.idx + chLen > len then .bad "retain: char runs past len" else
        if panicAt = some st.calls then
          .ok ⟨if guard then st.buf.take (st.idx - st.del) else st.buf, true, st.calls + 1⟩
        else if !(ans st.calls) then
          retainLoop guard ans panicAt len fuel
            { st with del := st.del + chLen, idx := st.idx + chLen, calls := st.calls + 1 }
        else if st.del > 0 then
          retainLoop guard ans panicAt len fuel
            { buf := copyWithin st.buf st.idx (st.idx - st.del) chLen, idx := st.idx + chLen,
              del := st.del, calls := st.calls + 1 }
        else
          retainLoop guard ans panicAt len fuel { st with idx := st.idx + chLen, calls := st.calls + 1 }
    else
      .ok ⟨if st.del > 0 then st.buf.take (len - st.del) else st.buf, false, st.calls⟩

/-- `String::retain`, with or without the unwind guard -/
def retainWith (guard : Bool) (s : Bytes) (ans : Nat → Bool) (panicAt : Option Nat) : Outcome RetainOut :=
  retainLoop guard ans panicAt s.length (s.length + 1) ⟨s, 0, 0, 0⟩

/-- `String::retain` as the source has it (whether the guard exists is regenerated from the
source by tools/extract_str.py) -/
def retain (s : Bytes) (ans : Nat → Bool) (panicAt : Option Nat) : Outcome RetainOut :=
  retainWith (Gen.STR_RETAIN_GUARD == 1) s ans panicAt

/-- the closure of the harness: answers from a list, `true` beyond its end -/
def ansOf (l : List Bool) (k : Nat) : Bool := l.getD k true

/-- `start`/`end` of `String::drain` and `Vec::drain` -/
def rangeStart (ovf : Bool) : Bd → Outcome Nat
  | .incl n => .ok n
  | .excl n => addOne ovf n
  | .unbounded => .ok 0

def rangeEnd (ovf : Bool) (len : Nat) : Bd → Outcome Nat
  | .incl n => addOne ovf n
  | .excl n => .ok n
  | .unbounded => .ok len

/-- `&s[start..end]` does not panic -/
def sliceOk (s : Bytes) (start end_ : Nat) : Bool :=
  decide (start ≤ end_) && isCharBoundary s start && isCharBoundary s end_

structure DrainOut where
  bytes : Bytes
  front : List Char
  back : List Char
  deriving Repr, DecidableEq

/-- `String::drain` once `start`/`end` are known: the slice `self[start..end]` (panics unless
both ends are char boundaries and `start <= end`), `take` calls of `next`, `back` calls of
`next_back`, then the `Drain` is dropped (or leaked with `mem::forget`): `Drop` removes
`start..end` through `Vec::drain`. -/
def drainCore (s : Bytes) (start end_ take back : Nat) (forget : Bool) : Outcome DrainOut :=
  if !(sliceOk s start end_) then .panic
  else
    match decodeAll ((s.drop start).take (end_ - start)) with
    | none => .bad "drain: text is not UTF-8"
    | some cs =>
      let front := cs.take take
      let rest := cs.drop take
      let backs := (rest.reverse).take back
      let bytes :=
        if forget then s
        else if start ≤ end_ ∧ end_ ≤ s.length then s.take start ++ s.drop end_ else s
      .ok ⟨bytes, front, backs⟩

/-- `String::drain(range)`; `o` = is `n + 1` overflow-checked -/
def drainWith (o : Bool) (s : Bytes) (sb eb : Bd) (take back : Nat) (forget : Bool) : Outcome DrainOut :=
  match rangeStart o sb with
  | .ok start =>
    match rangeEnd o s.length eb with
    | .ok end_ => drainCore s start end_ take back forget
    | .panic => .panic
    | _ => .bad "drain"
  | .panic => .panic
  | _ => .bad "drain"

/-- `String::drain` under the build profile `ovf` -/
def drain (ovf : Bool) (s : Bytes) (sb eb : Bd) (take back : Nat) (forget : Bool) : Outcome DrainOut :=
  drainWith (drainOvf ovf) s sb eb take back forget

/-- first `match` of `replace_range`: `assert!(self.is_char_boundary(start))` -/
def startAssert (ovf : Bool) (s : Bytes) : Bd → Outcome Unit
  | .incl n => if isCharBoundary s n then .ok () else .panic
  | .excl n =>
    match addOne ovf n with
    | .ok m => if isCharBoundary s m then .ok () else .panic
    | _ => .panic
  | .unbounded => .ok ()

/-- second `match` of `replace_range`: `assert!(self.is_char_boundary(end))` -/
def endAssert (ovf : Bool) (s : Bytes) : Bd → Outcome Unit
  | .incl n =>
    match addOne ovf n with
    | .ok m => if isCharBoundary s m then .ok () else .panic
    | _ => .panic
  | .excl n => if isCharBoundary s n then .ok () else .panic
  | .unbounded => .ok ()

/-- `Vec::<u8>::splice(range, bytes)`: `Vec::drain` recomputes `start`/`end` with its own
`n + 1`, asserts `start <= end` and `end <= len`; dropping the `Splice` leaves
`head ++ replacement ++ tail` (result level; the element-wise `Splice` is family `vec`). -/
def spliceBytes (ovf : Bool) (s : Bytes) (sb eb : Bd) (t : Bytes) : Outcome Bytes :=
  match rangeStart ovf sb with
  | .ok start =>
    match rangeEnd ovf s.length eb with
    | .ok end_ =>
      if start ≤ end_ ∧ end_ ≤ s.length then .ok (s.take start ++ t ++ s.drop end_) else .panic
    | _ => .panic
  | _ => .panic

/-- `String::replace_range`: the two boundary assertions, then `Vec::splice(range, bytes)`;
`o₁`/`o₂` = is `n + 1` overflow-checked in `replace_range` / in `Vec::drain` -/
def replaceRangeWith (o₁ o₂ : Bool) (s : Bytes) (sb eb : Bd) (t : Bytes) : Outcome Bytes :=
  match startAssert o₁ s sb with
  | .ok () =>
    match endAssert o₁ s eb with
    | .ok () => spliceBytes o₂ s sb eb t
    | _ => .panic
  | _ => .panic

/-- `String::replace_range` under the build profile `ovf` -/
def replaceRange (ovf : Bool) (s : Bytes) (sb eb : Bd) (t : Bytes) : Outcome Bytes :=
  replaceRangeWith (replaceOvf ovf) (vecDrainOvf ovf) s sb eb t

/-- `Extend<char>` -/
def extendChars (s : Bytes) (cs : List Char) : Bytes := cs.foldl push s

/-- `Extend<&str>` and friends -/
def extendStrs (s : Bytes) (ts : List Bytes) : Bytes := ts.foldl pushStr s

/-- `String::from_iter_in` -/
def fromIter (cs : List Char) : Bytes := cs.foldl push []

/-- `Clone` -/
def clone (s : Bytes) : Bytes := s

/-- `into_bump_str`: the same bytes, now owned by the arena -/
def intoBumpStr (s : Bytes) : Bytes := s

/-- `String::from_utf8`: `Ok` (same bytes) iff `str::from_utf8` accepts -/
def fromUtf8 (b : Bytes) : Outcome Bytes := if validate b then .ok b else .err

/-! ## UTF-16 -/

def isSurrogate (u : Nat) : Bool := decide (0xD800 ≤ u) && decide (u ≤ 0xDFFF)
def isHigh (u : Nat) : Bool := decide (0xD800 ≤ u) && decide (u ≤ 0xDBFF)
def isLow (u : Nat) : Bool := decide (0xDC00 ≤ u) && decide (u ≤ 0xDFFF)

/-- `char::decode_utf16` followed by the `for` loop of `from_utf16_in`: stop at the first
`Err` (a lone surrogate).  Units are naturals below `2^16`. -/
def fromUtf16Fuel : Nat → List Nat → Bytes → Outcome Bytes
  | _, [], acc => .ok acc
  | 0, _ :: _, _ => .bad "from_utf16: out of fuel"
  | f + 1, u :: us, acc =>
    if !(isSurrogate u) then fromUtf16Fuel f us (push acc (Char.ofNat u))
    else if u ≥ 0xDC00 then .err
    else
      match us with
      | [] => .err
      | u2 :: us' =>
        if !(isLow u2) then .err
        else fromUtf16Fuel f us' (push acc (Char.ofNat (((u - 0xD800) * 1024 + (u2 - 0xDC00)) + 0x10000)))

/-- `String::from_utf16_in` -/
def fromUtf16 (us : List Nat) : Outcome Bytes := fromUtf16Fuel us.length us []

end Bump.Str
