import BumpVerif.Model.Sys
/-!
# Several arenas

Two arenas side by side, each with its own state, ghost live set and its own stream of
allocator answers; the only thing they share is the address `E` of the static empty chunk.
An interleaved history tags every operation with the arena it is applied to.
-/
namespace Bump

structure Two where
  y1 : Sys
  y2 : Sys

def step2 (E : Nat) (tagged : Bool × Op) (t : Two) : Two × Res :=
  if tagged.1 then
    let r := sysStep E tagged.2 t.y2
    ({ t with y2 := r.1 }, r.2)
  else
    let r := sysStep E tagged.2 t.y1
    ({ t with y1 := r.1 }, r.2)

def run2 (E : Nat) : List (Bool × Op) → Two → Two × List (Bool × Res)
  | [], t => (t, [])
  | x :: xs, t =>
    let r := step2 E x t
    let rest := run2 E xs r.1
    (rest.1, (x.1, r.2) :: rest.2)

/-- the history of one arena inside an interleaving -/
def project (which : Bool) (ops : List (Bool × Op)) : List Op :=
  (ops.filter (fun x => x.1 == which)).map (·.2)

def projectRes (which : Bool) (rs : List (Bool × Res)) : List Res :=
  (rs.filter (fun x => x.1 == which)).map (·.2)

/-- Does the code write to the shared static when a chunk-less arena "moves" its finger?
Every finger store in lib.rs goes through `ChunkFooter::set_ptr`, which skips the static empty
chunk; the translator regenerates `Gen.STATIC_STORE_GUARDED` from the source (1 iff no other
store to a chunk's `ptr` exists and `set_ptr` has that guard). Without the guard the store
happens on every successful fast-path call of a chunk-less arena. -/
def storesToStatic (E : Nat) (a : Arena) (sz al : Nat) : Bool :=
  Gen.STATIC_STORE_GUARDED == 0 && a.chunks.isEmpty && (match tryFast E a sz al with
    | .ok (some _) => true
    | _ => false)

/-- the same question for the unguarded code (what the pinned tree did before the `fix:` commit) -/
def storesToStaticUnguarded (E : Nat) (a : Arena) (sz al : Nat) : Bool :=
  a.chunks.isEmpty && (match tryFast E a sz al with
    | .ok (some _) => true
    | _ => false)

end Bump
