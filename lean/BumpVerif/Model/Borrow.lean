import BumpVerif.Model.AutoTraits
/-!
# Signature model, part 2: straight-line client programs over one arena and a loan-liveness checker

A program is a list of statements about one arena `b` (declared first) and numbered variables:

* `call x m src`   — `[let x =] b.m(.. [&src] ..)` for a `Bump` method, or `[let x =] Owner::m(.., &b)`
  for a constructor taking `&Bump` (`Vec::new_in`, `String::from_str_in`, `Box::new_in` …);
* `derive y m x`   — `let y = x.m(..)` (or `Owner::m(x)`) for a method of a container / iterator that
  was obtained from the arena (`v.drain(..)`, `v.into_bump_slice()`, `it.next()`, `Box::leak(bx)` …);
* `use x`          — any read or write through `x`;
* `dropVar x`      — `drop(x)` / moving `x` away;
* `newSrc s`       — `let s = <owned local, e.g. std String>` used as the source of a copy;
* `moveArena`      — `let b = b;` / moving the arena into another thread or binding (it stays usable
  under its new name);
* `endArena how`   — the arena goes away: `drop(b)`, or the end of the block that declared it (the
  numbered variables mentioned after that point are declared before the block, all others inside
  it after `b`, so that they die before `b` does);
* `ret x`          — `x` is returned from the function that owns the arena.

The checker is the liveness rule of rustc's borrow checker (NLL) specialised to these programs: the
result of a call holds a loan on the arena iff the signature ties the result to the borrow
(`loanOf`); a loan is *live* at a statement iff its holder is not moved and is mentioned by a later
statement, or has drop glue (its destructor runs at the end of the enclosing scope, after every
statement of the program — except at the end of the arena's own block, where a holder that is not
mentioned afterwards is block-local and is destroyed before the arena); a statement that needs
access to the arena is rejected iff a live loan conflicts with that access.  Unwinding paths are
not modelled.  Derived values inherit the loans of the value they came from.
Second-level conflicts (using `v` while `v.drain(..)` is alive) are not about the arena and are not
modelled; the probe generator does not produce them.

Every judgement is a function of the signature table `Sigs`, so a change of a signature in the
crate changes the verdicts, and `GoodSigs` states what the rejection / acceptance theorems need.
-/
namespace Bump.Borrow
open Bump.Sig

abbrev Var := Nat

/-- method identifier: owner type and name, as in the generated table -/
structure MId where
  owner : String
  name : String
  deriving Repr, DecidableEq, Inhabited

def lookup (t : Sigs) (m : MId) : Option MethodSig :=
  t.methods.find? (fun s => s.owner == m.owner && s.name == m.name)

inductive EndHow where
  /-- `drop(b)` -/
  | dropCall
  /-- end of the block that declared `b` -/
  | scopeEnd
  deriving Repr, DecidableEq, Inhabited

inductive Stmt where
  | call (x : Option Var) (m : MId) (src : Option Var)
  | derive (y : Var) (m : MId) (x : Var)
  | use (x : Var)
  | dropVar (x : Var)
  | newSrc (s : Var)
  | moveArena
  | endArena (how : EndHow)
  | ret (x : Var)
  deriving Repr, DecidableEq, Inhabited

abbrev Program := List Stmt

inductive LoanKind where
  | shared
  | excl
  deriving Repr, DecidableEq, Inhabited

inductive Access where
  | shared
  | excl
  | moveOut
  | scopeOut
  deriving Repr, DecidableEq, Inhabited

/-- error classes of rustc the model distinguishes -/
inductive Err where
  /-- two exclusive borrows -/
  | E0499
  /-- shared vs exclusive borrow -/
  | E0502
  /-- moved / dropped while borrowed -/
  | E0505
  /-- does not live long enough -/
  | E0597
  /-- returns a value referencing a local -/
  | E0515
  /-- use of a moved value -/
  | E0382
  /-- not a program of the modelled language (unknown method, unbound or rebound variable) -/
  | illFormed
  deriving Repr, DecidableEq, Inhabited

structure Info where
  /-- loan on the arena held through this variable -/
  loan : Option LoanKind
  /-- source variable this one borrows from -/
  src : Option Var
  /-- has drop glue -/
  glue : Bool
  moved : Bool
  deriving Repr, DecidableEq, Inhabited

structure State where
  arenaAlive : Bool
  vars : List (Var × Info)
  deriving Repr, Inhabited

def State.init : State := ⟨true, []⟩

def find (vars : List (Var × Info)) (x : Var) : Option Info :=
  match vars with
  | [] => none
  | (y, i) :: rest => if y = x then some i else find rest x

def markMoved (x : Var) (vars : List (Var × Info)) : List (Var × Info) :=
  match vars with
  | [] => []
  | (y, i) :: rest => (if y = x then (y, { i with moved := true }) else (y, i)) :: markMoved x rest

/-- what the result of a call holds on the arena -/
def loanOf (s : MethodSig) : Option LoanKind :=
  match s.recv with
  | .ref => if s.retRecv then some .shared else none
  | .refMut => if s.retRecv then some .excl else none
  | .none => if s.arenaArg && s.retArena then some .shared else none
  | .val => none

/-- does the result of the method have drop glue (by the struct table) -/
def glueOf (t : Sigs) (s : MethodSig) : Bool :=
  match s.retAdt with
  | some n => structNeedsDrop t n
  | none => false


/-- the access to the arena a statement performs -/
def access (t : Sigs) : Stmt → Option Access
  | .call _ m _ =>
    match lookup t m with
    | some s =>
      (match s.recv with
       | .ref => some .shared
       | .refMut => some .excl
       | .none => if s.arenaArg then some .shared else none
       | .val => some .moveOut)
    | none => none
  | .moveArena => some .moveOut
  | .endArena .dropCall => some .moveOut
  | .endArena .scopeEnd => some .scopeOut
  | _ => none

def mentions (x : Var) : Stmt → Bool
  | .call _ _ (some s) => s == x
  | .derive _ _ v => v == x
  | .use v => v == x
  | .dropVar v => v == x
  | .ret v => v == x
  | _ => false

def usedLater (x : Var) (rest : List Stmt) : Bool := rest.any (mentions x)

/-- `g`: does a destructor at the end of the enclosing scope count as a later use -/
def Info.live (i : Info) (x : Var) (rest : List Stmt) (g : Bool) : Bool :=
  !i.moved && ((g && i.glue) || usedLater x rest)

/-- some variable holds a live loan of kind `k` on the arena -/
def liveLoan (vars : List (Var × Info)) (rest : List Stmt) (k : LoanKind) (g : Bool) : Bool :=
  vars.any (fun p => p.2.loan == some k && p.2.live p.1 rest g)

/-- some live variable borrows from the source `s` -/
def liveSrc (vars : List (Var × Info)) (rest : List Stmt) (s : Var) : Bool :=
  vars.any (fun p => p.2.src == some s && p.2.live p.1 rest true)

/-- at the end of the arena's own block a holder that is not mentioned afterwards is block-local
(declared after the arena) and dies first: its destructor does not keep the loan alive -/
def Access.glueCounts : Access → Bool
  | .scopeOut => false
  | _ => true

def arenaErr (σ : State) (rest : List Stmt) (a : Access) : Option Err :=
  if !σ.arenaAlive then some .E0382 else
  let sh := liveLoan σ.vars rest .shared a.glueCounts
  let ex := liveLoan σ.vars rest .excl a.glueCounts
  match a with
  | .shared => if ex then some .E0502 else none
  | .excl => if sh then some .E0502 else if ex then some .E0499 else none
  | .moveOut => if sh || ex then some .E0505 else none
  | .scopeOut => if sh || ex then some .E0597 else none

/-- `x` must be bound and not moved -/
def needVar (σ : State) (x : Var) : Option Err :=
  match find σ.vars x with
  | none => some .illFormed
  | some i => if i.moved then some .E0382 else none

def needFresh (σ : State) (x : Var) : Option Err :=
  match find σ.vars x with
  | none => none
  | some _ => some .illFormed

/-- well-formedness of one statement in the current state -/
def wf (t : Sigs) (σ : State) : Stmt → Option Err
  | .call x m src =>
    match lookup t m with
    | none => some .illFormed
    | some _ =>
      match (match x with | some x => needFresh σ x | none => none) with
      | some e => some e
      | none => (match src with | some s => needVar σ s | none => none)
  | .derive y m x =>
    match lookup t m with
    | none => some .illFormed
    | some _ =>
      match needFresh σ y with
      | some e => some e
      | none => if y = x then some .illFormed else needVar σ x
  | .use x => needVar σ x
  | .dropVar x => needVar σ x
  | .newSrc s => needFresh σ s
  | .moveArena => none
  | .endArena _ => none
  | .ret x => needVar σ x

/-- statement-specific loan checks that are not about access to the arena -/
def other (σ : State) (rest : List Stmt) : Stmt → Option Err
  | .dropVar x => if liveSrc σ.vars rest x then some .E0505 else none
  | .ret x =>
    match find σ.vars x with
    | some i => if i.loan.isSome || i.src.isSome then some .E0515 else none
    | none => none
  | _ => none

/-- first error of statement `s` in state `σ`, `rest` being the statements after it -/
def check (t : Sigs) (σ : State) (s : Stmt) (rest : List Stmt) : Option Err :=
  match wf t σ s with
  | some e => some e
  | none =>
    match other σ rest s with
    | some e => some e
    | none =>
      match access t s with
      | some a => arenaErr σ rest a
      | none => none

def bind (σ : State) (x : Var) (i : Info) : State := { σ with vars := (x, i) :: σ.vars }

def update (t : Sigs) (σ : State) : Stmt → State
  | .call (some x) m src =>
    match lookup t m with
    | some s => bind σ x ⟨loanOf s, if s.retOther then src else none, glueOf t s, false⟩
    | none => σ
  | .call none _ _ => σ
  | .derive y m x =>
    match lookup t m, find σ.vars x with
    | some s, some i =>
      let carries := s.retRecv || s.retArena
      let σ' : State := if s.recv == .val then { σ with vars := markMoved x σ.vars } else σ
      bind σ' y ⟨if carries then i.loan else none, if carries then i.src else none, glueOf t s, false⟩
    | _, _ => σ
  | .use _ => σ
  | .dropVar x => { σ with vars := markMoved x σ.vars }
  | .newSrc s => bind σ s ⟨none, none, true, false⟩
  | .moveArena => σ
  | .endArena _ => { σ with arenaAlive := false }
  | .ret _ => σ

/-- first error of the program from state `σ`, or `none` when it is accepted -/
def go (t : Sigs) : State → List Stmt → Option Err
  | _, [] => none
  | σ, s :: rest =>
    match check t σ s rest with
    | some e => some e
    | none => go t (update t σ s) rest

def run (t : Sigs) (p : Program) : Option Err := go t State.init p

/-- the model's verdict: the program passes the borrow rules under the signatures `t` -/
def accepts (t : Sigs) (p : Program) : Bool := (run t p).isNone

/-! ## What the theorems need of the signatures -/

/-- allocation methods of `Bump` that hand out a reference into the arena -/
def allocNames : List String :=
  ["alloc", "try_alloc", "alloc_with", "try_alloc_with", "alloc_try_with", "try_alloc_try_with",
   "alloc_slice_copy", "try_alloc_slice_copy", "alloc_slice_clone", "try_alloc_slice_clone",
   "alloc_str", "try_alloc_str", "alloc_slice_fill_with", "alloc_slice_try_fill_with",
   "try_alloc_slice_fill_with", "alloc_slice_fill_copy", "try_alloc_slice_fill_copy",
   "alloc_slice_fill_clone", "try_alloc_slice_fill_clone", "alloc_slice_fill_iter",
   "alloc_slice_try_fill_iter", "try_alloc_slice_fill_iter", "alloc_slice_fill_default",
   "try_alloc_slice_fill_default"]

/-- constructors of the arena-backed containers -/
def ctorIds : List MId :=
  [⟨"Vec", "new_in"⟩, ⟨"Vec", "with_capacity_in"⟩, ⟨"Vec", "from_iter_in"⟩,
   ⟨"String", "new_in"⟩, ⟨"String", "with_capacity_in"⟩, ⟨"String", "from_str_in"⟩,
   ⟨"String", "from_iter_in"⟩, ⟨"String", "from_utf8_lossy_in"⟩, ⟨"String", "from_utf16_in"⟩,
   ⟨"Box", "new_in"⟩, ⟨"Box", "from_iter_in"⟩,
   ⟨"RawVec", "new_in"⟩, ⟨"RawVec", "with_capacity_in"⟩]

/-- `&mut self` methods of `Bump` that invalidate or expose everything allocated so far -/
def exclNames : List String := ["reset", "iter_allocated_chunks"]

/-- `&self` methods of `Bump` whose result holds nothing -/
def plainNames : List String :=
  ["chunk_capacity", "allocated_bytes", "allocated_bytes_including_metadata", "allocation_limit",
   "set_allocation_limit"]

/-- methods of the containers whose result still carries the arena (by the arena lifetime or by
borrowing the container): `(method, receiver)` -/
def deriveIds : List (MId × Recv) :=
  [(⟨"Vec", "into_bump_slice"⟩, .val), (⟨"Vec", "into_bump_slice_mut"⟩, .val),
   (⟨"Vec", "into_boxed_slice"⟩, .val), (⟨"Vec", "into_iter"⟩, .val), (⟨"Vec", "drain"⟩, .refMut),
   (⟨"Vec", "drain_filter"⟩, .refMut), (⟨"Vec", "splice"⟩, .refMut), (⟨"Vec", "as_slice"⟩, .ref),
   (⟨"Vec", "bump"⟩, .ref), (⟨"String", "into_bump_str"⟩, .val), (⟨"String", "into_bytes"⟩, .val),
   (⟨"String", "as_str"⟩, .ref), (⟨"String", "drain"⟩, .refMut), (⟨"String", "bump"⟩, .ref),
   (⟨"Box", "leak"⟩, .val), (⟨"ChunkIter", "next"⟩, .refMut), (⟨"vec::IntoIter", "as_slice"⟩, .ref),
   (⟨"RawVec", "bump"⟩, .ref)]

/-- the public types that must carry an arena lifetime, and whether they have drop glue -/
def carriers : List (String × Bool) :=
  [("ChunkIter", false), ("ChunkRawIter", false), ("Box", true), ("Vec", true), ("String", true),
   ("RawVec", true), ("vec::IntoIter", true), ("vec::Drain", true), ("vec::Splice", true),
   ("vec::DrainFilter", true), ("string::Drain", true), ("FromUtf8Error", true)]

def goodAlloc (t : Sigs) (n : String) : Bool :=
  match lookup t ⟨"Bump", n⟩ with
  | some s => s.recv == .ref && s.retRecv && !s.retOther && !s.isUnsafe && s.retAdt == none
  | none => false

def goodCtor (t : Sigs) (m : MId) : Bool :=
  match lookup t m with
  | some s => s.recv == .none && s.arenaArg && s.retArena && !s.retOther && !s.isUnsafe && glueOf t s
  | none => false

def goodExcl (t : Sigs) (n : String) : Bool :=
  match lookup t ⟨"Bump", n⟩ with
  | some s => s.recv == .refMut && !s.isUnsafe
  | none => false

def goodPlain (t : Sigs) (n : String) : Bool :=
  match lookup t ⟨"Bump", n⟩ with
  | some s => s.recv == .ref && !s.retRecv && !s.retOther && !s.isUnsafe && s.retAdt == none
  | none => false

def goodDerive (t : Sigs) (d : MId × Recv) : Bool :=
  match lookup t d.1 with
  | some s => s.recv == d.2 && (s.retRecv || s.retArena) && !s.isUnsafe
  | none => false

def goodCarrier (t : Sigs) (c : String × Bool) : Bool :=
  match t.struct? c.1 with
  | some d => !d.lifetimes.isEmpty && d.lifetimes.all (fun l => d.fieldLts.any (fun f => f.2.contains l))
      && structNeedsDrop t c.1 == c.2
  | none => false

/-- every safe method of `Bump` that borrows `self` ties what it returns to that borrow and to
nothing else, and hands out a chunk iterator only from `&mut self` -/
def goodBumpMethod (s : MethodSig) : Bool :=
  s.owner != "Bump" || s.isUnsafe ||
    (match s.recv with
     | .ref => !s.retOther && !s.retArena && s.retAdt != some "ChunkIter" && s.retAdt != some "ChunkRawIter"
     | .refMut => !s.retOther && !s.retArena
     | .none => true
     | .val => true)

def goodSigs (t : Sigs) : Bool :=
  allocNames.all (goodAlloc t) && ctorIds.all (goodCtor t) && exclNames.all (goodExcl t)
    && plainNames.all (goodPlain t) && deriveIds.all (goodDerive t) && carriers.all (goodCarrier t)
    && t.methods.all goodBumpMethod
    && (match lookup t ⟨"Bump", "iter_allocated_chunks"⟩ with
        | some s => s.retRecv && s.retAdt == some "ChunkIter"
        | none => false)

/-- allocation methods take `&self` and return the receiver's lifetime; `reset` and
`iter_allocated_chunks` take `&mut self`; containers, `Box` and the iterators carry the arena
lifetime. -/
def GoodSigs (t : Sigs) : Prop := goodSigs t = true

instance (t : Sigs) : Decidable (GoodSigs t) := inferInstanceAs (Decidable (goodSigs t = true))

end Bump.Borrow
