import BumpVerif.Model.Arena
/-!
# Primitives of the function-body translator (`tools/rs2lean.py`)

The generated files `Gen/Fn*.lean` are the crate's function bodies, translated statement by
statement.  What the translation *assumes* is collected here: the meaning of the machine
operations and of the handful of library / pointer idioms those bodies use.  Everything else
(control flow, early returns, `?`, assertions, the order of checks) is the source's.

`usize` and raw pointers are naturals below `2^64`.
-/
namespace Bump.Rs
open Gen

/-- `core::alloc::Layout` (a value; validity is what `from_size_align` checks) -/
structure Layout where
  size : Nat
  align : Nat
  deriving Repr, DecidableEq

/-- `a & b` -/
def band (a b : Nat) : Nat := a &&& b
/-- `a | b` -/
def bor (a b : Nat) : Nat := a ||| b
/-- `!a` on a 64-bit word -/
def bnot (a : Nat) : Nat := USIZE_MAX - a
/-- `usize::wrapping_add` -/
def wadd (a b : Nat) : Nat := (a + b) % USIZE
/-- `usize::saturating_add` -/
def sadd (a b : Nat) : Nat := min (a + b) USIZE_MAX
/-- `usize::abs_diff` -/
def absDiff (a b : Nat) : Nat := if a ≤ b then b - a else a - b
/-- `usize::checked_sub` -/
def checkedSub (a b : Nat) : Option Nat := if b ≤ a then some (a - b) else none

/-- sequencing of pure partial computations -/
@[inline] def bindP {α β : Type} (x : Outcome α) (f : α → Outcome β) : Outcome β :=
  match x with
  | .ok a => f a
  | .err => .err
  | .panic => .panic
  | .bad w => .bad w
  | .envBad => .envBad

/-- `usize::next_power_of_two`: overflow panics under debug assertions and wraps to 0 in
release; either way the source's own reasoning would be wrong, so it is `bad` -/
def next_power_of_two (n : Nat) : Outcome Nat :=
  if nextPow2 n < USIZE then .ok (nextPow2 n) else .bad "next_power_of_two overflows"

/-- `Layout::from_size_align(size, align).ok()` -/
def layoutFromSizeAlign (size align : Nat) : Option Layout :=
  if validLayout size align then some ⟨size, align⟩ else none

/-- a `Result<T, AllocErr>`-returning function seen as a value (`Err` ↦ `none`) -/
def reify {α : Type} : Outcome α → Outcome (Option α)
  | .ok a => .ok (some a)
  | .err => .ok none
  | .panic => .panic
  | .bad w => .bad w
  | .envBad => .envBad

def reifyS {α : Type} (f : St → St × Outcome α) (s : St) : St × Outcome (Option α) :=
  let r := f s
  (r.1, reify r.2)

/-- `footer.ptr.set(p)` for a chunk footer `c`: the translated functions only ever store the
finger of the arena's current chunk, which is a real (non-static) chunk on this path -/
def chunk_ptr_set (_E : Nat) (c : Chunk) (p : Nat) (s : St) : St × Outcome Unit :=
  match s.a.chunks with
  | h :: rest =>
    if h.footer == c.footer then ({ s with a := { s.a with chunks := { h with ptr := p } :: rest } }, .ok ())
    else (s, .bad "store to the finger of a chunk that is not current")
  | [] => (s, .bad "store to the finger of the static empty chunk")

/-- the chunk after the one whose footer address is `f` in a `prev`-linked chain (newest first), else `dflt` -/
def prevIn (f : Nat) (dflt : Chunk) : List Chunk → Chunk
  | [] => dflt
  | h :: rest => if h.footer == f then rest.headD dflt else prevIn f dflt rest

/-- `footer.prev.get()` for a chunk footer `c` of the arena: the next older chunk, or the static empty chunk -/
def chunk_prev (E : Nat) (s : St) (c : Chunk) : Chunk := prevIn c.footer (emptyChunk E) s.a.chunks

/-- `cur.prev.replace(EMPTY_CHUNK.get())`: cut the chain behind the current chunk and hand back what was
cut off (the older chunks, newest first).  Only this use is translated: `c` must be the current chunk and the
new link the static empty chunk. -/
def chunk_prev_replace (E : Nat) (c new : Chunk) (s : St) : St × Outcome (List Chunk) :=
  match s.a.chunks with
  | h :: rest =>
    if h.footer == c.footer && new.footer == (emptyChunk E).footer then
      ({ s with a := { s.a with chunks := [h] } }, .ok rest)
    else (s, .bad "prev.replace: not the current chunk / not the static empty chunk")
  | [] => (s, .bad "prev.replace on the static empty chunk")

/-- the footer a chain pointer points at: its newest chunk, or the static empty chunk -/
def chain_head (E : Nat) (chain : List Chunk) : Chunk := chain.headD (emptyChunk E)

/-- the global allocator's `dealloc(ptr, layout)` -/
def global_dealloc (ptr : Nat) (l : Layout) (s : St) : St × Outcome Unit :=
  ({ s with evs := s.evs ++ [.free ptr l.size l.align] }, .ok ())

/-- `dealloc_chunk_list(chain)`: every chunk of the chain goes back to the global allocator with the layout it was
obtained with, newest first (the specification `reset`'s translation uses; the `while` loop itself is translated in
Gen/FnChunks.lean and proved equal to this in Props/GenFnChunks.lean) -/
def dealloc_chunk_list (chain : List Chunk) (s : St) : St × Outcome Unit :=
  ({ s with evs := s.evs ++ chain.map freeEv }, .ok ())

/-- `self.current_chunk_footer.set(c)`: `c` (whose `prev` link is the chunk that was current) becomes the current
chunk -/
def set_current_footer (c : Chunk) (s : St) : St × Outcome Unit :=
  ({ s with a := { s.a with chunks := c :: s.a.chunks } }, .ok ())

/-- `footer.allocated_bytes = n` for the current chunk -/
def chunk_ab_set (_E : Nat) (c : Chunk) (n : Nat) (s : St) : St × Outcome Unit :=
  match s.a.chunks with
  | h :: rest =>
    if h.footer == c.footer then ({ s with a := { s.a with chunks := { h with ab := n } :: rest } }, .ok ())
    else (s, .bad "store to allocated_bytes of a chunk that is not current")
  | [] => (s, .bad "store to allocated_bytes of the static empty chunk")

/-- `self.allocation_limit.set(l)` -/
def set_limit (l : Option Nat) (s : St) : St × Outcome Unit :=
  ({ s with a := { s.a with limit := l } }, .ok ())

/-- `slice[..].fill(0)` over `n` bytes at `dst` -/
def zero_fill (dst n : Nat) (s : St) : St × Outcome Unit :=
  ({ s with mem := s.mem ++ [.zero dst n] }, .ok ())

/-- the global allocator (`alloc::alloc(layout)`): the next answer of the environment; a null pointer is `0`.  An
answer that violates the allocator contract (`mallocOK`: non-null, aligned, inside the address space, disjoint from
everything the arena holds and from the static) is the environment's fault, not the crate's -/
def malloc (E : Nat) (l : Layout) (s : St) : St × Outcome Nat :=
  match s.malloc l.size l.align with
  | (s', none) => (s', .ok 0)
  | (s', some addr) => if !mallocOK E s.a.chunks l.size l.align addr then (s', .envBad) else (s', .ok addr)

/-- `Bump { current_chunk_footer: Cell::new(c), allocation_limit: Cell::new(l) }`: an arena whose chain starts at `c`
(the static empty chunk = no chunk at all) -/
def mkArena (E M : Nat) (c : Chunk) (l : Option Nat) : Arena :=
  ⟨M, if c.footer == (emptyChunk E).footer then [] else [c], l⟩

/-- `NonNull::new` -/
def nonNullNew (a : Nat) : Option Nat := if a = 0 then none else some a

/-- `ptr::copy_nonoverlapping(src, dst, n)` -/
def copy_nonoverlapping (src dst n : Nat) (s : St) : St × Outcome Unit :=
  if rangesOverlap src dst n then (s, .bad "copy_nonoverlapping on overlapping ranges")
  else ({ s with mem := s.mem ++ [.copyNonoverlapping src dst n] }, .ok ())

/-- `ptr::copy(src, dst, n)` -/
def copy (src dst n : Nat) (s : St) : St × Outcome Unit :=
  ({ s with mem := s.mem ++ [.copy src dst n] }, .ok ())

/-- `alloc_layout_slow` is not translated (its candidate iterator is a closure pipeline); callers
reach the hand-written model of it -/
def alloc_layout_slow (E _M : Nat) (l : Layout) (s : St) : St × Outcome (Option Nat) :=
  reifyS (allocSlow E l.size l.align) s

end Bump.Rs
