import BumpVerif.Gen.FnStrFwd
import BumpVerif.Props.GenFnVec
import BumpVerif.Props.C18Cap
/-!
# The capacity-related methods of `String` as translated = the model of its byte vector

`String::{reserve, reserve_exact, shrink_to_fit, capacity, len, new_in, with_capacity_in}` are one-line forwards in the source;
their translations call the *translated* functions of `Vec`, so the equalities below are the `Vec` / `RawVec` theorems carried over
— what `Props/C18Cap.lean` (reserved capacity is honoured) and C19's refusals are stated about is, by these theorems, what the
`String` methods do.
-/
namespace Bump.V
open Bump Bump.RsM

theorem gen_string_reserve (c : Cfg) (n : Nat) (v : VS) (w : W) :
    Gen.Fn.string_reserve c n (v, w) =
      match rawReserve c v v.len n with
      | some v' => ((v', w), .ok ())
      | none => ((v, w), .panic) := gen_vec_reserve c n v w

theorem gen_string_reserve_exact (c : Cfg) (n : Nat) (v : VS) (w : W) :
    Gen.Fn.string_reserve_exact c n (v, w) =
      match reserveGen c v v.len n true with
      | .ok v' => ((v', w), .ok ())
      | .error _ => ((v, w), .panic) := gen_vec_reserve_exact c n v w

theorem gen_string_shrink_to_fit (c : Cfg) (v : VS) (w : W) (hb : c.esz * v.cap < USIZE) (hlim : c.esz * v.cap ≤ c.allocLimit) :
    Gen.Fn.string_shrink_to_fit c (v, w) =
      match shrinkToFit c v with
      | some v' => ((v', w), .ok ())
      | none => ((v, w), .panic) := gen_vec_shrink_to_fit c v w hb hlim

theorem gen_string_capacity (c : Cfg) (s : VW) : Gen.Fn.string_capacity c s = .ok (capOf c s.1) := gen_vec_capacity c s
theorem gen_string_len (c : Cfg) (s : VW) : Gen.Fn.string_len c s = .ok s.1.len := gen_vec_len c s
theorem gen_string_new_in (c : Cfg) : Gen.Fn.string_new_in c = .ok newVec := gen_vec_new_in c
theorem gen_string_with_capacity_in (c : Cfg) (n : Nat) :
    Gen.Fn.string_with_capacity_in c n = match withCapacity c n with | some v => .ok v | none => .panic :=
  gen_vec_with_capacity_in c n

/-- C18 for `String::reserve`, on the translated function: a reservation that is already covered by the capacity changes nothing
(no move), and after it `capacity()` is at least `len + n` whenever it returns -/
theorem string_reserve_noop (c : Cfg) (n : Nat) (v : VS) (w : W) (hcap : v.cap < USIZE) (h : v.len + n ≤ capOf c v) :
    Gen.Fn.string_reserve c n (v, w) = ((v, w), .ok ()) := by
  rw [gen_string_reserve, C18.rawReserve_noop hcap h]

/-- C19 for `String::reserve`, on the translated function: `len + additional` above `usize::MAX` is refused (panic), whatever the
string holds -/
theorem string_reserve_overflow (c : Cfg) (n : Nat) (v : VS) (w : W) (hcap : v.cap < USIZE) (h : USIZE ≤ v.len + n) (hl : v.len ≤ capOf c v) :
    Gen.Fn.string_reserve c n (v, w) = ((v, w), .panic) := by
  rw [gen_string_reserve]
  have hlt := capOf_lt c v hcap
  have hw : wsub (capOf c v) v.len = capOf c v - v.len := wsub_of_le hl hlt
  have h1 : ¬ (wsub (capOf c v) v.len ≥ n) := by omega
  have h2 : checkedAdd v.len n = none := by unfold checkedAdd; rw [if_neg]; omega
  have : rawReserve c v v.len n = none := by
    unfold rawReserve reserveGen
    rw [if_neg h1]
    unfold reserveInternal amortizedNewCap
    simp [h2]
  rw [this]

#print axioms gen_string_reserve
#print axioms gen_string_with_capacity_in
#print axioms string_reserve_noop
#print axioms string_reserve_overflow

end Bump.V
