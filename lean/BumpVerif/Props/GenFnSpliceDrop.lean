import BumpVerif.Gen.FnSpliceDrop
import BumpVerif.Props.GenFnSplice
import BumpVerif.Proofs.VecSplice
/-!
# `impl Drop for Splice` as translated = the model's `spliceBody`

`Gen.Fn.splice_drop_body` is the source's `Splice::drop` after its first statement (`self.drain.by_ref().for_each(drop)`, which
the model performs in `spliceOp`): the `tail_len == 0` shortcut through `Extend`, `fill`, the size-hint guess with `move_tail` and
a second `fill`, the collected remainder with its exact `move_tail` and last `fill`, the two debug assertions, and the drop of the
`collected` iterator on every path that leaves the function.  The theorems equate it with the model's `spliceBody` (through
`spliceBody_eq`, `spliceAfter`, `spliceTail`) on every state satisfying the invariant `Gap` the splice theorems of C13/C15/C16
are proved under, for every source iterator — including the ones that panic or report a wrong size hint.
-/
namespace Bump.V
open Bump Bump.RsM

/-- the translator's shape of the model's result `(vector, drain, iterator, effects, finished?)` -/
def bodyView (m : VS × Drain × It × W × Bool) : VW × Nat × It × Outcome Unit :=
  ((m.1, m.2.2.2.1), m.2.1.tailStart, m.2.2.1, if m.2.2.2.2 then .ok () else .panic)

theorem Gap.tailStart_lt {c v d P gap T R} (h : Gap c v d P gap T R) : d.tailStart < USIZE := by
  have h1 := h.used_le
  have h2 := capOf_lt c v h.bufOK.capLt
  have h3 := h.tailStart
  omega

theorem Gap.len_le {c v d P gap T R} (h : Gap c v d P gap T R) : v.len ≤ d.tailStart := by
  have h1 := h.len
  have h3 := h.tailStart
  omega

theorem Gap.used {c v d P gap T R} (h : Gap c v d P gap T R) : d.tailStart + d.tailLen ≤ capOf c v := by
  have h1 := h.used_le
  have h3 := h.tailStart
  have h4 := h.tailLen
  omega

/-- the collected remainder: `collect`, the exact `move_tail`, the last `fill`, the drop of `collected` -/
theorem gen_splice_tail (c : Cfg) (hc : CfgOK c) (lb : Nat) {v : VS} {d : Drain} {P T : List Elem} {R : List (Option Elem)}
    (h : Gap c v d P [] T R) (hT : T ≠ []) (s0 : Src) (w : W) :
    Gen.Fn.splice_drop_body.after_1 c d.tailLen lb d.tailStart (.src s0) (v, w) = bodyView (spliceTail c v d (.src s0) w) := by
  unfold Gen.Fn.splice_drop_body.after_1 spliceTail collect_by_ref
  obtain ⟨j, s', ok, hrun, _, _, _, _⟩ := collectRest_src c w ((It.src s0).remaining + 1) s0 [] (by simp [It.remaining])
  simp only [hrun, List.nil_append]
  generalize s0.items.take j = acc
  cases ok with
  | false => simp [bodyView]
  | true =>
    simp only []
    have hrem : (It.owned acc).remaining = acc.length := rfl
    by_cases hpos : acc.length > 0
    · simp only [hrem, hpos, decide_true, if_true]
      rw [gen_drain_move_tail c hc d _ v w h.bufOK h.used]
      rcases h.moveTail hc hT acc.length w with ⟨hnone, _⟩ | ⟨v', gap', R', hsome, hgap', hlen'⟩
      · rw [hnone]
        simp only [bodyView, drop_it, It.dropRest]
        rfl
      · rw [hsome]
        simp only []
        rw [gen_drain_fill c _ d.tailLen _ v' w hgap'.len_le hgap'.tailStart_lt]
        rw [hgap'.fillCount, hlen']
        obtain ⟨v'', hfill, _⟩ := fill_owned (c := c) (d := { d with tailStart := d.tailStart + acc.length }) w
          acc v' P gap' hgap' hlen'
        rw [hfill]
        simp [fillView, bodyView, drop_it, It.dropRest, It.remaining, dropAll]
    · have hnil : acc = [] := List.eq_nil_of_length_eq_zero (by omega)
      subst hnil
      simp [bodyView, drop_it, It.dropRest, It.remaining, dropAll]

#print axioms gen_splice_tail

/-- a gap that `fill` has closed leaves a non-empty tail where it was -/
theorem src_hintLo (s : Src) : (It.src s).hintLo = s.hint - s.consumed := rfl

/-- **`Splice::drop` (after the drained range is exhausted) as translated is the model's `spliceBody`**: same vector, same final
`tail_start`, same iterator state, same effects, and it unwinds exactly when the model says the body panicked -/
theorem gen_splice_drop_body (c : Cfg) (hc : CfgOK c) {v : VS} {d : Drain} {P T : List Elem} {gap R : List (Option Elem)}
    (h : Gap c v d P gap T R) (s0 : Src) (w : W) :
    Gen.Fn.splice_drop_body c d.tailStart d.tailLen (.src s0) (v, w) = bodyView (spliceBody c v d (.src s0) w) := by
  rw [spliceBody_eq]
  unfold Gen.Fn.splice_drop_body
  by_cases htl : d.tailLen = 0
  · simp only [htl, beq_self_eq_true, if_true, extend_by_ref]
    rcases extendRef c v (It.src s0) w with ⟨v1, it1, w1, ok⟩
    cases ok <;> simp [bodyView]
  · have hT : T ≠ [] := by
      intro hnil; have := h.tailLen; rw [hnil] at this; exact htl (by simpa using this)
    have hbeq : (d.tailLen == 0) = false := by simp [htl]
    simp only [hbeq, htl, if_false, Bool.false_eq_true]
    rw [gen_drain_fill c d d.tailLen _ v w h.len_le h.tailStart_lt, h.fillCount]
    obtain ⟨j, v1, s1, flag, hfill, _, _, hgap1, _, _, _, hfull, _, _⟩ := fill_src (c := c) (d := d) w gap.length v s0 P gap h (Nat.le_refl _)
    rw [hfill]
    cases flag with
    | none => simp [fillView, bodyView, spliceAfter]
    | some b =>
      cases b with
      | false => simp [fillView, bodyView, spliceAfter]
      | true =>
        have hj : j = gap.length := hfull rfl
        have hg0 : gap.drop j = [] := by rw [hj]; simp
        rw [hg0] at hgap1
        simp only [fillView, Bool.not_true, Bool.false_eq_true, if_false]
        by_cases hlb : (It.src s1).hintLo > 0
        · simp only [hlb, decide_true, if_true]
          rw [gen_drain_move_tail c hc d _ v1 w hgap1.bufOK hgap1.used]
          rcases hgap1.moveTail hc hT (It.src s1).hintLo w with ⟨hnone, _⟩ | ⟨v2, gap2, R2, hsome, hgap2, hlen2⟩
          · rw [hnone]; simp [bodyView, spliceAfter]
          · rw [hsome]
            simp only []
            rw [gen_drain_fill c _ d.tailLen _ v2 w hgap2.len_le hgap2.tailStart_lt, hgap2.fillCount]
            obtain ⟨j2, v3, s3, flag2, hfill2, _, _, hgap3, _, _, _, hfull2, _, _⟩ :=
              fill_src (c := c) (d := { d with tailStart := d.tailStart + (It.src s1).hintLo }) w gap2.length v2 s1 _ gap2 hgap2 (Nat.le_refl _)
            rw [hfill2]
            cases flag2 with
            | none => simp [fillView, bodyView, spliceAfter]
            | some b2 =>
              cases b2 with
              | false => simp [fillView, bodyView, spliceAfter]
              | true =>
                have hj2 : j2 = gap2.length := hfull2 rfl
                have hg2 : gap2.drop j2 = [] := by rw [hj2]; simp
                rw [hg2] at hgap3
                simp only [fillView, Bool.not_true, Bool.false_eq_true, if_false, spliceAfter]
                exact gen_splice_tail c hc _ hgap3 hT s3 w
        · simp only [hlb, decide_false, if_false, Bool.false_eq_true, spliceAfter]
          exact gen_splice_tail c hc _ hgap1 hT s1 w

#print axioms gen_splice_drop_body

end Bump.V
