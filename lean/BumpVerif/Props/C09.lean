import BumpVerif.Proofs.Frame
/-! # C09 — fallible methods never panic; failure changes nothing -/
namespace Bump.C09
open Bump Gen

/-- `try_alloc_layout` (and every `try_alloc*` flavour built on it) returns `Ok` or `Err` for
every valid layout, every arena state and every pattern of allocator refusals: it never panics,
never trips an assertion, never wraps, and its candidate loop terminates (the model's loop runs
on fuel and `bad "…does not terminate"` is excluded here). -/
theorem try_total {E sz al} (s : St) (hE : EnvOK E) (h : ArenaWF E s.a) (hA : IsPow2 al)
    (hlay : sz + al ≤ 2 ^ 63) :
    (∃ p, (tryAllocLayout E sz al s).2 = .ok p) ∨ (tryAllocLayout E sz al s).2 = .err ∨
    (tryAllocLayout E sz al s).2 = .envBad := by
  obtain ⟨sp, hnp⟩ := tryAllocLayout_spec s hE h hA hlay
  cases ho : (tryAllocLayout E sz al s).2 with
  | ok p => exact Or.inl ⟨p, rfl⟩
  | err => exact Or.inr (Or.inl rfl)
  | panic => exact absurd ho hnp
  | bad w => exact absurd ho (sp.nobad w)
  | envBad => exact Or.inr (Or.inr rfl)

/-- On `Err` the arena is exactly as before, memory contents untouched, and the only allocator
traffic was refused requests (so the arena holds exactly the memory it held before). -/
theorem err_frame {E sz al} (s : St) (hE : EnvOK E) (h : ArenaWF E s.a) (hA : IsPow2 al)
    (hlay : sz + al ≤ 2 ^ 63) (herr : (tryAllocLayout E sz al s).2 = .err) :
    (tryAllocLayout E sz al s).1.a = s.a ∧ (tryAllocLayout E sz al s).1.mem = s.mem ∧
    ∃ refs, AllRefused refs ∧ (tryAllocLayout E sz al s).1.evs = s.evs ++ refs := by
  obtain ⟨sp, _⟩ := tryAllocLayout_spec s hE h hA hlay
  obtain ⟨ha, refs, hr, he⟩ := sp.fail (Or.inl herr)
  exact ⟨ha, sp.mem_eq, refs, hr, he⟩

/-- The infallible method panics in exactly the cases where the fallible one returns `Err`, and
otherwise does exactly the same. -/
theorem infallible_iff {E sz al} (s : St) (hE : EnvOK E) (h : ArenaWF E s.a) (hA : IsPow2 al)
    (hlay : sz + al ≤ 2 ^ 63) :
    ((allocLayout E sz al s).2 = .panic ↔ (tryAllocLayout E sz al s).2 = .err) ∧
    (allocLayout E sz al s).1 = (tryAllocLayout E sz al s).1 ∧
    (∀ p, (allocLayout E sz al s).2 = .ok p ↔ (tryAllocLayout E sz al s).2 = .ok p) := by
  obtain ⟨_, hnp⟩ := tryAllocLayout_spec s hE h hA hlay
  obtain ⟨e1, e2, e3, _⟩ := allocLayout_eq (E := E) (sz := sz) (al := al) s
  refine ⟨⟨fun hp => (e1.mp hp).resolve_right hnp, fun he => e1.mpr (Or.inl he)⟩, e2, e3⟩

/-- After a failure a later request that fits still succeeds (the state is unchanged, so whatever
the fast path could serve before it can serve now). -/
theorem still_usable_after_err {E sz al sz' al'} (s : St) (hE : EnvOK E) (h : ArenaWF E s.a) (hA : IsPow2 al)
    (hlay : sz + al ≤ 2 ^ 63) (herr : (tryAllocLayout E sz al s).2 = .err) :
    tryFast E (tryAllocLayout E sz al s).1.a sz' al' = tryFast E s.a sz' al' := by
  rw [(err_frame s hE h hA hlay herr).1]

/-- Fallible constructors never panic for a supported minimum alignment; infallible ones never
return; both leave only refused requests behind on failure. -/
theorem ctor_total {E M cap} (f : Bool) (s : St) (hM : IsPow2 M) (hMle : M ≤ 16) :
    (∀ w, (newArena E M cap f s).2 ≠ .bad w) ∧ (f = true → (newArena E M cap f s).2 ≠ .panic) ∧
    ((newArena E M cap f s).2 = .err ∨ (newArena E M cap f s).2 = .panic →
      ∃ refs, AllRefused refs ∧ (newArena E M cap f s).1.evs = s.evs ++ refs) :=
  let sp := newArena_spec (E := E) (cap := cap) f s hM hMle
  ⟨sp.nobad, sp.fallible, sp.fail⟩

/-- non-vacuity: a request the allocator refuses on every candidate size ends in `Err` -/
example : (tryAllocLayout 160 5000 1 { a := ⟨1, [⟨4096, 496, 16, 4096, 448⟩], none⟩, ans := [none, none, none] }).2 = .err := by decide
/-- the zero-sized over-aligned request under a tiny limit with a refusing allocator terminates (F9) -/
example : (tryAllocLayout 160 0 4096 { a := ⟨1, [], some 100⟩, ans := [] }).2 = .err := by decide

end Bump.C09

#print axioms Bump.C09.try_total
#print axioms Bump.C09.err_frame
#print axioms Bump.C09.infallible_iff
#print axioms Bump.C09.still_usable_after_err
#print axioms Bump.C09.ctor_total
