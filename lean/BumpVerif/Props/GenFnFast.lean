import BumpVerif.Props.GenFnFooter
import BumpVerif.Gen.FnFast
/-! # The translated fast path of `src/lib.rs` (`try_alloc_layout_fast`) equals the hand-written model -/
namespace Bump
open Rs Gen

/-- how the callers of the model's `tryFast` thread its result through the state -/
def fastResult (E sz al : Nat) (s : St) : St × Outcome (Option Nat) :=
  match tryFast E s.a sz al with
  | .ok none => (s, .ok none)
  | .ok (some (a', p)) => ({ s with a := a' }, .ok (some p))
  | .err => (s, .err)
  | .panic => (s, .panic)
  | .bad w => (s, .bad w)
  | .envBad => (s, .envBad)

theorem wsub_lt (a b : Nat) : wsub a b < USIZE := by
  unfold wsub; exact Nat.mod_lt _ (by unfold USIZE; omega)

/-- the model's result assertions, finger store and result, as threaded by its callers -/
def fastFinish (E al p : Nat) (c : Chunk) (s : St) : St × Outcome (Option Nat) :=
  if !fastPost s.a.M c al p then (s, .bad "fast: result assertion") else
  match setCurPtr E s.a p with
  | none => (s, .bad "fast: finger of the static empty chunk moved")
  | some a' => ({ s with a := a' }, .ok (some p))

theorem fastResult_eq (E sz al : Nat) (s : St) :
    fastResult E sz al s =
      if !fastPre s.a.M (s.a.cur E) then (s, .bad "fast: entry assertion") else
      if decide (al ≥ s.a.M) && (roundUpTo sz al).isNone then (s, .bad "fast: round_up_to_unchecked unreachable") else
      match allocFast s.a.M (s.a.cur E) sz al with
      | none => (s, .ok none)
      | some p => fastFinish E al p (s.a.cur E) s := by
  unfold fastResult tryFast fastFinish
  by_cases h1 : fastPre s.a.M (s.a.cur E) = true
  case neg => simp [h1]
  by_cases h2 : (decide (al ≥ s.a.M) && (roundUpTo sz al).isNone) = true
  case pos => simp [h1, h2]
  simp only [h1, h2, Bool.not_true, Bool.false_eq_true, if_false]
  cases allocFast s.a.M (s.a.cur E) sz al with
  | none => rfl
  | some p =>
    simp only []
    by_cases h3 : fastPost s.a.M (s.a.cur E) al p = true
    case neg => simp [h3]
    simp only [h3, Bool.not_true, Bool.false_eq_true, if_false]
    cases setCurPtr E s.a p <;> rfl

/-- the translated result assertions + finger store (`try_alloc_layout_fast.k_1`) -/
theorem gen_fast_finish (E sz al p : Nat) (b : Bool) (s : St)
    (hM : P2 s.a.M) (hal : P2 al) (hpU : p < USIZE) (hne : HeadNotStatic E s.a) :
    simS (Gen.Fn.try_alloc_layout_fast.k_1 E s.a.M ⟨sz, al⟩ (s.a.cur E) (s.a.cur E) (s.a.cur E).ptr (s.a.cur E).data b p s)
      (fastFinish E al p (s.a.cur E) s) := by
  simp only [Gen.Fn.try_alloc_layout_fast.k_1, fastFinish, fastPost]
  rw [gen_is_pointer_aligned_to _ _ hal hpU, gen_is_pointer_aligned_to _ _ hM hpU]
  have hs := gen_set_ptr E s.a.M p s "fast: finger of the static empty chunk moved" hne
  simp only [pureO, bindO]
  by_cases c1 : p % al = 0
  case neg => simp [c1, simS, Outcome.sim]
  by_cases c2 : p % s.a.M = 0
  case neg => simp [c1, c2, simS, Outcome.sim]
  by_cases c3 : (s.a.cur E).data ≤ p
  case neg => simp [c1, c2, c3, simS, Outcome.sim]
  by_cases c4 : p ≤ (s.a.cur E).ptr
  case neg => simp [c1, c2, c3, c4, simS, Outcome.sim]
  by_cases c5 : p = 0
  case pos => simp [c1, c2, c3, c4, c5, simS, Outcome.sim]
  have c5' : (p == 0) = false := by simp [c5]
  simp only [c1, c2, c3, c4, c5, c5', beq_self_eq_true, decide_true, Bool.and_self, if_true, Bool.not_true,
    Bool.false_eq_true, if_false, ne_eq, not_false_eq_true, Bool.not_false]
  unfold storePtr at hs
  generalize Fn.set_ptr E s.a.M (s.a.cur E) p s = g at hs
  obtain ⟨gs, go⟩ := g
  cases hsp : setCurPtr E s.a p with
  | none =>
    simp only [hsp, simS] at hs ⊢
    obtain ⟨e1, e2⟩ := hs
    cases go <;> simp_all [Outcome.sim]
  | some a' =>
    simp only [hsp, simS] at hs ⊢
    obtain ⟨e1, e2⟩ := hs
    cases go <;> simp_all [Outcome.sim]

theorem gen_try_alloc_layout_fast (E sz al : Nat) (s : St)
    (hM : P2 s.a.M) (hal : P2 al) (hsz : sz < USIZE) (hp : (s.a.cur E).ptr < USIZE)
    (hne : HeadNotStatic E s.a) :
    simS (Gen.Fn.try_alloc_layout_fast E s.a.M ⟨sz, al⟩ s) (fastResult E sz al s) := by
  have hk := fun p b hpU => gen_fast_finish E sz al p b s hM hal hpU hne
  unfold Gen.Fn.try_alloc_layout_fast
  rw [fastResult_eq]
  simp only [fastPre]
  by_cases h1 : (s.a.cur E).data ≤ (s.a.cur E).ptr
  case neg => simp [h1, simS, Outcome.sim]
  by_cases h2 : (s.a.cur E).ptr ≤ (s.a.cur E).footer
  case neg => simp [h1, h2, simS, Outcome.sim]
  rw [gen_is_pointer_aligned_to _ _ hM hp]
  by_cases h3 : (s.a.cur E).ptr % s.a.M = 0
  case neg => simp [h1, h2, h3, pureO, bindO, simS, Outcome.sim]
  simp only [h1, h2, h3, decide_true, if_true, pureO, bindO, beq_self_eq_true, Bool.and_self, Bool.not_true,
    Bool.false_eq_true, if_false]
  rcases Nat.lt_trichotomy al s.a.M with hlt | heq | hgt
  · -- Ordering::Less
    have hge : ¬ al ≥ s.a.M := by omega
    simp only [Nat.compare_eq_lt.mpr hlt, gen_round_up_to sz _ hM hsz, hge, decide_false, Bool.false_and,
      Bool.false_eq_true, if_false, allocFast, hlt, if_true]
    cases roundUpTo sz s.a.M with
    | none => exact simS_refl _
    | some x =>
      simp only []
      by_cases hx : x > (s.a.cur E).ptr - (s.a.cur E).data
      · simp only [hx, decide_true, if_true]; exact simS_refl _
      · simp only [hx, decide_false, Bool.false_eq_true, if_false]; exact hk _ _ (wsub_lt _ _)
  · -- Ordering::Equal
    have hnl : ¬ al < s.a.M := by omega
    have hge : al ≥ s.a.M := by omega
    have heq2 : (al = s.a.M) = True := by simp [heq]
    simp only [Nat.compare_eq_eq.mpr heq, gen_round_up_to_unchecked sz _ hal hsz, roundUpToUnchecked, hge, decide_true,
      Bool.true_and, allocFast, hnl, if_false, heq2, if_true]
    cases roundUpTo sz al with
    | none => simp [simS, Outcome.sim]
    | some x =>
      simp only [Option.isNone_some, Bool.false_eq_true, if_false]
      by_cases hx : x > (s.a.cur E).ptr - (s.a.cur E).data
      · simp only [hx, decide_true, if_true]; exact simS_refl _
      · simp only [hx, decide_false, Bool.false_eq_true, if_false]; exact hk _ _ (wsub_lt _ _)
  · -- Ordering::Greater
    have hnl : ¬ al < s.a.M := by omega
    have hne' : ¬ al = s.a.M := by omega
    have hge : al ≥ s.a.M := by omega
    generalize hapd : wsub (s.a.cur E).ptr ((s.a.cur E).ptr % al) = ap
    rcases hr : roundUpTo sz al with _ | x
    · simp only [Nat.compare_eq_gt.mpr hgt, gen_round_up_to_unchecked sz _ hal hsz, roundUpToUnchecked, hge, decide_true,
        Bool.true_and, allocFast, hnl, hne', if_false, gen_round_mut_ptr_down_to _ _ hal, hr, hapd, Option.isNone_none, if_true]
      simp [simS, Outcome.sim]
    · simp only [Nat.compare_eq_gt.mpr hgt, gen_round_up_to_unchecked sz _ hal hsz, roundUpToUnchecked, hge, decide_true,
        Bool.true_and, allocFast, hnl, hne', if_false, gen_round_mut_ptr_down_to _ _ hal, hr, hapd, Option.isNone_some,
        Bool.false_eq_true]
      by_cases hx : ap < (s.a.cur E).data ∨ x > wsub ap (s.a.cur E).data
      · have hb : (decide (ap < (s.a.cur E).data) || decide (x > wsub ap (s.a.cur E).data)) = true := by
          rw [← Bool.decide_or]; exact decide_eq_true hx
        simp only [hb, hx, if_true]; exact simS_refl _
      · have hb : (decide (ap < (s.a.cur E).data) || decide (x > wsub ap (s.a.cur E).data)) = false := by
          rw [← Bool.decide_or]; exact decide_eq_false hx
        simp only [hb, hx, Bool.false_eq_true, if_false]; exact hk _ _ (wsub_lt _ _)

#print axioms gen_fast_finish
#print axioms gen_try_alloc_layout_fast
end Bump
