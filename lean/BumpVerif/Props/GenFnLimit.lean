import BumpVerif.Props.GenFnBytes
import BumpVerif.Gen.FnLimit
/-! # The translated limit getters of `src/lib.rs` equal the hand-written model -/
namespace Bump
open Rs Gen

theorem gen_allocation_limit (E M : Nat) (s : St) :
    Gen.Fn.allocation_limit E M s = .ok s.a.limit := rfl

/-- `allocation_limit_remaining`: `limit.saturating_sub(allocated_bytes)`, `None` only when no limit is set -/
theorem gen_allocation_limit_remaining (E M : Nat) (s : St) :
    Gen.Fn.allocation_limit_remaining E M s = .ok (limitRemaining s.a E) := by
  unfold Gen.Fn.allocation_limit_remaining limitRemaining
  cases s.a.limit <;> simp [gen_allocated_bytes, bindP]

#print axioms gen_allocation_limit
#print axioms gen_allocation_limit_remaining
end Bump
