import BumpVerif.Props.GenFnArith
import BumpVerif.Gen.FnLimit
/-! # The translated accounting / limit getters of `src/lib.rs` equal the hand-written model -/
namespace Bump
open Rs Gen

theorem gen_allocated_bytes (E M : Nat) (s : St) :
    Gen.Fn.allocated_bytes E M s = .ok (s.a.allocatedBytes E) := rfl

theorem gen_allocation_limit (E M : Nat) (s : St) :
    Gen.Fn.allocation_limit E M s = .ok s.a.limit := rfl

/-- `allocation_limit_remaining`: `limit.saturating_sub(allocated_bytes)`, `None` only when no limit is set -/
theorem gen_allocation_limit_remaining (E M : Nat) (s : St) :
    Gen.Fn.allocation_limit_remaining E M s = .ok (limitRemaining s.a E) := by
  unfold Gen.Fn.allocation_limit_remaining limitRemaining
  cases s.a.limit <;> simp [gen_allocated_bytes, bindP]

/-- `chunk_capacity`: `ptr - data` of the current chunk (the subtraction cannot wrap when `data ≤ ptr`) -/
theorem gen_chunk_capacity (E M : Nat) (s : St) (h : (s.a.cur E).data ≤ (s.a.cur E).ptr) :
    Gen.Fn.chunk_capacity E M s = .ok (chunkCapacity s.a E) := by
  simp only [Gen.Fn.chunk_capacity, chunkCapacity, h, if_true]

#print axioms gen_allocated_bytes
#print axioms gen_allocation_limit
#print axioms gen_allocation_limit_remaining
#print axioms gen_chunk_capacity
end Bump
