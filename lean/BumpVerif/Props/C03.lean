import BumpVerif.Proofs.Ledger
import BumpVerif.Proofs.Rewind
/-! # C03 — chunks are returned to the global allocator exactly once and never early

The ledger is computed from the *event log alone* (what the global allocator saw): a successful
`malloc` adds its block, a `free` erases the block with exactly that address, size and
alignment.  The invariant says the ledger always equals the arena's chunk list (newest first).
-/
namespace Bump.C03
open Bump Gen

/-- Every allocation flavour keeps the ledger invariant; it never frees anything, and a failed
or refused request leaves the ledger unchanged. -/
theorem alloc_ledger {E sz al} (f : Bool) (s : St) (hE : EnvOK E) (h : ArenaWF E s.a) (hA : IsPow2 al)
    (hlay : sz + al ≤ 2 ^ 63) (hl : Ledger s) (hne : (allocMaybe E f sz al s).2 ≠ .envBad) :
    Ledger (allocMaybe E f sz al s).1 := by
  have sp := allocMaybe_spec f s hE h hA hlay
  unfold Ledger at *
  cases ho : (allocMaybe E f sz al s).2 with
  | ok p =>
    obtain ⟨_, _, _, _, hsh, refs, hr, hcase⟩ := sp.ok p ho
    rcases hcase with ⟨hev, hlen⟩ | ⟨c, hc, hev, _⟩
    · rw [hev, ledger_append, hl, ledger_refused _ _ hr]
      rcases hsh with ⟨_, ha, _, _⟩ | ⟨c0, cs, h0, h0', _, _⟩ | ⟨c1, hc1, _⟩
      · rw [ha]
      · rw [h0, h0']; simp [key]
      · rw [hc1] at hlen; simp at hlen
    · rw [hev, ledger_append, ledger_append, hl, ledger_refused _ _ hr, hc]
      simp [ledger, applyEv, key]
  | err =>
    obtain ⟨ha, refs, hr, hev⟩ := sp.fail (Or.inl ho)
    rw [hev, ledger_append, hl, ledger_refused _ _ hr, ha]
  | panic =>
    obtain ⟨ha, refs, hr, hev⟩ := sp.fail (Or.inr ho)
    rw [hev, ledger_append, hl, ledger_refused _ _ hr, ha]
  | bad w => exact absurd ho (sp.nobad w)
  | envBad => exact absurd ho hne

/-- `reset` gives back exactly the chunks other than the newest one, each once, each with the
layout it was requested with; afterwards the allocator still holds exactly the kept chunk. -/
theorem reset_ledger {E} (s : St) (h : ArenaWF E s.a) (hl : Ledger s) : Ledger (reset s).1 := Bump.reset_ledger s h hl

/-- dropping the arena gives back every chunk exactly once; afterwards it holds no memory -/
theorem drop_ledger (s : St) (hl : Ledger s) : ledger [] (dropArena s).evs = [] ∧ (dropArena s).a.chunks = [] :=
  Bump.drop_ledger s hl

/-- **All histories.** After any admissible history — constructors with capacity, growth over many
chunks, `reset` at any point, failed allocations, allocator refusals at any point — the allocator
ledger (computed from the event log alone) equals the arena's chunk list; so every block obtained
was either still held or freed exactly once with its own layout, and only by `reset`. -/
theorem history_ledger {E} (hE : EnvOK E) : ∀ (ops : List Op) (y : Sys), LiveInv E y → Ledger y.st → RunOKFull E ops y →
    Ledger (sysRun E ops y).1.st := by
  intro ops
  induction ops with
  | nil => intro y _ hl _; exact hl
  | cons op ops ih =>
    intro y inv hl hrun
    obtain ⟨hv, hne, hrest⟩ := hrun
    have inv' := (sysStep_live_full hE y op inv hv).2 hne
    have hl' := sysStep_ledger hE y op inv hv hl hne
    exact ih (sysStep E op y).1 inv' hl' hrest

/-- the static empty chunk is never given to the allocator: every `free` names a held chunk,
and held chunks are disjoint from the static -/
theorem never_frees_static {E} (s : St) (h : ArenaWF E s.a) :
    ∀ e ∈ (s.a.chunks.map freeEv), ∀ sz al, e ≠ .free E sz al := by
  intro e he sz al heq
  obtain ⟨c, hc, hce⟩ := List.mem_map.mp he
  subst hce
  simp only [freeEv, Ev.free.injEq] at heq
  have := h.sdisj c hc
  have hs := (h.chunks c hc).size_ge
  unfold Disj at this
  have := FS
  omega

/-- `dealloc` (and hence `shrink`'s in-place path and rewinds) never talks to the allocator -/
theorem dealloc_silent {E p sz} (s : St) (hE : EnvOK E) (h : ArenaWF E s.a)
    (hblk : (s.a.cur E).ptr = p → p + sz ≤ (s.a.cur E).footer) : (dealloc E p sz s).1.evs = s.evs :=
  (dealloc_spec s hE h hblk).2.2.2.1

example : ledger [] [.malloc 496 16 (some 4096), .malloc 1008 16 none, .malloc 1008 16 (some 8192), .free 4096 496 16]
    = [(8192, 1008, 16)] := by decide

end Bump.C03

#print axioms Bump.C03.alloc_ledger
#print axioms Bump.C03.reset_ledger
#print axioms Bump.C03.drop_ledger
#print axioms Bump.C03.history_ledger
#print axioms Bump.C03.never_frees_static
#print axioms Bump.C03.dealloc_silent
